#!/usr/bin/env python3
"""Self-validation (not registered in MANIFEST): apply catalogue mutants to a scratch copy of /repo and
confirm that the property's check reports a violation.

  selftest/run.py [--tier quick] [--pytest] [ID-substring ...]

A mutant is {id, property, file, old, new[, count]} in selftest/catalogue.py (textual replacement in a file
below the scratch copy).  Scratch copies live under ${VERIF_SCRATCH:-/var/tmp} and are removed afterwards."""
import os, shutil, subprocess, sys, tempfile, time
HERE = os.path.dirname(os.path.abspath(__file__))
VERIF = os.path.dirname(HERE)
sys.path.insert(0, VERIF)
from selftest.catalogue import MUTANTS


def main(argv):
    tier = 'quick'
    run_pytest = False
    sel = []
    it = iter(argv)
    for a in it:
        if a == '--tier':
            tier = next(it)
        elif a == '--pytest':
            run_pytest = True
        else:
            sel.append(a)
    base = os.environ.get('VERIF_SCRATCH', '/var/tmp')
    scratch = tempfile.mkdtemp(prefix='vf-selftest-', dir=base)
    copy = os.path.join(scratch, 'repo')
    subprocess.run(['rsync', '-a', '--exclude', '.git', '/repo/', copy + '/'], check=True)
    results = []
    try:
        for m in MUTANTS:
            if sel and not any(s in m['id'] or s == m['property'] for s in sel):
                continue
            path = os.path.join(copy, m['file'])
            with open(path) as f:
                orig = f.read()
            if m['old'] not in orig:
                results.append((m['id'], m['property'], 'STALE (pattern not found)', 0))
                print('%-45s %-4s STALE' % (m['id'], m['property']), flush=True)
                continue
            mutated = orig.replace(m['old'], m['new'], m.get('count', 1))
            with open(path, 'w') as f:
                f.write(mutated)
            t0 = time.time()
            try:
                env = dict(os.environ, VERIF_REPO=copy, VERIF_EVIDENCE_DIR=os.path.join(scratch, 'evidence'))
                p = subprocess.run([os.path.join(VERIF, 'check'), m['property'], tier], env=env,
                                   stdout=subprocess.PIPE, stderr=subprocess.STDOUT, timeout=3600)
                out = p.stdout.decode('utf-8', 'replace')
                verdict = {0: 'MISSED', 1: 'caught', 2: 'inconclusive'}.get(p.returncode, 'rc=%d' % p.returncode)
                what = [l for l in out.split('\n') if l.strip().startswith('what:')][:1]
                extra = ''
                if run_pytest:
                    q = subprocess.run(['/venv/bin/python', '-m', 'pytest', '-q', '-x', '-p', 'no:cacheprovider',
                                        '--timeout=900', '--continue-on-collection-errors'], cwd=copy,
                                       stdout=subprocess.PIPE, stderr=subprocess.STDOUT)
                    tail = q.stdout.decode('utf-8', 'replace').strip().split('\n')[-1]
                    extra = ' | pytest: ' + tail
                results.append((m['id'], m['property'], verdict, time.time() - t0))
                print('%-45s %-4s %-12s %5.1fs %s%s' % (m['id'], m['property'], verdict, time.time() - t0,
                                                        what[0].strip()[:150] if what else '', extra), flush=True)
            finally:
                with open(path, 'w') as f:
                    f.write(orig)
    finally:
        shutil.rmtree(scratch, ignore_errors=True)
    missed = [r for r in results if r[2] != 'caught']
    print('\n%d mutants, %d caught, %d not caught' % (len(results), len(results) - len(missed), len(missed)))
    return 1 if missed else 0


if __name__ == '__main__':
    sys.exit(main(sys.argv[1:]))
