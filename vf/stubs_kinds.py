"""Pure data: fault kinds per step and the documented kind -> status mapping (no exactly_lib import)."""
PHASES = ('conf', 'setup', 'act', 'before-assert', 'assert', 'cleanup')

# kinds of failure
VALIDATION = 'validation_error'      # svh validation error returned
HARD_RET = 'hard_error_returned'
HARD_RAISE = 'hard_error_raised'
FAIL = 'assertion_failure'           # pfh fail
EXC = 'exception'                    # arbitrary exception
SYNTAX = 'act_parse_exception'       # ParseException from the actor
UNDEF = 'undefined_symbol'           # symbol_usages() returns a reference to an undefined symbol
UNDEF_IN_DEF = 'definition_referring_to_undefined_symbol'   # ... a definition whose value refers to an undefined symbol
DUP_DEF = 'symbol_defined_twice'     # ... two definitions of one name
WRONG_TYPE = 'reference_violating_type_restriction'  # ... a definition of a string + a reference demanding a path

# step -> kinds the step's return type admits
STEP_KINDS = {
    ('conf', 'main'): (VALIDATION, HARD_RET, HARD_RAISE, EXC),
    ('act', 'parse'): (SYNTAX, EXC),
    ('*', 'symbols'): (UNDEF, UNDEF_IN_DEF, DUP_DEF, WRONG_TYPE, EXC),
    ('*', 'pre_sds'): (VALIDATION, HARD_RET, HARD_RAISE, EXC),
    ('*', 'post_setup'): (VALIDATION, HARD_RET, HARD_RAISE, EXC),
    ('setup', 'main'): (HARD_RET, HARD_RAISE, EXC),
    ('before-assert', 'main'): (HARD_RET, HARD_RAISE, EXC),
    ('cleanup', 'main'): (HARD_RET, HARD_RAISE, EXC),
    ('assert', 'main'): (FAIL, HARD_RET, HARD_RAISE, EXC),
    ('act', 'exe_input'): (HARD_RET, EXC),
    ('act', 'prepare'): (HARD_RET, HARD_RAISE, EXC),
    ('act', 'execute'): (HARD_RET, HARD_RAISE, EXC),
}

# documented kind -> status mapping (hard coded)
EXPECTED_STATUS = {
    VALIDATION: 'VALIDATION_ERROR',
    UNDEF: 'VALIDATION_ERROR',
    UNDEF_IN_DEF: 'VALIDATION_ERROR',
    DUP_DEF: 'VALIDATION_ERROR',
    WRONG_TYPE: 'VALIDATION_ERROR',
    HARD_RET: 'HARD_ERROR',
    HARD_RAISE: 'HARD_ERROR',
    FAIL: 'FAIL',
    EXC: 'INTERNAL_ERROR',
    SYNTAX: 'SYNTAX_ERROR',
}


def kinds_for(phase, step):
    return STEP_KINDS.get((phase, step)) or STEP_KINDS[('*', step)]


