"""Shared constants and small helpers (no import of exactly_lib here)."""
import hashlib
import json
import os
import random
import sys

VERIF_DIR = os.path.dirname(os.path.dirname(os.path.abspath(__file__)))
REPO = os.environ.get('VERIF_REPO', '/repo')
REPO_SRC = os.path.join(REPO, 'src')
SCRATCH_BASE = os.environ.get('VERIF_SCRATCH', '/var/tmp')
OUT_DIR = os.path.join(VERIF_DIR, 'out')
EVIDENCE_DIR = os.environ.get('VERIF_EVIDENCE_DIR', os.path.join(VERIF_DIR, 'evidence'))
KNOWN_FINDINGS_FILE = os.environ.get('VERIF_KNOWN_FILE', os.path.join(VERIF_DIR, 'known_findings.json'))

EXIT_HELD = 0
EXIT_VIOLATION = 1
EXIT_INCONCLUSIVE = 2


def seed_from_env() -> int:
    try:
        return int(os.environ.get('VERIF_SEED', '0'))
    except ValueError:
        return 0


def rng_for(seed: int, *parts) -> random.Random:
    h = hashlib.sha256(repr((seed,) + tuple(parts)).encode()).digest()
    return random.Random(int.from_bytes(h[:8], 'big'))


def sha(obj) -> str:
    return hashlib.sha1(json.dumps(obj, sort_keys=True, default=repr).encode()).hexdigest()[:16]


def put_repo_first_on_path():
    if REPO_SRC in sys.path:
        sys.path.remove(REPO_SRC)
    sys.path.insert(0, REPO_SRC)


def jsonable(x, depth=0):
    if depth > 8:
        return repr(x)
    if isinstance(x, (str, int, float, bool)) or x is None:
        return x
    if isinstance(x, bytes):
        try:
            return x.decode('utf-8')
        except UnicodeDecodeError:
            return 'hex:' + x.hex()
    if isinstance(x, dict):
        return {str(k): jsonable(v, depth + 1) for k, v in x.items()}
    if isinstance(x, (list, tuple)):
        return [jsonable(v, depth + 1) for v in x]
    if isinstance(x, (set, frozenset)):
        return sorted((jsonable(v, depth + 1) for v in x), key=repr)
    return repr(x)
