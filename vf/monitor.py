"""Harness-side contracts on the real functions (icontract style, without the dependency): wrap a module
attribute with pre/post observers; every wrapper counts its evaluations, so that "bound before wrapping" or a
moved call site shows up as a zero counter (=> INCONCLUSIVE), never as a silent pass."""
import functools

COUNTERS = {}
VIOLATIONS = []  # appended by post-conditions: dict(what=..., detail=...)


def count(name, n=1):
    COUNTERS[name] = COUNTERS.get(name, 0) + n


def wrap(module, attr, name, pre=None, post=None):
    """Replaces module.attr by a wrapper.  pre(args, kwargs); post(result, args, kwargs).
    Observers must not raise into the code under test: exceptions inside them are recorded as monitor errors."""
    real = getattr(module, attr)
    if getattr(real, '_vf_wrapped', False):
        return real

    @functools.wraps(real)
    def wrapper(*args, **kwargs):
        count(name + '.calls')
        if pre is not None:
            try:
                pre(args, kwargs)
            except Exception as ex:  # monitor bug: surfaces as inconclusive
                count(name + '.monitor_errors')
                VIOLATIONS.append({'what': 'MONITOR-ERROR in pre of %s: %r' % (name, ex), 'monitor_error': True})
        result = real(*args, **kwargs)
        if post is not None:
            try:
                post(result, args, kwargs)
            except Exception as ex:
                count(name + '.monitor_errors')
                VIOLATIONS.append({'what': 'MONITOR-ERROR in post of %s: %r' % (name, ex), 'monitor_error': True})
        return result

    wrapper._vf_wrapped = True
    wrapper._vf_real = real
    setattr(module, attr, wrapper)
    return wrapper


def take_violations():
    v = list(VIOLATIONS)
    del VIOLATIONS[:]
    return v
