"""Independent reader of Exactly's documented string syntax (C09).

Written from the reference manual only:
  `exactly help syntax STRING`, `... RICH-STRING`, `... LIST`, `... PROGRAM-ARGUMENT`, `... SYMBOL-REFERENCE`,
  `... SYMBOL-NAME`, `... TEXT-SOURCE`, `... PROGRAM`, `help setup file|def|run`, `help concept symbol`,
  `help case spec` ("File syntax", "Comments and empty lines").
Does not use `shlex` and does not import exactly_lib.

What the manual says (and what is encoded here)
  * STRING = adjacent fragments without intervening whitespace; fragment = naked characters (no whitespace),
    "soft quoted" or 'hard quoted'.  There are no escape characters (README: "Support for character escaping in
    strings is missing").  SYMBOL-REFERENCEs  @[SYMBOL-NAME]@  (name = alphanumerics and underscores) are substituted
    in naked and soft quoted fragments, NOT in hard quoted ones.  Text resembling the reference syntax without
    being one (`@[ X ]@`, `@[X]`, `@[`) is ordinary text.
  * A string symbol is substituted by its characters, a list symbol by its elements separated by a single space
    (empty list: empty string).
  * Reserved words ( ) [ ] { } = | : ! && || must be quoted to be used as strings: a token that consists of one
    naked fragment equal to a reserved word is not a string.
  * RICH-STRING = STRING | `:>` text until end of line (whitespace at both ends removed, references substituted)
    | `<<MARKER` lines... `MARKER` (each line ends with new-line, references substituted, ended by a line that
    is exactly MARKER).
  * LIST = elements until end of line or an unquoted `)`; an unquoted `\\` at end of line continues the list on
    the next line; an element that is a (naked) reference to a list symbol is spliced.
  * PROGRAM-ARGUMENT list = LIST + `:>` (one argument, rest of line) + here-document (last argument).
  * Comments exist only as whole lines beginning with `#` between instructions ("Support for comments inside
    instructions is missing") - so `#` inside an instruction is an ordinary character.

The reader works on the text of a whole test case (the small subset of instructions C09 generates: def string,
def list, file [-rel-act] FILE-NAME [= TEXT-SOURCE], %, run) so that what follows an instruction - a swallowed or
split next argument / next line - is part of the prediction.

`defects` (a set of names) switches on emulations of *known deviations* of the implementation; they are used
ONLY to recognise known findings (to predict the defective observation), never to decide what is expected:
  'S7'  an unquoted `#` is treated as the start of a comment by the tokenizer: inside a token it ends the token and
        the rest of the line is dropped; where a token would start, the rest of the line INCLUDING the line end is
        dropped, so that the instruction continues with the next non-empty line.
  'S8'  the fragments of a token are not honoured: the quotes are removed and the token is treated as a whole
        according to its first character: a token starting with `'` is not substituted at all, every other token is
        substituted everywhere (also in its hard quoted fragments); a token that starts naked and whose text without
        the quotes is one reference (`@[L]@""`) is taken as a whole-token SYMBOL-REFERENCE (a list is spliced).
  'H1'  a here-document MARKER is accepted only if it consists of ASCII letters, digits, `_` and `-` (manual: "Any
        single-word string may be used as MARKER"); other markers make the instruction a syntax error.
"""
import re

RESERVED_WORDS = ('(', ')', '[', ']', '{', '}', '=', '|', ':', '!', '&&', '||')
SYMBOL_REFERENCE = re.compile(r'@\[([A-Za-z0-9_]+)\]@')
_BLANK = ' \t'
_H1_MARKER = re.compile(r'[A-Za-z0-9_-]+')

NAKED, SOFT, HARD = 'naked', 'soft', 'hard'


class ReadError(Exception):
    """kind: 'syntax' | 'validation' ; why: short mechanism name"""

    def __init__(self, kind, why, pos=None):
        Exception.__init__(self, '%s: %s' % (kind, why))
        self.kind = kind
        self.why = why
        self.pos = pos


class Token:
    __slots__ = ('fragments', 'start', 'end', 'cut')

    def __init__(self, fragments, start, end, cut=False):
        self.fragments = fragments  # [(kind, text)]
        self.start = start
        self.end = end
        self.cut = cut  # S7 emulation: the rest of the line is to be dropped

    def is_naked_word(self):
        return len(self.fragments) == 1 and self.fragments[0][0] == NAKED

    def naked_word(self):
        return self.fragments[0][1] if self.is_naked_word() else None


# -------------------------------------------------------------------------------------------------
# lexical level
# -------------------------------------------------------------------------------------------------
def read_token(text, pos, defects=frozenset()):
    """Reads the maximal run of adjacent fragments starting at text[pos] (which is not whitespace)."""
    frags = []
    i = pos
    n = len(text)
    cut = False
    while i < n:
        c = text[i]
        if c in ' \t\n\r':
            break
        if c == '"' or c == "'":
            j = text.find(c, i + 1)
            nl = text.find('\n', i + 1)
            if j < 0 or (0 <= nl < j):
                # the manual defines no quoted string that contains a line end; generators never emit a closing
                # quote character on a later line, so "not closed on this line" == "not closed at all"
                raise ReadError('syntax', 'unterminated-quote', i)
            frags.append((SOFT if c == '"' else HARD, text[i + 1:j]))
            i = j + 1
        else:
            if c == '#' and 'S7' in defects:
                cut = True
                break
            if frags and frags[-1][0] == NAKED:
                frags[-1] = (NAKED, frags[-1][1] + c)
            else:
                frags.append((NAKED, c))
            i += 1
    return Token(frags, pos, i, cut)


def split_references(s):
    """-> parts: [('lit', text) | ('ref', name)] (no empty literals)"""
    parts = []
    i = 0
    for m in SYMBOL_REFERENCE.finditer(s):
        if m.start() > i:
            parts.append(('lit', s[i:m.start()]))
        parts.append(('ref', m.group(1)))
        i = m.end()
    if i < len(s):
        parts.append(('lit', s[i:]))
    return parts


def token_parts(tok, defects=frozenset()):
    parts = []
    if 'S8' in defects:
        first_is_hard = tok.fragments[0][0] == HARD
        for kind, s in tok.fragments:
            parts.extend([('lit', s)] if first_is_hard else split_references(s))
        return [p for p in parts if p[0] == 'ref' or p[1] != '']
    for kind, s in tok.fragments:
        if kind == HARD:
            if s:
                parts.append(('lit', s))
        else:
            parts.extend(split_references(s))
    return parts


class Elem:
    """A list element (or a single string): parts + whether it is a naked whole-token symbol reference."""
    __slots__ = ('parts', 'whole_ref', 'form')

    def __init__(self, parts, whole_ref=None, form='string'):
        self.parts = parts
        self.whole_ref = whole_ref
        self.form = form  # 'string' | ':>' | '<<'


def _elem_of_token(text, tok, defects):
    whole = None
    w = tok.naked_word()
    if w is None and 'S8' in defects and tok.fragments[0][0] == NAKED:
        # S8 emulation: quotes removed, token treated as a whole according to its first character
        w = ''.join(s for _, s in tok.fragments)
    if w is not None:
        m = SYMBOL_REFERENCE.fullmatch(w)
        if m:
            whole = m.group(1)
    return Elem(token_parts(tok, defects), whole)


# -------------------------------------------------------------------------------------------------
# syntax level: a cursor over the whole case text
# -------------------------------------------------------------------------------------------------
class Cursor:
    def __init__(self, text, pos, defects=frozenset()):
        self.text = text
        self.pos = pos
        self.defects = defects

    # -- helpers --------------------------------------------------------------------------------------
    def eol_pos(self, pos=None):
        j = self.text.find('\n', self.pos if pos is None else pos)
        return len(self.text) if j < 0 else j

    def to_next_line(self):
        e = self.eol_pos()
        self.pos = min(len(self.text), e + 1)

    def next_token(self):
        """Skips blanks; -> Token, or None at end of line / end of text.  (S7 emulation lives here.)"""
        t = self.text
        n = len(t)
        swallow = False
        while True:
            while self.pos < n and (t[self.pos] in _BLANK or (swallow and t[self.pos] in '\n\r')):
                self.pos += 1
            if self.pos >= n or t[self.pos] == '\n':
                return None
            if t[self.pos] == '#' and 'S7' in self.defects:
                self.to_next_line()
                swallow = True
                continue
            tok = read_token(t, self.pos, self.defects)
            self.pos = tok.end
            if tok.cut:
                self.pos = self.eol_pos()
            return tok

    def peek_token(self):
        save = self.pos
        try:
            return self.next_token()
        finally:
            self.pos = save

    def expect_end_of_line(self):
        tok = self.next_token()
        if tok is not None:
            raise ReadError('syntax', 'superfluous-arguments', tok.start)
        self.to_next_line()

    # -- STRING -----------------------------------------------------------------------------------------
    def string(self):
        tok = self.next_token()
        if tok is None:
            raise ReadError('syntax', 'missing-string', self.pos)
        return self._string_of(tok)

    def _string_of(self, tok):
        w = tok.naked_word()
        if w is not None and w in RESERVED_WORDS and not tok.cut:
            # (S7 emulation: what is left of a token cut at `#` is taken as a string even if it is a reserved word)
            raise ReadError('syntax', 'reserved-word', tok.start)
        return _elem_of_token(self.text, tok, self.defects)

    # -- RICH-STRING ----------------------------------------------------------------------------------
    def _text_until_eol(self):
        e = self.eol_pos()
        s = self.text[self.pos:e].strip(' \t\r')
        self.pos = e
        return Elem(split_references(s), None, ':>')

    def _here_document(self, marker, tok):
        if 'H1' in self.defects and not _H1_MARKER.fullmatch(marker):
            raise ReadError('syntax', 'not-a-here-document', tok.start)
        # the rest of the header line must be empty
        if self.next_token() is not None:
            raise ReadError('syntax', 'here-doc-header-superfluous', tok.start)
        if self.pos >= len(self.text):
            raise ReadError('syntax', 'unterminated-here-document', tok.start)
        self.to_next_line()
        lines = []
        while True:
            if self.pos >= len(self.text):
                raise ReadError('syntax', 'unterminated-here-document', tok.start)
            e = self.eol_pos()
            line = self.text[self.pos:e]
            if line == marker:
                self.pos = e  # stays at the end of the marker line
                break
            if e >= len(self.text):
                # last line without new-line and not the marker
                raise ReadError('syntax', 'unterminated-here-document', tok.start)
            lines.append(line)
            self.pos = e + 1
        return Elem(split_references(''.join(l + '\n' for l in lines)), None, '<<')

    def rich_string(self):
        tok = self.next_token()
        if tok is None:
            raise ReadError('syntax', 'missing-string', self.pos)
        return self._rich_string_of(tok)

    def _rich_string_of(self, tok):
        w = tok.naked_word()
        if w == ':>':
            return self._text_until_eol()
        if w is not None and w.startswith('<<') and len(w) > 2:
            return self._here_document(w[2:], tok)
        return self._string_of(tok)

    # -- LIST / PROGRAM-ARGUMENT list ---------------------------------------------------------------------
    def list_(self, program_arguments=False):
        """Elements until end of line or an unquoted `)` (not consumed)."""
        elems = []
        while True:
            save = self.pos
            tok = self.next_token()
            if tok is None:
                return elems
            w = tok.naked_word()
            if w == ')':
                self.pos = save
                return elems
            if w == '\\' and not tok.cut:
                # "An unquoted \ at END-OF-LINE makes the list continue on the next line"
                e = self.eol_pos()
                if self.text[self.pos:e].strip(' \t\r') == '':
                    self.pos = min(len(self.text), e + 1)
                    continue
                elems.append(_elem_of_token(self.text, tok, self.defects))
                continue
            if program_arguments and (w == ':>' or (w is not None and w.startswith('<<') and len(w) > 2)):
                elems.append(self._rich_string_of(tok))
                if w == ':>':
                    return elems
                # here-document: last argument; cursor is at the end of the marker line
                return elems
            elems.append(self._string_of(tok))


# -------------------------------------------------------------------------------------------------
# resolution of symbol references
# -------------------------------------------------------------------------------------------------
def resolve_string(elem, symbols):
    out = []
    for kind, v in elem.parts:
        if kind == 'lit':
            out.append(v)
        else:
            if v not in symbols:
                raise ReadError('validation', 'undefined-symbol:' + v)
            t, val = symbols[v]
            out.append(val if t == 'string' else ' '.join(val))
    return ''.join(out)


def resolve_list(elems, symbols):
    out = []
    for e in elems:
        if e.whole_ref is not None:
            if e.whole_ref not in symbols:
                raise ReadError('validation', 'undefined-symbol:' + e.whole_ref)
            t, val = symbols[e.whole_ref]
            if t == 'list':
                out.extend(val)
                continue
        out.append(resolve_string(e, symbols))
    return out


# -------------------------------------------------------------------------------------------------
# convenience entry points for single constructs (text = the argument text, starting at pos)
# -------------------------------------------------------------------------------------------------
def denoted_string(source, symbols, defects=frozenset()):
    """source: STRING syntax followed by nothing but blanks. -> str"""
    c = Cursor(source, 0, defects)
    e = c.string()
    if c.next_token() is not None:
        raise ReadError('syntax', 'superfluous-arguments', c.pos)
    return resolve_string(e, symbols)


def denoted_list(source, symbols, defects=frozenset(), program_arguments=False):
    c = Cursor(source, 0, defects)
    return resolve_list(c.list_(program_arguments), symbols)


# -------------------------------------------------------------------------------------------------
# interpreter of the instruction subset used by C09
# -------------------------------------------------------------------------------------------------
_RE_DEF = re.compile(r'def (string|list) ([A-Za-z0-9_]+) =')
_RE_PHASE = re.compile(r'\[[a-z-]+\][ \t]*$')


class _Instr:
    __slots__ = ('line', 'kind', 'name', 'value', 'paren')


def _parse_text_source(c):
    """RICH-STRING [-transformed-by identity]  |  ( the same )   -> Elem ; consumes through the end of line"""
    tok = c.next_token()
    if tok is None:
        raise ReadError('syntax', 'missing-text-source', c.pos)
    paren = tok.naked_word() == '('
    if paren:
        tok = c.next_token()
        if tok is None:
            raise ReadError('syntax', 'missing-text-source', c.pos)
    e = c._rich_string_of(tok)
    if e.form in (':>', '<<'):
        if paren:
            raise ReadError('syntax', 'missing-)', c.pos)
        c.to_next_line()
        return e
    nxt = c.peek_token()
    if nxt is not None and nxt.naked_word() == '-transformed-by':
        c.next_token()
        t = c.next_token()
        if t is None or t.naked_word() != 'identity':
            raise ReadError('syntax', 'unsupported-transformer-in-model', c.pos)
    if paren:
        t = c.next_token()
        if t is None or t.naked_word() != ')':
            raise ReadError('syntax', 'missing-)', c.pos)
    c.expect_end_of_line()
    return e


def _parse_program(c):
    """[(] % STRING PROGRAM-ARGUMENT... [)]   -> (program Elem, [arg Elem]) ; consumes through end of line"""
    tok = c.next_token()
    if tok is None:
        raise ReadError('syntax', 'missing-program', c.pos)
    paren = tok.naked_word() == '('
    if paren:
        tok = c.next_token()
    if tok is None or tok.naked_word() != '%':
        raise ReadError('syntax', 'unsupported-program-form-in-model', c.pos)
    pgm = c.string()
    args = c.list_(program_arguments=True)
    if args and args[-1].form == '<<':
        if paren:
            raise ReadError('syntax', 'missing-)', c.pos)
        c.to_next_line()
        return pgm, args
    if paren:
        t = c.next_token()
        if t is None or t.naked_word() != ')':
            raise ReadError('syntax', 'missing-)', c.pos)
    c.expect_end_of_line()
    return pgm, args


def interpret(case_text, probe_path=None, defects=frozenset()):
    """Reads and "executes" a test case consisting of `[setup]` + def string / def list / file / % / run lines,
    comment lines and empty lines.

    -> {'status': 'PASS' | 'SYNTAX_ERROR' | 'VALIDATION_ERROR', 'line': first line of the failing instruction | None,
        'why': ..., 'files': {name: contents}, 'probes': {id: [argv after CTRL]}, 'symbols': {...}}
    """
    defects = frozenset(defects)
    text = case_text
    n = len(text)
    pos = 0
    instrs = []

    def line_no(p):
        return text.count('\n', 0, p) + 1

    # ---- pass 1: syntax ----------------------------------------------------------------------------
    while pos < n:
        e = text.find('\n', pos)
        e = n if e < 0 else e
        line = text[pos:e]
        if line.strip(' \t\r') == '' or line.startswith('#') or _RE_PHASE.match(line):
            pos = e + 1
            continue
        ins = _Instr()
        ins.line = line_no(pos)
        c = Cursor(text, pos, defects)
        try:
            m = _RE_DEF.match(line)
            if m:
                c.pos = pos + m.end()
                ins.kind = 'def-' + m.group(1)
                ins.name = m.group(2)
                if m.group(1) == 'string':
                    ins.value = c.rich_string()
                    if ins.value.form in (':>', '<<'):
                        c.to_next_line()
                    else:
                        c.expect_end_of_line()
                else:
                    ins.value = c.list_()
                    c.expect_end_of_line()
            else:
                if line.startswith('file '):
                    # file [-rel-act] FILE-NAME [= TEXT-SOURCE]      (PATH: FILE-NAME is a STRING)
                    c.pos = pos + 5
                    ins.kind = 'file'
                    tok = c.next_token()
                    if tok is not None and tok.naked_word() == '-rel-act':
                        tok = c.next_token()
                    if tok is None:
                        raise ReadError('syntax', 'missing-file-name', c.pos)
                    if tok.cut and tok.naked_word() in RESERVED_WORDS:
                        # (S7 emulation: in the FILE-NAME position the remnant of a cut token IS checked)
                        raise ReadError('syntax', 'reserved-word', tok.start)
                    ins.name = c._string_of(tok)
                    tok = c.next_token()
                    if tok is None:
                        ins.value = None  # "file PATH: Creates an empty regular file"
                        c.to_next_line()
                    elif tok.naked_word() == '=':
                        ins.value = _parse_text_source(c)
                    else:
                        raise ReadError('syntax', 'superfluous-arguments', tok.start)
                elif line.startswith('% '):
                    c.pos = pos
                    ins.kind = 'program'
                    ins.value = _parse_program(c)
                elif line.startswith('run '):
                    c.pos = pos + 4
                    ins.kind = 'program'
                    ins.value = _parse_program(c)
                else:
                    raise ReadError('syntax', 'unknown-instruction-in-model', pos)
        except ReadError as ex:
            return {'status': 'SYNTAX_ERROR', 'line': ins.line, 'why': ex.why, 'files': {}, 'probes': {}}
        instrs.append(ins)
        pos = c.pos

    # ---- pass 2: symbol references (validation), in file order ------------------------------------
    symbols = {}
    files = {}
    probes = {}
    try:
        for ins in instrs:
            cur = ins
            if ins.kind == 'def-string':
                if ins.name in symbols:
                    raise ReadError('validation', 'symbol-defined-twice')
                # (a whole-token naked reference to a list is converted to a string here - "in most places")
                symbols[ins.name] = ('string', resolve_string(ins.value, symbols))
            elif ins.kind == 'def-list':
                if ins.name in symbols:
                    raise ReadError('validation', 'symbol-defined-twice')
                symbols[ins.name] = ('list', resolve_list(ins.value, symbols))
            elif ins.kind == 'file':
                v = ins.value
                for e in (ins.name, v):
                    if e is not None and e.whole_ref is not None and e.whole_ref in symbols \
                            and symbols[e.whole_ref][0] != 'string':
                        raise ReadError('validation', 'illegal-type')
                name = resolve_string(ins.name, symbols)
                if name in files or name in ('', '.', '..') or '/' in name:
                    raise ReadError('hard', 'file-exists-or-not-a-plain-file-name')
                files[name] = '' if v is None else resolve_string(v, symbols)
            elif ins.kind == 'program':
                pgm, args = ins.value
                p = resolve_string(pgm, symbols)
                a = resolve_list(args, symbols)
                ident = None
                if len(a) >= 2:
                    for kv in a[1].split(','):
                        if kv.startswith('id='):
                            ident = kv[3:]
                if probe_path is None or p != probe_path or ident is None:
                    raise ReadError('unpredictable', 'program-is-not-the-probe')
                probes.setdefault(ident, []).append(a[2:])
    except ReadError as ex:
        if ex.kind == 'validation':
            return {'status': 'VALIDATION_ERROR', 'line': cur.line, 'why': ex.why, 'files': {}, 'probes': {}}
        return {'status': 'UNPREDICTABLE', 'line': cur.line, 'why': ex.why, 'files': {}, 'probes': {}}
    return {'status': 'PASS', 'line': None, 'why': None, 'files': files, 'probes': probes,
            'symbols': {k: v[1] for k, v in symbols.items()}}
