"""Reference interpreter of def/reference programs (C08).

Written from the reference manual (`exactly help setup def`, `help concept symbol`, `help concept type`,
`help syntax STRING | LIST | PATH | SYMBOL-REFERENCE | TEXT-SOURCE | PROGRAM | PROGRAM-ARGUMENT | <each logic type>`,
`help builtin`, `help case spec`).  Nothing here imports or consults exactly_lib.

A *program* is a JSON-able dict  {'stmts': [stmt, ...]}  -- the list is the FILE order; every statement names
its phase.  Manual: "The order of the different phases in the test case file is irrelevant. ... A phase can be
declared more than once. Contents of multiple declarations are merged, and executed in the order it appears in
the file."  Execution order of phases: setup, act, before-assert, assert, cleanup.

Three-valued analysis:  'accept' (the manual defines the program and it is valid), 'reject' (the manual makes it
a symbol error: undefined / defined twice / type not admitted by the context -> VALIDATION_ERROR, nothing is
executed), 'unspec' (the manual leaves the construct open, or it is outside the subset this reference can
evaluate -- every `raise Unspecified(...)` below says why; generators drop such programs).

---------------------------------------------------------------------------------------------------------------
Value syntax trees (all lists/dicts/strings, JSON-able)

  Token   [Q, [frag, ...]]      Q: 'n' naked | 's' soft quoted | 'h' hard quoted
                                   | 'e' ":> TEXT-UNTIL-END-OF-LINE" | 'd' here document  (the RICH-STRING forms;
                                   only as value of `def string`, as TEXT-SOURCE without transformation, and as
                                   the last PROGRAM-ARGUMENT)
                                frag: ['t', text] | ['r', NAME]  (hard quoted tokens have only 't' fragments)
  string  Token
  list    [Token, ...]          a naked token that is exactly one reference to a list symbol is spliced
  path    {'rel': REL, 'name': Token}
                                REL: None | 'home' | 'act-home' | 'act' | 'tmp' | 'result' | 'cd' | 'here' | ['sym', NAME]
  logic   ['ref', NAME, FORM]   FORM 'p' plain name | 'a' @[NAME]@     (every logic type, incl. text-source w/o
                                transformer is written ['ref', NAME, FORM, TT|None])
          ['const', bool] ['not', E] ['and', [E..]] ['or', [E..]]     (the four matcher types on int/line/text/file/files)
  integer-matcher   ['cmp', OP, Token]
  line-matcher      ['line-num', IM] ['contents', TM]
  text-matcher      ['matches', Token] ['equals', TS] ['num-lines', IM] ['any-line', LM] ['every-line', LM]
                    ['is-empty'] ['transformed', TT, TM]
  text-transformer  ['upper'] ['lower'] ['identity'] ['filter', LM] ['grep', Token] ['replace', Token, Token]
                    ['seq', [TT..]]
  program           ['probe', ID, LIST] ['pref', NAME, LIST] ['sys', Token, LIST]
  text-source       ['str', Token, TT|None] ['ref', NAME, FORM, TT|None]
  file-matcher      ['type', 'file'|'dir'] ['name', Token] ['contents', TM] ['dir-contents', FSM]
  files-matcher     ['is-empty'] ['num-files', IM] ['every-file', FM] ['any-file', FM] ['fmatches', FC]
  files-condition   ['lit', [[Token, FM|None], ...]]
  files-source      ['lit', [['file', Token, TS|None] | ['dir', Token, FS|None], ...]]

Statements
  {'ph': P, 'k': 'def', 't': TYPE, 'n': NAME, 'v': VALUE}
  {'ph': P, 'k': 'args', 'id': ID, 'a': LIST}            % PROBE REC id=ID ARGS          (also as the [act] program)
  {'ph': P, 'k': 'file', 'id': ID, 'ts': TS, 'rel': None | NAME [, 'quiet': True]}
                                                        file (-rel-act | -rel NAME) fID = TS ; then the file is read back
                                                        (unless quiet)
  {'ph': P, 'k': 'run', 'pg': PROGRAM}                   run PROGRAM                     (also as the [act] program)
  {'ph': 'assert', 'k': 'tm', 'id': ID, 'tm': TM}        contents of a file holding TEXT : [!] TM
  {'ph': 'assert', 'k': 'im', 'im': IM}                  exit-code [!] IM
  {'ph': P, 'k': 'dir', 'id': ID, 'fs': FS}              dir -rel-act dID = FS ; then the tree below dID is dumped
  {'ph': 'assert', 'k': 'fm', 'id': ID, 'on': NAME, 'fm': FM}    exists -rel-act xID/NAME : [!] FM     (xID = FIXTURE)
  {'ph': 'assert', 'k': 'fsm', 'id': ID, 'fsm': FSM}     dir-contents -rel-act xID : [!] FSM
  {'ph': P, 'k': 'cd', 'to': WORD}                       dir -rel-act WORD ; cd -rel-act WORD
                        (`help setup def`: a path relative the current directory "is relative the directory that is
                        current when the symbol is REFERENCED, not when it is defined"; the current directory is kept
                        from phase to phase.  What "referenced" means for a symbol built from such a path is left open,
                        so in a program with `cd` such paths may only be referenced by use statements.)
"""
import os
import re

PHASES = ('setup', 'act', 'before-assert', 'assert', 'cleanup')
DATA_TYPES = ('string', 'list', 'path')
LOGIC_TYPES = ('integer-matcher', 'line-matcher', 'file-matcher', 'files-matcher', 'files-condition',
               'files-source', 'text-source', 'text-matcher', 'text-transformer', 'program')
ALL_TYPES = DATA_TYPES + LOGIC_TYPES

# `exactly help builtin`
BUILTIN_STRINGS = {'NEW_LINE': '\n', 'OS_LINE_SEP': os.linesep, 'OS_PATH_SEP': os.pathsep, 'TAB': '\t'}
BUILTIN_PATHS = {'EXACTLY_ACT': 'act', 'EXACTLY_ACT_HOME': 'act-home', 'EXACTLY_HOME': 'home',
                 'EXACTLY_RESULT': 'result', 'EXACTLY_TMP': 'tmp'}
BUILTIN_NAMES = tuple(sorted(BUILTIN_STRINGS)) + tuple(sorted(BUILTIN_PATHS))

# `help setup file`: "Accepted relativities: -rel-act, -rel-tmp, -rel-cd"
CREATABLE_ROOTS = ('act', 'tmp', 'cd')

TEXT = 'ab\ncB\nAb c\nd\n'  # the fixed text that 'tm' uses (and transformer uses) work on
# the directory that 'fm' / 'fsm' uses look at: relative path -> ('f', contents) | ('d',)
FIXTURE = {'a.txt': ('f', TEXT), 'b': ('f', ''), 'sub': ('d',), 'sub/c.txt': ('f', 'x'), 'e': ('d',)}
ACT_RC_OF_ARGS = 3  # exit code of the [act] probe when [act] is an 'args' statement

_REF_RE = re.compile(r'@\[[A-Za-z0-9_]+\]@')
_SAFE_REGEX = re.compile(r'[A-Za-z0-9_/ :-]+')
_SAFE_REPL = re.compile(r'[A-Za-z0-9_/ :.-]*')
_INT_LIT = re.compile(r'0|-?[1-9][0-9]*')
_NAME_OK = re.compile(r'[A-Za-z0-9_.-]+')


class Unspecified(Exception):
    """The manual leaves the meaning of the construct open."""


class Rejected(Exception):
    def __init__(self, kind, name, ctx, stmt_index):
        Exception.__init__(self, '%s: symbol %s in context %s (statement %d)' % (kind, name, ctx, stmt_index))
        self.kind = kind  # 'undefined' | 'duplicate' | 'type' | 'indirect' | 'relativity'
        self.name = name
        self.ctx = ctx
        self.stmt_index = stmt_index


# =============================================================================================================
# rendering to the DSL
# =============================================================================================================
def r_frag(f):
    if f[0] == 't':
        return f[1]
    return '@[%s]@' % f[1]


def r_token(tok):
    q, frags = tok
    body = ''.join(r_frag(f) for f in frags)
    if q == 'n':
        assert body != '' and not any(c.isspace() for c in body), tok
        return body
    if q == 's':
        assert '"' not in body and '\n' not in body
        return '"%s"' % body
    if q == 'e':
        # "Whitespace at both ends is removed": generated texts have none there
        assert body == body.strip() and body != '' and '\n' not in body, tok
        return ':> ' + body
    if q == 'd':
        assert body.endswith('\n') and 'EOF' not in body.split('\n'), tok
        return '<<EOF\n' + body + 'EOF'
    assert q == 'h' and "'" not in body and all(f[0] == 't' for f in frags)
    return "'%s'" % body


def r_list(lst):
    return ' '.join(r_token(t) for t in lst)


def r_path(p):
    rel = p['rel']
    name = r_token(p['name'])
    if rel is None:
        return name
    if isinstance(rel, (list, tuple)):
        return '-rel %s %s' % (rel[1], name)
    return '-rel-%s %s' % (rel, name)


def _r_ref(e):
    return e[1] if e[2] == 'p' else '@[%s]@' % e[1]


def _arg(s, e):
    """Expression in argument position: everything but a reference goes inside parentheses
    ("may not contain infix operators (unless inside parentheses)"; parentheses are always allowed)."""
    return s if e[0] == 'ref' else '( %s )' % s


def _r_bool(e, r_prim):
    k = e[0]
    if k == 'ref':
        return _r_ref(e)
    if k == 'const':
        return 'constant ' + ('true' if e[1] else 'false')
    if k == 'not':
        return '! ' + _arg(_r_bool(e[1], r_prim), e[1])
    if k in ('and', 'or'):
        op = ' && ' if k == 'and' else ' || '
        return op.join(_arg(_r_bool(x, r_prim), x) for x in e[1])
    return r_prim(e)


def r_im(e):
    def prim(e):
        assert e[0] == 'cmp', e
        return '%s %s' % (e[1], r_token(e[2]))

    return _r_bool(e, prim)


def r_lm(e):
    def prim(e):
        if e[0] == 'line-num':
            return 'line-num ' + _arg(r_im(e[1]), e[1])
        assert e[0] == 'contents', e
        return 'contents ' + _arg(r_tm(e[1]), e[1])

    return _r_bool(e, prim)


def r_tm(e):
    def prim(e):
        k = e[0]
        if k == 'matches':
            return 'matches ' + r_token(e[1])
        if k == 'equals':
            return 'equals ' + r_ts(e[1], parens=True)
        if k == 'num-lines':
            return 'num-lines ' + _arg(r_im(e[1]), e[1])
        if k == 'any-line':
            return 'any line : ' + _arg(r_lm(e[1]), e[1])
        if k == 'every-line':
            return 'every line : ' + _arg(r_lm(e[1]), e[1])
        if k == 'is-empty':
            return 'is-empty'
        assert k == 'transformed', e
        return '-transformed-by %s %s' % (_arg(r_tt(e[1]), e[1]), _arg(r_tm(e[2]), e[2]))

    return _r_bool(e, prim)


def r_tt(e):
    k = e[0]
    if k == 'ref':
        return _r_ref(e)
    if k == 'upper':
        return 'char-case -to-upper'
    if k == 'lower':
        return 'char-case -to-lower'
    if k == 'identity':
        return 'identity'
    if k == 'filter':
        return 'filter ' + _arg(r_lm(e[1]), e[1])
    if k == 'grep':
        return 'grep ' + r_token(e[1])
    if k == 'replace':
        return 'replace %s %s' % (r_token(e[1]), r_token(e[2]))
    assert k == 'seq', e
    return ' | '.join(_arg(r_tt(x), x) for x in e[1])


def r_ts(e, parens=False):
    k = e[0]
    if k == 'str':
        s, tt = r_token(e[1]), e[2]
    else:
        assert k == 'ref', e
        assert e[2] == 'a'  # "SYMBOL-REFERENCE [TRANSFORMATION]" - only the special syntax
        s, tt = '@[%s]@' % e[1], e[3]
    if tt is not None:
        s += ' -transformed-by ' + _arg(r_tt(tt), tt)
        if parens:
            s = '( %s )' % s
    return s


def r_pgm(e, probe, rec):
    k = e[0]
    if k == 'probe':
        head = '%% %s %s id=%s' % (probe, rec, e[1])
        args = e[2]
    elif k == 'pref':
        head = '@ %s' % e[1]
        args = e[2]
    else:
        assert k == 'sys', e
        head = '% ' + r_token(e[1])
        args = e[2]
    return head + (' ' + r_list(args) if args else '')


def r_fm(e):
    def prim(e):
        k = e[0]
        if k == 'type':
            return 'type ' + e[1]
        if k == 'name':
            return 'name ' + r_token(e[1])
        if k == 'contents':
            return 'contents ' + _arg(r_tm(e[1]), e[1])
        assert k == 'dir-contents', e
        return 'dir-contents ' + _arg(r_fsm(e[1]), e[1])

    return _r_bool(e, prim)


def r_fsm(e):
    def prim(e):
        k = e[0]
        if k == 'is-empty':
            return 'is-empty'
        if k == 'num-files':
            return 'num-files ' + _arg(r_im(e[1]), e[1])
        if k == 'every-file':
            return 'every file : ' + _arg(r_fm(e[1]), e[1])
        if k == 'any-file':
            return 'any file : ' + _arg(r_fm(e[1]), e[1])
        assert k == 'fmatches', e
        return 'matches ' + _arg(r_fc(e[1]), e[1])

    return _r_bool(e, prim)


def r_fc(e):
    if e[0] == 'ref':
        return _r_ref(e)
    assert e[0] == 'lit', e
    lines = ['{']
    for name, fm in e[1]:
        lines.append('  ' + r_token(name) + ('' if fm is None else ' : ' + r_fm(fm)))
    lines.append('}')
    return '\n'.join(lines)


def r_fs(e):
    if e[0] == 'ref':
        return _r_ref(e)
    assert e[0] == 'lit', e
    lines = ['{']
    for kind, name, src in e[1]:
        s = '  %s %s' % (kind, r_token(name))
        if src is not None:
            s += ' = ' + (r_ts(src) if kind == 'file' else r_fs(src))
        lines.append(s)
    lines.append('}')
    return '\n'.join(lines)


def r_value(typ, v, probe, rec):
    if typ == 'string':
        return r_token(v)
    if typ == 'list':
        return r_list(v)
    if typ == 'path':
        return r_path(v)
    if typ == 'program':
        return r_pgm(v, probe, rec)
    return {'integer-matcher': r_im, 'line-matcher': r_lm, 'text-matcher': r_tm, 'text-transformer': r_tt,
            'text-source': r_ts, 'file-matcher': r_fm, 'files-matcher': r_fsm, 'files-condition': r_fc,
            'files-source': r_fs}[typ](v)


def _file_path(st):
    name = 'f' + st['id']
    if st.get('rel') is None:
        return '-rel-act ' + name
    return '-rel %s %s' % (st['rel'], name)


def r_stmt(st, probe, rec, negate=False):
    """-> list of source lines"""
    k = st['k']
    if k == 'def':
        v = r_value(st['t'], st['v'], probe, rec)
        return [('def %s %s = %s' % (st['t'], st['n'], v)).rstrip(' ')]
    if k == 'args':
        ctrl = 'id=' + st['id']
        if st['ph'] == 'act':
            ctrl += ',rc=%d' % ACT_RC_OF_ARGS
        return [('%% %s %s %s %s' % (probe, rec, ctrl, r_list(st['a']))).rstrip(' ')]
    if k == 'file':
        p = _file_path(st)
        if st.get('quiet'):
            return ['file %s = %s' % (p, r_ts(st['ts']))]
        return ['file %s = %s' % (p, r_ts(st['ts'])),
                'run %% %s %s id=%s,stdin=1 -existing-file %s' % (probe, rec, st['id'], p),
                '  -stdin -contents-of %s' % p]
    if k == 'run':
        s = r_pgm(st['pg'], probe, rec)
        return [s if st['ph'] == 'act' else 'run ' + s]
    if k == 'tm':
        text_tok = '"%s"' % TEXT.replace('\n', '@[NEW_LINE]@')
        return ['file -rel-act g%s = %s' % (st['id'], text_tok),
                'contents -rel-act g%s : %s( %s )' % (st['id'], '! ' if negate else '', r_tm(st['tm']))]
    if k == 'cd':
        return ['dir -rel-act ' + st['to'], 'cd -rel-act ' + st['to']]
    if k == 'dir':
        # tree.py (written into the case directory by the check) dumps the tree; the current directory is act/
        return ['dir -rel-act d%s = %s' % (st['id'], r_fs(st['fs'])),
                'run -python -existing-file -rel-home tree.py d%s %s.tree %s' % (st['id'], rec, st['id'])]
    if k in ('fm', 'fsm'):
        fixture = ['dir -rel-act x%s = {' % st['id'],
                   '  file a.txt = "%s"' % TEXT.replace('\n', '@[NEW_LINE]@'),
                   '  file b', '  dir sub = {', '    file c.txt = "x"', '  }', '  dir e', '}']
        neg = '! ' if negate else ''
        if k == 'fm':
            return fixture + ['exists -rel-act x%s/%s : %s( %s )' % (st['id'], st['on'], neg, r_fm(st['fm']))]
        return fixture + ['dir-contents -rel-act x%s : %s( %s )' % (st['id'], neg, r_fsm(st['fsm']))]
    assert k == 'im', st
    return ['exit-code %s( %s )' % ('! ' if negate else '', r_im(st['im']))]


def render(prog, probe, rec, negations=None, line_map=None):
    """File text of the program.  negations: {statement index: bool} for 'tm'/'im' statements (from `Model.run`).
    line_map: optional list, filled with the statement index of every source line (None for phase headers)."""
    negations = negations or {}
    lines = []
    cur = None
    for i, st in enumerate(prog['stmts']):
        if st['ph'] != cur:
            cur = st['ph']
            lines.append('[%s]' % cur)
            if line_map is not None:
                line_map.append(None)
        for l in r_stmt(st, probe, rec, negations.get(i, negations.get(str(i), False))):
            for l1 in l.split('\n'):
                lines.append(l1)
                if line_map is not None:
                    line_map.append(i)
    text = '\n'.join(lines) + '\n'
    return text


# =============================================================================================================
# references of a value, with the context each one appears in
# =============================================================================================================
# contexts:
#   'str'      a STRING fragment / LIST element / PROGRAM-ARGUMENT / GLOB : "string, path or list"
#   'regex'    a fragment of a REGEX (= RICH-STRING): same rule as 'str'; kept apart only to describe programs
#   'path'     -rel NAME                                  : "A symbol with type path"
#   'creat'    -rel NAME in the PATH of `file`            : path below one of the accepted relativities of `file`
#   'fname0'   first fragment of FILE-NAME, no RELATIVITY : string, or path ("If FILE-NAME begins with a reference
#              to a path symbol, then it is an absolute path")
#   'fname0r'  first fragment of FILE-NAME, RELATIVITY given : string; a path (or a string that begins with one) is
#              an absolute FILE-NAME: "If FILE-NAME is an absolute path, then RELATIVITY must not be given"
#   'fname'    later fragment of a FILE-NAME, or a file name inside files-condition / files-source : string
#   'int'      fragment of an INTEGER ("must evaluate to an integer")
#   'pgmname'  fragment of the STRING of `% STRING`
#   'ts'       SYMBOL-REFERENCE as TEXT-SOURCE : "defined as either text-source or string"
#   <logic type name>                            : "must have been defined as a <type>"
def _tok_refs(tok, ctx):
    if tok[0] == 'h':
        return
    for f in tok[1]:
        if f[0] == 'r':
            yield f[1], ctx, tok


def _fname_refs(tok, first_ctx):
    if tok[0] == 'h':
        return
    for i, f in enumerate(tok[1]):
        if f[0] == 'r':
            yield f[1], (first_ctx if i == 0 else 'fname'), tok


def _bool_refs(e, typ, prim_refs):
    k = e[0]
    if k == 'ref':
        yield e[1], typ, None
    elif k == 'const':
        return
    elif k == 'not':
        yield from _bool_refs(e[1], typ, prim_refs)
    elif k in ('and', 'or'):
        for x in e[1]:
            yield from _bool_refs(x, typ, prim_refs)
    else:
        yield from prim_refs(e)


def refs_im(e):
    return _bool_refs(e, 'integer-matcher', lambda p: _tok_refs(p[2], 'int'))


def refs_lm(e):
    def prim(p):
        if p[0] == 'line-num':
            return refs_im(p[1])
        return refs_tm(p[1])

    return _bool_refs(e, 'line-matcher', prim)


def refs_tm(e):
    def prim(p):
        k = p[0]
        if k == 'matches':
            yield from _tok_refs(p[1], 'regex')
        elif k == 'equals':
            yield from refs_ts(p[1])
        elif k == 'num-lines':
            yield from refs_im(p[1])
        elif k in ('any-line', 'every-line'):
            yield from refs_lm(p[1])
        elif k == 'transformed':
            yield from refs_tt(p[1])
            yield from refs_tm(p[2])

    return _bool_refs(e, 'text-matcher', prim)


def refs_tt(e):
    k = e[0]
    if k == 'ref':
        yield e[1], 'text-transformer', None
    elif k == 'filter':
        yield from refs_lm(e[1])
    elif k == 'grep':
        yield from _tok_refs(e[1], 'regex')
    elif k == 'replace':
        yield from _tok_refs(e[1], 'regex')
        yield from _tok_refs(e[2], 'str')
    elif k == 'seq':
        for x in e[1]:
            yield from refs_tt(x)


def _ts_is_reference(e):
    """TEXT-SOURCE form "SYMBOL-REFERENCE [TRANSFORMATION]": also a 'str' whose token is one naked reference reads
    that way (the two are the same text)"""
    if e[0] == 'ref':
        return e[1]
    tok = e[1]
    if tok[0] == 'n' and len(tok[1]) == 1 and tok[1][0][0] == 'r':
        return tok[1][0][1]
    return None


def refs_ts(e):
    name = _ts_is_reference(e)
    tt = e[2] if e[0] == 'str' else e[3]
    if name is None:
        yield from _tok_refs(e[1], 'str')
    else:
        yield name, 'ts', None
    if tt is not None:
        yield from refs_tt(tt)


def refs_list(lst):
    for tok in lst:
        yield from _tok_refs(tok, 'str')


def refs_pgm(e):
    if e[0] == 'pref':
        yield e[1], 'program', None
    elif e[0] == 'sys':
        yield from _tok_refs(e[1], 'pgmname')
    yield from refs_list(e[2])


def refs_path(p, rel_ctx='path'):
    rel = p['rel']
    if isinstance(rel, (list, tuple)):
        yield rel[1], rel_ctx, None
    yield from _fname_refs(p['name'], 'fname0' if rel is None else 'fname0r')


def refs_fm(e):
    def prim(p):
        k = p[0]
        if k == 'name':
            yield from _tok_refs(p[1], 'str')
        elif k == 'contents':
            yield from refs_tm(p[1])
        elif k == 'dir-contents':
            yield from refs_fsm(p[1])

    return _bool_refs(e, 'file-matcher', prim)


def refs_fsm(e):
    def prim(p):
        k = p[0]
        if k == 'num-files':
            yield from refs_im(p[1])
        elif k in ('every-file', 'any-file'):
            yield from refs_fm(p[1])
        elif k == 'fmatches':
            yield from refs_fc(p[1])

    return _bool_refs(e, 'files-matcher', prim)


def refs_fc(e):
    if e[0] == 'ref':
        yield e[1], 'files-condition', None
        return
    for name, fm in e[1]:
        yield from _tok_refs(name, 'fname')
        if fm is not None:
            yield from refs_fm(fm)


def refs_fs(e):
    if e[0] == 'ref':
        yield e[1], 'files-source', None
        return
    for kind, name, src in e[1]:
        yield from _tok_refs(name, 'fname')
        if src is not None:
            yield from (refs_ts(src) if kind == 'file' else refs_fs(src))


_REFS = {'string': lambda v: _tok_refs(v, 'str'), 'list': refs_list, 'path': refs_path, 'integer-matcher': refs_im,
         'line-matcher': refs_lm, 'text-matcher': refs_tm, 'text-transformer': refs_tt, 'text-source': refs_ts,
         'program': refs_pgm, 'file-matcher': refs_fm, 'files-matcher': refs_fsm, 'files-condition': refs_fc,
         'files-source': refs_fs}


def refs_of_value(typ, v):
    return list(_REFS[typ](v))


def refs_of_stmt(st):
    k = st['k']
    if k == 'def':
        return refs_of_value(st['t'], st['v'])
    if k == 'args':
        return list(refs_list(st['a']))
    if k == 'file':
        ret = []
        if st.get('rel') is not None:
            ret.append((st['rel'], 'creat', None))
        return ret + list(refs_ts(st['ts']))
    if k == 'run':
        return list(refs_pgm(st['pg']))
    if k == 'tm':
        return list(refs_tm(st['tm']))
    if k == 'im':
        return list(refs_im(st['im']))
    if k == 'cd':
        return []
    if k == 'dir':
        return list(refs_fs(st['fs']))
    if k == 'fm':
        return list(refs_fm(st['fm']))
    if k == 'fsm':
        return list(refs_fsm(st['fsm']))
    raise ValueError(k)


# =============================================================================================================
# the interpreter
# =============================================================================================================
class Sym:
    __slots__ = ('name', 'type', 'value', 'refs', 'builtin')

    def __init__(self, name, typ, value, refs, builtin=False):
        self.name, self.type, self.value, self.refs, self.builtin = name, typ, value, refs, builtin


def execution_order(prog):
    """indices of the statements in execution order"""
    stmts = prog['stmts']
    return [i for ph in PHASES for i, st in enumerate(stmts) if st['ph'] == ph]


class Model:
    """roots: {'home','act-home','act','tmp','result','cd','here'} -> absolute directory."""

    def __init__(self, roots=None):
        self.roots = roots or {k: '/R/' + k for k in ('home', 'act-home', 'act', 'tmp', 'result', 'cd', 'here')}
        self.env = {}
        for n, v in BUILTIN_STRINGS.items():
            self.env[n] = Sym(n, 'string', ['s', [['t', v]]], [], True)
        for n, root in BUILTIN_PATHS.items():
            self.env[n] = Sym(n, 'path', {'rel': root, 'name': None}, [], True)

    # ---- static analysis ---------------------------------------------------------------------------------
    def closure_types(self, name, seen=None):
        """types of all symbols the definition of NAME is (transitively) built from"""
        seen = set() if seen is None else seen
        ret = set()
        for n, _ctx, _tok in self.env[name].refs:
            if n in seen:
                continue
            seen.add(n)
            ret.add(self.env[n].type)
            ret |= self.closure_types(n, seen)
        return ret

    def begins_with_path(self, name):
        s = self.env[name]
        if s.type == 'path':
            return True
        if s.type != 'string' or s.builtin:
            return False
        tok = s.value
        if tok[0] == 'h' or not tok[1] or tok[1][0][0] != 'r':
            return False
        return self.begins_with_path(tok[1][0][1])

    def root_of(self, name):
        p = self.env[name].value
        rel = p['rel']
        if isinstance(rel, (list, tuple)):
            return self.root_of(rel[1])
        if rel is None:
            first = p['name'][1][0] if p['name'][0] != 'h' and p['name'][1] else None
            if first is not None and first[0] == 'r' and self.env[first[1]].type == 'path':
                return self.root_of(first[1])
            return 'cd'  # `help setup def`: 'default is "current directory"'
        return rel

    def data_roots(self, name, seen=None):
        """relativity roots of the path symbols that the data symbol NAME is (transitively) built from"""
        seen = set() if seen is None else seen
        if name in seen:
            return set()
        seen.add(name)
        s = self.env[name]
        ret = {self.root_of(name)} if s.type == 'path' else set()
        for n, _ctx, _tok in s.refs:
            ret |= self.data_roots(n, seen)
        return ret

    def regex_path_roots(self, refs, seen=None):
        """roots of the path symbols that end up inside a REGEX evaluated by something with references `refs`"""
        seen = set() if seen is None else seen
        ret = set()
        for n, ctx, _tok in refs:
            if ctx == 'regex':
                ret |= self.data_roots(n)
            if n not in seen:
                seen.add(n)
                ret |= self.regex_path_roots(self.env[n].refs, seen)
        return ret

    def check_ref(self, name, ctx, tok, idx):
        if name not in self.env:
            raise Rejected('undefined', name, ctx, idx)
        s = self.env[name]
        t = s.type
        if ctx in ('str', 'regex'):
            if t not in DATA_TYPES:
                raise Rejected('type', name, ctx, idx)
            return
        if ctx in ALL_TYPES or ctx == 'path':
            if t != ctx:
                raise Rejected('type', name, ctx, idx)
            return
        if ctx == 'creat':
            if t != 'path':
                raise Rejected('type', name, ctx, idx)
            if self.root_of(name) not in CREATABLE_ROOTS:
                raise Rejected('relativity', name, ctx, idx)
            return
        if ctx == 'ts':
            if t not in ('text-source', 'string'):
                raise Rejected('type', name, ctx, idx)
            return
        if t in LOGIC_TYPES:
            raise Rejected('type', name, ctx, idx)
        pure = (t == 'string' and self.closure_types(name) <= {'string'})
        # The manual is silent on list symbols, and on strings built from list / path symbols, inside a FILE-NAME.
        # The program states its rule in the error message it gives: "Every symbol used as a path component of a path
        # must be defined as a string", checked transitively ("Referenced via ...").  That rule is taken as the type
        # demanded by these contexts.
        if ctx == 'fname0':
            if t == 'path' or pure:
                return
            raise Rejected('type' if t == 'list' else 'indirect', name, ctx, idx)
        if ctx == 'fname0r':
            if pure:
                return
            raise Rejected('type' if t in ('path', 'list') else 'indirect', name, ctx, idx)
        if ctx == 'fname':
            if pure:
                return
            raise Rejected('type' if t in ('path', 'list') else 'indirect', name, ctx, idx)
        if ctx == 'pgmname':
            # likewise stated by the program: "A program name must be defined in terms of string."
            if pure:
                return
            raise Rejected('type' if t in ('path', 'list') else 'indirect', name, ctx, idx)
        if ctx == 'int':
            involved = {t} | self.closure_types(name)
            if involved <= {'string'}:
                return  # the value itself is looked at in check_int_token
            if 'path' in involved:
                raise Rejected('type' if t == 'path' else 'indirect', name, ctx, idx)
            # list involved: an error iff the rendering is no integer -- decided when every reference of the
            # statement has been looked at (the rendering needs the other fragments of the token)
            return ('int-list', name, t, tok, idx)
        raise ValueError(ctx)

    def _deferred(self, d):
        _k, name, t, tok, idx = d
        if _INT_LIT.fullmatch(self.tok_str(tok)):
            raise Unspecified('INTEGER built from a list that renders as an integer')
        raise Rejected('type' if t == 'list' else 'indirect', name, 'int', idx)

    def _post_checks(self, refs):
        """value-level conditions under which the manual defines a FILE-NAME / INTEGER"""
        seen = set()
        for _n, ctx, tok in refs:
            if tok is None or id(tok) in seen:
                continue
            seen.add(id(tok))
            if ctx == 'int':
                if not _INT_LIT.fullmatch(self.tok_str(tok)):
                    raise Unspecified('INTEGER that is no integer literal')
            elif ctx in ('fname', 'fname0r'):
                v = self.tok_str(tok)
                if v == '' or v.startswith('/') or '..' in v.split('/') or '' in v.split('/'):
                    raise Unspecified('odd file name %r' % v)
            elif ctx == 'fname0':
                first = tok[1][0]
                if first[0] == 'r' and self.env[first[1]].type == 'path':
                    rest = ''.join(self.frag_str(f) for f in tok[1][1:])
                    if rest != '' and not rest.startswith('/'):
                        raise Unspecified('text glued to a path reference')
                    if rest.endswith('/') or '' in rest.split('/')[1:] or '..' in rest.split('/'):
                        raise Unspecified('odd path suffix %r' % rest)
                else:
                    v = self.tok_str(tok)
                    if v == '' or v.startswith('/') or '..' in v.split('/') or '' in v.split('/'):
                        raise Unspecified('odd file name %r' % v)

    def _static_checks(self, st):
        """Regexes, glob patterns and file names are validated by Exactly whether or not they are ever evaluated
        (an invalid REGEX is a validation error); the reference only speaks about programs in which all of them,
        after substitution, are inside the plain subset it can evaluate."""
        toks = []
        _static_tokens({k: v for k, v in st.items() if k in ('v', 'ts', 'pg', 'tm', 'im', 'fs', 'fm', 'fsm')}, toks)
        for kind, tok in toks:
            if kind == 'regex':
                self._regex(tok)
            elif kind in ('glob', 'fc-name'):
                self._simple_name(tok)
            else:
                self._simple_name(tok, slashes=True)

    # ---- values ------------------------------------------------------------------------------------------
    def frag_str(self, f):
        if f[0] == 't':
            return f[1]
        s = self.env[f[1]]
        if s.type == 'string':
            return self.tok_str(s.value)
        if s.type == 'list':
            # "A non-empty list is rendered by separating the elements with a single space", empty -> empty string
            return ' '.join(self.list_val(s.value))
        if s.type == 'path':
            return self.path_val(s)
        raise ValueError('no string rendering of ' + s.type)

    def tok_str(self, tok):
        if tok[0] == 'h':
            return ''.join(f[1] for f in tok[1])
        v = ''.join(self.frag_str(f) for f in tok[1])
        if tok[0] == 'e' and v != v.strip():
            # whether blanks are removed before or after substitution is not said
            raise Unspecified('":>" text with blanks at its ends after substitution')
        return v

    def list_val(self, lst):
        ret = []
        for tok in lst:
            if tok[0] == 'n' and len(tok[1]) == 1 and tok[1][0][0] == 'r':
                s = self.env[tok[1][0][1]]
                if s.type == 'list':
                    ret.extend(self.list_val(s.value))  # "lists cannot be nested"
                    continue
            ret.append(self.tok_str(tok))
        return ret

    def path_val(self, sym_or_value):
        p = sym_or_value.value if isinstance(sym_or_value, Sym) else sym_or_value
        rel = p['rel']
        if p['name'] is None:  # builtin directory symbol
            return self.roots[rel]
        if isinstance(rel, (list, tuple)):
            return self.path_val(self.env[rel[1]]) + '/' + self.tok_str(p['name'])
        if rel is None:
            tok = p['name']
            first = tok[1][0] if tok[0] != 'h' and tok[1] else None
            if first is not None and first[0] == 'r' and self.env[first[1]].type == 'path':
                return self.tok_str(tok)  # absolute: begins with a path symbol
            return self.roots['cd'] + '/' + self.tok_str(tok)
        return self.roots[rel] + '/' + self.tok_str(p['name'])

    # matchers / transformers ---------------------------------------------------------------------------------
    def _regex(self, tok):
        v = self.tok_str(tok)
        if not _SAFE_REGEX.fullmatch(v):
            raise Unspecified('regex outside the literal subset: %r' % v)
        return v

    def _bool(self, e, x, typ, prim):
        k = e[0]
        if k == 'ref':
            return self._bool(self.env[e[1]].value, x, typ, prim)
        if k == 'const':
            return bool(e[1])
        if k == 'not':
            return not self._bool(e[1], x, typ, prim)
        if k == 'and':
            return all(self._bool(y, x, typ, prim) for y in e[1])
        if k == 'or':
            return any(self._bool(y, x, typ, prim) for y in e[1])
        return prim(e, x)

    def im(self, e, n):
        def prim(p, n):
            v = self.tok_str(p[2])
            if not _INT_LIT.fullmatch(v):
                raise Unspecified('INTEGER')
            k = int(v)
            return {'==': n == k, '!=': n != k, '<': n < k, '<=': n <= k, '>': n > k, '>=': n >= k}[p[1]]

        return self._bool(e, n, 'integer-matcher', prim)

    def lm(self, e, line):
        """line = (number from 1, text without line separator)"""

        def prim(p, line):
            if p[0] == 'line-num':
                return self.im(p[1], line[0])
            return self.tm(p[1], line[1], in_line=True)

        return self._bool(e, line, 'line-matcher', prim)

    def tm(self, e, text, in_line=False):
        def prim(p, text):
            k = p[0]
            if k == 'matches':
                return self._regex(p[1]) in text  # literal regex: search == containment
            if in_line:
                # whether the text of a line includes its separator is not needed for 'matches'/'constant'
                raise Unspecified('text-matcher primitive %s applied to a single line' % k)
            if k == 'equals':
                return text == self.ts(p[1])
            if k == 'is-empty':
                return text == ''
            if k == 'num-lines':
                return self.im(p[1], len(_lines(text)))
            if k == 'any-line':
                return any(self.lm(p[1], (i + 1, l.rstrip('\n'))) for i, l in enumerate(_lines(text)))
            if k == 'every-line':
                return all(self.lm(p[1], (i + 1, l.rstrip('\n'))) for i, l in enumerate(_lines(text)))
            if k == 'transformed':
                return self.tm(p[2], self.tt(p[1], text))
            raise ValueError(k)

        return self._bool(e, text, 'text-matcher', prim)

    def tt(self, e, text):
        k = e[0]
        if k == 'ref':
            return self.tt(self.env[e[1]].value, text)
        if k == 'upper':
            return text.upper()
        if k == 'lower':
            return text.lower()
        if k == 'identity':
            return text
        if k == 'filter':
            return ''.join(l for i, l in enumerate(_lines(text)) if self.lm(e[1], (i + 1, l.rstrip('\n'))))
        if k == 'grep':
            rx = self._regex(e[1])
            return ''.join(l for l in _lines(text) if rx in l)
        if k == 'replace':
            rx = self._regex(e[1])
            repl = self.tok_str(e[2])
            if not _SAFE_REPL.fullmatch(repl):
                raise Unspecified('replacement outside the literal subset')
            return text.replace(rx, repl)
        if k == 'seq':
            for x in e[1]:
                text = self.tt(x, text)
            return text
        raise ValueError(k)

    def ts(self, e):
        name = _ts_is_reference(e)
        tt = e[2] if e[0] == 'str' else e[3]
        if name is None:
            s = self.tok_str(e[1])
        else:
            sym = self.env[name]
            s = self.tok_str(sym.value) if sym.type == 'string' else self.ts(sym.value)
        if tt is not None:
            if any(c not in _TEXT_OK for c in s):
                raise Unspecified('transformed text outside the plain subset')
            s = self.tt(tt, s)
        return s

    # files -------------------------------------------------------------------------------------------------
    def _simple_name(self, tok, slashes=False):
        v = self.tok_str(tok)
        parts = v.split('/') if slashes else [v]
        if not all(_NAME_OK.fullmatch(p) for p in parts) or '..' in parts or '.' in parts:
            raise Unspecified('file name outside the plain subset: %r' % v)
        return v

    def fm(self, e, tree, path):
        """file-matcher on the file PATH of TREE"""

        def prim(p, path):
            k = p[0]
            node = tree[path]
            if k == 'type':
                return node[0] == {'file': 'f', 'dir': 'd'}[p[1]]
            if k == 'name':
                return self._simple_name(p[1]) == path.split('/')[-1]  # a glob pattern without special characters
            if k == 'contents':
                if node[0] != 'f':
                    raise Unspecified('HARD_ERROR: contents of a non-regular file')
                return self.tm(p[1], node[1])
            if k == 'dir-contents':
                if node[0] != 'd':
                    raise Unspecified('HARD_ERROR: dir-contents of a non-directory')
                return self.fsm(p[1], tree, path)
            raise ValueError(k)

        return self._bool(e, path, 'file-matcher', prim)

    def fsm(self, e, tree, dirpath):
        """files-matcher on the direct contents of directory DIRPATH ('' = root) of TREE"""
        pre = dirpath + '/' if dirpath else ''
        children = sorted(p for p in tree if p.startswith(pre) and p != dirpath and '/' not in p[len(pre):])

        def prim(p, _x):
            k = p[0]
            if k == 'is-empty':
                return not children
            if k == 'num-files':
                return self.im(p[1], len(children))
            if k in ('every-file', 'any-file'):
                # every file is looked at (no short cut), so that the result does not depend on an iteration order
                rs = [self.fm(p[1], tree, c) for c in children]
                return all(rs) if k == 'every-file' else any(rs)
            if k == 'fmatches':
                rs = []
                for name, fm in self.fc(p[1]):
                    c = pre + name
                    rs.append(c in tree and (fm is None or self.fm(fm, tree, c)))
                return all(rs)
            raise ValueError(k)

        return self._bool(e, dirpath, 'files-matcher', prim)

    def fc(self, e):
        """-> [(file name, FM|None)]"""
        if e[0] == 'ref':
            return self.fc(self.env[e[1]].value)
        return [(self._simple_name(name), fm) for name, fm in e[1]]

    def fs(self, e, tree, prefix=''):
        """populates TREE (relative path -> node) below PREFIX as the files-source says"""
        if e[0] == 'ref':
            return self.fs(self.env[e[1]].value, tree, prefix)
        for kind, name, src in e[1]:
            parts = self._simple_name(name, slashes=True).split('/')
            for i in range(1, len(parts)):  # "Intermediate directories are created, if required."
                d = prefix + '/'.join(parts[:i])
                if d in tree and tree[d][0] != 'd':
                    raise Unspecified('HARD_ERROR: path through a regular file')
                tree[d] = ('d',)
            path = prefix + '/'.join(parts)
            if path in tree:
                raise Unspecified('HARD_ERROR: "The path must not exist."')
            if kind == 'file':
                tree[path] = ('f', '' if src is None else self.ts(src))
            else:
                tree[path] = ('d',)
                if src is not None:
                    self.fs(src, tree, path + '/')

    def pgm(self, e):
        """-> (probe id, argv)"""
        if e[0] == 'probe':
            return e[1], self.list_val(e[2])
        if e[0] == 'pref':
            pid, args = self.pgm(self.env[e[1]].value)
            # "Arguments ... are appended to the arguments ... of the referenced program."
            return pid, args + self.list_val(e[2])
        raise Unspecified('execution of `% NAME`')

    # ---- whole program -----------------------------------------------------------------------------------
    def run(self, prog):
        """Validates (raises Rejected / Unspecified) and evaluates.
        -> {'trace': [(id, argv, stdin|None)...], 'neg': {index: bool}, 'act_rc': int}"""
        stmts = prog['stmts']
        order = execution_order(prog)
        if sum(1 for st in stmts if st['ph'] == 'act') > 1:
            raise Unspecified('[act] holds a single PROGRAM')
        has_cd = any(st['k'] == 'cd' for st in stmts)
        if has_cd and any(st['k'] == 'dir' for st in stmts):
            raise Unspecified("the tree dump of a 'dir' statement needs act/ as current directory")
        # validation, over the whole case, in execution order, before anything is executed
        for i in order:
            st = stmts[i]
            refs = refs_of_stmt(st)
            deferred = [self.check_ref(name, ctx, tok, i) for name, ctx, tok in refs]
            for d in deferred:
                if d is not None:
                    self._deferred(d)
            self._post_checks(refs)
            self._static_checks(st)
            if st['k'] == 'def':
                if st['n'] in self.env:
                    raise Rejected('duplicate', st['n'], 'def', i)
                if has_cd and any('cd' in self.data_roots(n) for n, _c, _t in refs):
                    raise Unspecified('symbol built from a path relative the current directory, in a program with cd')
                self.env[st['n']] = Sym(st['n'], st['t'], st['v'], refs)
        # execution: every symbol is constant; the only state is the current directory
        trace, neg, cwds, trees, trace_stmt = [], {}, [], [], []
        act_rc = 0
        self.roots = dict(self.roots)

        def emit(rec):
            trace.append(rec)
            cwds.append(self.roots['cd'])
            trace_stmt.append(i)

        for i in order:
            st = stmts[i]
            k = st['k']
            if k == 'def':
                self._check_evaluable(st)
            elif k == 'cd':
                self.roots['cd'] = self.roots['act'] + '/' + st['to']
            elif k == 'args':
                emit((st['id'], self.list_val(st['a']), None))
                if st['ph'] == 'act':
                    act_rc = ACT_RC_OF_ARGS
            elif k == 'file' and st.get('quiet'):
                self.ts(st['ts'])
            elif k == 'file':
                base = self.roots['act'] if st.get('rel') is None else self.path_val(self.env[st['rel']])
                emit((st['id'], [base + '/f' + st['id']], self.ts(st['ts'])))
            elif k == 'run':
                pid, argv = self.pgm(st['pg'])
                emit((pid, argv, None))
            elif k == 'tm':
                neg[i] = not self.tm(st['tm'], TEXT)
            elif k == 'dir':
                tree = {}
                self.fs(st['fs'], tree)
                trees.append((st['id'], sorted([p] + list(n) for p, n in tree.items())))
            elif k == 'fm':
                neg[i] = not self.fm(st['fm'], FIXTURE, st['on'])
            elif k == 'fsm':
                neg[i] = not self.fsm(st['fsm'], FIXTURE, '')
            elif k == 'im':
                neg[i] = None  # filled in below: needs the exit code of [act], which runs before [assert]
        for i in order:
            if stmts[i]['k'] == 'im':
                neg[i] = not self.im(stmts[i]['im'], act_rc)
        regex_roots = {}
        for i in order:
            if stmts[i]['k'] != 'def':
                rr = self.regex_path_roots(refs_of_stmt(stmts[i]))
                if rr:
                    regex_roots[i] = sorted(rr)
        return {'trace': trace, 'neg': neg, 'act_rc': act_rc, 'regex_roots': regex_roots, 'cwds': cwds,
                'trees': trees, 'trace_stmt': trace_stmt}

    def _check_evaluable(self, st):
        """a definition is only generated if its value is inside the subset this model can evaluate"""
        t, v = st['t'], st['v']
        if t == 'string':
            self.tok_str(v)
        elif t == 'list':
            self.list_val(v)
        elif t == 'path':
            self.path_val(v)


_TEXT_OK = set('abcdefghijklmnopqrstuvwxyzABCDEFGHIJKLMNOPQRSTUVWXYZ0123456789_/ :.-\t\n@[]')


def _lines(text):
    """lines incl. their '\\n' ("Every line ends with '\\n', except the last line, which may or may not")"""
    ret = text.split('\n')
    ret = [l + '\n' for l in ret[:-1]] + ([ret[-1]] if ret[-1] != '' else [])
    return ret


def _static_tokens(node, out):
    """collects (kind, token) for every REGEX ('regex'), GLOB of `name` ('glob') and file name inside a literal
    files-condition / files-source ('fname', slashes allowed for files-source) below NODE"""
    if isinstance(node, dict):
        for v in node.values():
            _static_tokens(v, out)
        return
    if not isinstance(node, (list, tuple)) or not node:
        return
    tag = node[0]
    if isinstance(tag, str):
        if tag in ('matches', 'grep', 'replace') and len(node) >= 2 and _is_token(node[1]):
            out.append(('regex', node[1]))
        elif tag == 'name' and len(node) == 2 and _is_token(node[1]):
            out.append(('glob', node[1]))
        elif tag == 'lit' and len(node) == 2:
            for ent in node[1]:
                if len(ent) == 2 and _is_token(ent[0]):
                    out.append(('fc-name', ent[0]))
                elif len(ent) == 3 and ent[0] in ('file', 'dir') and _is_token(ent[1]):
                    out.append(('fs-name', ent[1]))
        elif tag in ('t', 'r'):
            return
    for x in node:
        _static_tokens(x, out)


def _is_token(x):
    return isinstance(x, (list, tuple)) and len(x) == 2 and x[0] in ('n', 's', 'h', 'e', 'd') and \
        isinstance(x[1], (list, tuple))


def analyse(prog, roots=None):
    """-> ('accept', result dict) | ('reject', Rejected) | ('unspec', reason str)"""
    m = Model(roots)
    try:
        return 'accept', m.run(prog)
    except Rejected as ex:
        return 'reject', ex
    except Unspecified as ex:
        return 'unspec', str(ex)
