"""C18 grammar: valid uses of every instruction of every phase and of every form of every type, written from the
reference manual (`exactly help PHASE INSTRUCTION`, `exactly help syntax TYPE`), plus the labelled mutation operators
and the closed vocabularies of hostile tokens.  Pure string manipulation - does not import exactly_lib.

Template notation: one string per use; lines separated by '\n'; tokens separated by blanks (quoted fragments stay one
token); a token written `K:TEXT` (back-ticks) carries the kind K:
   i INTEGER   r REGEX   R replacement STRING of `replace`   g GLOB-PATTERN   p file name / PATH suffix
   s STRING    P program name   D symbol name being defined
   y.TYPE symbol reference (bare name or @[..]@) at a position where a symbol of TYPE is expected
Unmarked tokens get their kind from their shape (name / option / operator / heredoc / word).
`%N` in a template is replaced by a per-instance number (unique names for created files and symbols)."""
import re

# ---------------------------------------------------------------------------------------------
# Environment of every case: files of the home directory (= directory of the case file)
# ---------------------------------------------------------------------------------------------
FILES = {
    'data.txt': 'alpha\nbeta\ngamma\n',
    'ddir/f1.txt': 'x\n',
    'ddir/sub/f2.txt': 'y\n',
    'prog': ('exe', '#!/bin/sh\ncat\nexit 0\n'),  # copies stdin to stdout, exit 0
    'src.sh': 'exit 0\n',
    'inc.xly': '# an included file with a comment line only\n\n',
    'home2/prog2': ('exe', '#!/bin/sh\nexit 0\n'),
    'home2/data2.txt': 'delta\n',
}

# symbols of every type, defined first in [setup] (only those a case mentions are emitted)
SYMBOLS = [
    ('string', 'S_STR', "'abc'"),
    ('list', 'S_LIST', 'a b'),
    ('path', 'S_PATH', '-rel-home data.txt'),
    ('integer-matcher', 'S_IM', '>= 0'),
    ('line-matcher', 'S_LM', 'constant true'),
    ('file-matcher', 'S_FM', 'constant true'),
    ('files-matcher', 'S_FSM', 'constant true'),
    ('files-condition', 'S_FC', '{ g1.txt }'),
    ('files-source', 'S_FS', '{ file s.txt }'),
    ('text-source', 'S_TS', "'text'"),
    ('text-matcher', 'S_TM', 'constant true'),
    ('text-transformer', 'S_TT', 'identity'),
    ('program', 'S_PGM', '% true'),
]
SYMBOL_TYPE = {name: typ for typ, name, _ in SYMBOLS}
SYMBOL_OF_TYPE = {typ: name for typ, name, _ in SYMBOLS}
DATA_TYPES = ('string', 'list', 'path')
# which symbol types are acceptable where a symbol of the given (expected) type is referenced
ACCEPTED = {
    'string': set(DATA_TYPES), 'path': {'path'},  # 'string' = any position that takes a STRING / list element
    'text-source': {'text-source', 'string'},
}

FIXTURE = ['file -rel-act f.txt = <<EOF', 'alpha', 'beta', 'EOF',
           'dir -rel-act d = {', '  file g1.txt = \'x\'', '  dir sub = { file g2.txt }', '}',
           'file -rel-act m.txt', 'dir -rel-act md']

ACT_DEFAULT = ['% echo hello']

MULTI_PHASES = ('setup', 'before-assert', 'assert', 'cleanup')
PHASE_ORDER = ('conf', 'setup', 'act', 'before-assert', 'assert', 'cleanup')


class Tpl:
    __slots__ = ('instr', 'text', 'phases', 'act', 'conf', 'group', 'uses_value', 'minimal', 'key')

    def __init__(self, instr, text, phases, act=None, conf=None, group='instr', uses_value=True, minimal=False):
        self.instr = instr
        self.text = text
        self.phases = phases
        self.act = act  # None: no [act] phase needed; list of lines otherwise
        self.conf = conf  # extra [conf] lines this use needs
        self.group = group  # 'instr' | type name the template is there to cover
        self.uses_value = uses_value  # the instruction evaluates its arguments when it runs (not so for def)
        self.minimal = minimal
        self.key = None


TEMPLATES = []


def _t(instr, text, phases=MULTI_PHASES, **kw):
    if isinstance(phases, str):
        phases = (phases,)
    tp = Tpl(instr, text, tuple(phases), **kw)
    tp.key = '%s#%d' % (instr, sum(1 for x in TEMPLATES if x.instr == instr))
    TEMPLATES.append(tp)
    return tp


A = ACT_DEFAULT

# ----- [conf] ---------------------------------------------------------------------------------
_t('act-home', 'act-home = `p:home2`', 'conf', minimal=True)
_t('home', 'home = `p:home2`', 'conf', minimal=True)
_t('actor', 'actor = command', 'conf', act=A, minimal=True)
_t('actor', 'actor = file % `P:sh`', 'conf', act=['src.sh'])
_t('actor', 'actor = source % `P:sh`', 'conf', act=['exit 0'])
_t('actor', 'actor = null', 'conf', act=['anything at all'])
_t('actor', 'actor = source -python', 'conf', act=['import sys', 'sys.exit(0)'])
_t('actor', 'actor = file `p:prog` `s:arg`', 'conf', act=['src.sh'])
_t('status', 'status = PASS', 'conf', minimal=True)
_t('including', 'including `p:inc.xly`', ('conf', 'setup', 'before-assert', 'assert', 'cleanup'), minimal=True)

# ----- [act] (default actor: command line = a PROGRAM) ------------------------------------------
_t('act', '% `P:echo` `s:hello`', 'act', minimal=True)
_t('act', '`p:prog` `s:a` `s:b`', 'act')
_t('act', '-rel-home `p:prog` `s:a`', 'act')
_t('act', '-python -c `s:pass`', 'act')
_t('act', '$ echo hello', 'act')
_t('act', '@ `y.program:S_PGM` `s:arg`', 'act')
_t('act', '( % `P:echo` `s:hello` )', 'act')
_t('act', "% `P:cat`\n-stdin `s:'abc'`\n-transformed-by char-case -to-upper", 'act')
_t('act', '% `P:echo` -existing-file `p:data.txt` -existing-dir -rel-home `p:ddir` -existing-path `p:prog`', 'act')
_t('act', "% `P:echo` `s:'a b'` `s:\"c @[S_STR]@\"` `y.string:@[S_LIST]@` :> the rest of the line", 'act')

# ----- instructions of several phases ------------------------------------------------------------
_t('$', '$ echo hello', minimal=True)
_t('$', '$ echo hello > out%N.txt')
_t('%', '% `P:true`', minimal=True)
_t('%', "% `P:echo` `s:a` `s:'b c'` `s:\"d\"` :> rest of the line")
_t('%', '% `P:echo` `y.string:@[S_LIST]@` `y.string:@[S_STR]@` `y.string:@[S_PATH]@` -existing-file `p:data.txt`')
_t('cd', 'cd -rel-act `p:md`', minimal=True)
_t('cd', 'cd `p:@[EXACTLY_ACT]@/md`')
_t('copy', 'copy `p:data.txt`', minimal=True)
_t('copy', 'copy `p:ddir` `p:dst%N`')
_t('copy', 'copy -rel-home `p:data.txt` -rel-tmp `p:c%N.txt`')
_t('copy', 'copy -rel-act `p:f.txt` -rel-act `p:sub%N/f-copy.txt`')
_t('dir', 'dir `p:nd%N`', minimal=True)
_t('dir', 'dir `p:nd%N` = { file `p:a.txt` }')
_t('dir', 'dir -rel-act `p:md` += { file `p:more%N.txt` }')
_t('dir', 'dir -rel-tmp `p:nd%N` = dir-contents-of -rel-home `p:ddir`')
_t('env', "env `s:VF_A` = `s:'value'`", minimal=True)
_t('env', 'env -of act `s:VF_A` = `s:v`')
_t('env', 'env -of !act `s:VF_A` = `s:"${VF_B}x"`')
_t('env', 'env unset `s:VF_A`')
_t('env', 'env -of !act unset `s:VF_A`')
_t('env', 'env `s:VF_A` = -contents-of `p:data.txt`')
_t('file', 'file `p:nf%N.txt`', minimal=True)
_t('file', "file `p:nf%N.txt` = `s:'abc'`")
_t('file', "file -rel-act `p:m.txt` += `s:'more'`")
_t('file', 'file -rel-tmp `p:nf%N.txt` = -contents-of `p:data.txt`')
_t('file', 'file `p:nf%N.txt` = -stdout-from % `P:echo` `s:hi`')
_t('file', 'file `p:nf%N.txt` = <<EOF\nline one\nline @[EXACTLY_ACT]@ two\nEOF')
_t('file', "file `p:nf%N.txt` = `s:'aXb'` -transformed-by replace `r:X` `R:Y`")
_t('run', 'run % `P:true`', minimal=True)
_t('run', 'run -ignore-exit-code % `P:true`')
_t('run', 'run `p:prog` `s:arg`')
_t('run', 'run -python -c `s:pass`')
_t('run', 'run $ echo hello')
_t('run', "run % `P:cat`\n-stdin `s:'abc'`")
_t('run', 'run ( % `P:true` )')
_t('timeout', 'timeout = `i:60`', minimal=True)
_t('timeout', 'timeout = none')
_t('timeout', "timeout = `i:'20 + 40'`")
_t('stdin', "stdin = `s:'abc'`", 'setup', minimal=True)
_t('stdin', 'stdin = -contents-of `p:data.txt`', 'setup')
_t('stdin', 'stdin = <<EOF\nsome text\nEOF', 'setup')

# def: one minimal use per type (def only parses and checks symbol references; values are not evaluated)
_DEF_VALUES = [
    ('string', "`s:'abc'`"), ('list', '`s:a` `s:b`'), ('path', '-rel-act `p:f.txt`'),
    ('integer-matcher', '== `i:0`'), ('line-matcher', 'contents matches `r:a`'), ('file-matcher', 'type file'),
    ('files-matcher', 'is-empty'), ('files-condition', '{ `p:f.txt` }'), ('files-source', '{ file `p:a.txt` }'),
    ('text-source', "`s:'text'`"), ('text-matcher', 'is-empty'), ('text-transformer', 'identity'),
    ('program', '% `P:true`'),
]
for _typ, _val in _DEF_VALUES:
    _t('def', 'def %s `D:T%%N` = %s' % (_typ, _val), uses_value=False, minimal=(_typ == 'string'), group='instr')

# ----- [assert] only ------------------------------------------------------------------------------
AS = 'assert'
_t('contents', 'contents -rel-act `p:f.txt` : ! is-empty', AS, minimal=True)
_t('contents', 'contents -rel-home `p:data.txt` : num-lines == `i:3`', AS)
_t('dir-contents', 'dir-contents -rel-act `p:d` : ! is-empty', AS, minimal=True)
_t('dir-contents', 'dir-contents -rel-act `p:d` : -recursive -min-depth `i:0` -max-depth `i:2` num-files == `i:3`', AS)
_t('dir-contents', 'dir-contents -rel-act `p:d` : -recursive num-files == `i:3`', AS)
_t('exists', 'exists -rel-act `p:f.txt`', AS, minimal=True)
_t('exists', 'exists ! `p:no-such-file`', AS)
_t('exists', 'exists -rel-act `p:f.txt` : type file', AS)
_t('exit-code', 'exit-code == `i:0`', AS, act=A, minimal=True)
_t('exit-code', 'exit-code -from % `P:true`\n == `i:0`', AS)
_t('stdout', 'stdout equals <<EOF\nhello\nEOF', AS, act=A, minimal=True)
_t('stdout', 'stdout -from % `P:echo` `s:hi`\n ! is-empty', AS)
_t('stderr', 'stderr is-empty', AS, act=A, minimal=True)
_t('stderr', 'stderr -from % `P:true`\n is-empty', AS)


# ----- forms of the types, each inside an instruction that evaluates them -----------------------------
def _forms(group, instr, prefix, forms, act=None, suffix=''):
    for f in forms:
        _t(instr, prefix + f + suffix, AS, act=act, group=group)


# TEXT-MATCHER, applied to "hello\n"
_forms('text-matcher', 'stdout', 'stdout ', [
    '! is-empty',
    "! equals `s:'x'`",
    "! == `s:'x'`",
    'matches `r:hel+o`',
    "matches -full `r:'hello\\s'`",
    '~ -full -ignore-case `r:HEL+O\\s`',
    '~ -ignore-case `r:"H.L"`',
    'every line : contents matches `r:l`',
    'any line : line-num == `i:1`',
    'num-lines == `i:1`',
    'run % `P:true`',
    'run ( % `P:cat` )',
    '-transformed-by char-case -to-upper equals <<EOF\nHELLO\nEOF',
    'constant true',
    '! constant false',
    '! ! constant true',
    'constant true && ! is-empty',
    'is-empty || constant true',
    'is-empty && constant false || constant true',
    '`y.text-matcher:S_TM`',
    '`y.text-matcher:@[S_TM]@`',
    '( constant true )',
    '! ( is-empty || constant false )',
    "equals -contents-of -rel-act `p:f.txt` || constant true",
    'equals `y.text-source:@[S_TS]@` || constant true',
], act=A)

# LINE-MATCHER
_forms('line-matcher', 'stdout', 'stdout every line : ', [
    'contents ! is-empty',
    'line-num >= `i:1`',
    'constant true',
    '! constant false',
    '( constant false || line-num == `i:1` )',
    '( constant true && contents matches `r:h` )',
    '`y.line-matcher:S_LM`',
    '`y.line-matcher:@[S_LM]@`',
    '( constant true )',
], act=A)

# INTEGER-MATCHER, applied to 0
_forms('integer-matcher', 'exit-code', 'exit-code ', [
    '!= `i:1`', '< `i:1`', '<= `i:0`', '> `i:-1`', '>= `i:0`',
    'constant true', '! constant false', '! == `i:1`',
    '== `i:1` || == `i:0`', '>= `i:0` && <= `i:0`',
    '`y.integer-matcher:S_IM`', '`y.integer-matcher:@[S_IM]@`', '( == `i:0` )',
    '== `i:(1+2)*0`', "== `i:'( 7 - 7 ) // 2'`", '== `i:"5 % 5"`', '== `i:@[S_ZERO]@`', '== `i:-0`',
], act=A)

# FILE-MATCHER
_forms('file-matcher', 'exists', 'exists -rel-act `p:f.txt` : ', [
    'type file', '! type dir', '! type symlink',
    'contents ! is-empty',
    'run % `P:true`',
    'run -path-arg-last % `P:true`',
    'run -path-arg-marker `s:MARK` % `P:echo` `s:MARK`',
    "path `g:'*'`", 'name `g:f.txt`', "name `g:'?.t[x-z]t'`", "name ~ `r:'f\\.'`",
    'stem `g:f`', 'suffixes `g:.txt`', "suffix ~ -ignore-case `r:TXT`", "path ~ `r:'act/f'`",
    'constant true', '! constant false', 'type file && ! type dir', 'type dir || type file',
    '`y.file-matcher:S_FM`', '`y.file-matcher:@[S_FM]@`', '( type file )',
])
_forms('file-matcher', 'exists', 'exists -rel-act `p:d` : ', [
    'type dir',
    'dir-contents ! is-empty',
    'dir-contents -recursive -min-depth `i:1` -max-depth `i:1` num-files == `i:1`',
])

# FILES-MATCHER (d contains g1.txt and sub/g2.txt) and FILES-CONDITION
_forms('files-matcher', 'dir-contents', 'dir-contents -rel-act `p:d` : ', [
    '! is-empty',
    'matches { `p:g1.txt` }',
    'matches -full {\n `p:g1.txt` : type file\n `p:sub` : type dir\n}',
    '-recursive matches { `p:sub/g2.txt` : type file && contents is-empty\n `p:sub` }',
    'matches `y.files-condition:S_FC`',
    'matches `y.files-condition:@[S_FC]@`',
    'matches ( { `p:g1.txt` } )',
    'every file : ! type symlink',
    'any file : type dir',
    'num-files == `i:2`',
    "-selection type file num-files == `i:1`",
    "-selection name `g:'*.txt'` num-files == `i:1`",
    '-recursive -with-pruned name `g:sub` num-files == `i:2`',
    'constant true', '! constant false', '! is-empty && num-files >= `i:1`', 'is-empty || constant true',
    '`y.files-matcher:S_FSM`', '`y.files-matcher:@[S_FSM]@`', '( constant true )',
])

# TEXT-TRANSFORMER, applied to "hello\n"
_forms('text-transformer', 'stdout', 'stdout -transformed-by ', [
    'filter constant true',
    'filter contents matches `r:h`',
    'filter line-num == `i:1`',
    'filter -line-nums `i:1`\n',
    # one range of every shape (a single range is read by other code than several ranges)
    'filter -line-nums `n:1:`\n', 'filter -line-nums `n:1:2`\n', 'filter -line-nums `n::2`\n',
    'filter -line-nums `n:-1`\n', 'filter -line-nums `n:-2:`\n', 'filter -line-nums `n::-1`\n',
    'filter -line-nums `n:-2:-1`\n', 'filter -line-nums `n:1:-1`\n', 'filter -line-nums `n:-2:2`\n',
    'filter -line-nums `n:1:` `n:-1`\n',
    'filter -line-nums `i:1:2` `i:-1` `i::3` `i:2:`\n',
    "filter -line-nums `i:'1 + 0'`\n",
    'grep `r:h`',
    'grep -full `r:hel+o`',
    'replace `r:x` `R:y`',
    "replace `r:'(h)(e)'` `R:'\\2\\1'`",
    "replace `r:'(?P<n>h)'` `R:'\\g<n>\\g<1>'`",
    'replace -at line-num == `i:1` -preserve-new-lines `r:x` `R:y`',
    'replace -preserve-new-lines -ignore-case `r:X` `R:"y"`',
    'char-case -to-lower', 'char-case -to-upper',
    'strip', 'strip -trailing-space', 'strip -trailing-new-lines',
    '( run % `P:cat` )', '( run -ignore-exit-code % `P:cat` )', '( run `p:prog` )',
    'replace-test-case-dirs', 'identity',
    '( identity | char-case -to-upper | char-case -to-lower )',
    '`y.text-transformer:S_TT`', '`y.text-transformer:@[S_TT]@`', '( identity )', '( identity | strip )',
], act=A, suffix=' ! is-empty')

# TEXT-SOURCE / RICH-STRING (as the contents of a new file)
_forms('text-source', 'file', 'file `p:ts%N.txt` = ', [
    '`s:naked`', '`s:"soft @[S_STR]@"`', "`s:'hard'`", '`s:a"b"\'c\'@[S_STR]@`',
    ':> text until end of line @[S_STR]@',
    '`y.text-source:@[S_TS]@`', '`y.text-source:@[S_STR]@`', '`y.string:"@[S_LIST]@"`', '`y.string:"@[S_PATH]@"`',
    '-contents-of -rel-home `p:data.txt`', '-contents-of -rel-act `p:f.txt`',
    '-stdout-from % `P:echo` `s:hi`', '-stderr-from -ignore-exit-code % `P:true`',
    '-stdout-from $ echo hello',
    '-stdout-from @ `y.program:S_PGM`',
    "( `s:'in parens'` )",
    '-contents-of `p:data.txt` -transformed-by char-case -to-upper',
    "`s:'abc'` -transformed-by ( strip | identity )",
    '-stdout-from % `P:echo` `s:hi`\n-transformed-by strip',
    "-stdout-from % `P:cat`\n-stdin `s:'in'`\n-transformed-by identity",
    '-stdout-from ( % `P:echo` `s:hi` )',
    '<<-\nline\n-',
])

# FILES-SOURCE
_forms('files-source', 'dir', 'dir `p:fs%N` = ', [
    '{ }',
    "{\n file `p:a.txt`\n file `p:b.txt` = `s:'text'`\n file `p:b.txt` += `s:'more'`\n dir `p:e`\n"
    " dir `p:x/y` = { file `p:z` }\n dir `p:e` += { file `p:w` = <<EOF\ncontents\nEOF\n }\n}",
    'dir-contents-of `p:ddir`',
    'dir-contents-of -rel-act `p:d`',
    '`y.files-source:S_FS`', '`y.files-source:@[S_FS]@`', '( { file `p:a.txt` } )',
    '{ dir `p:sub` = dir-contents-of -rel-home `p:ddir` }',
])

# PATH (every relativity of `def path`), LIST, STRING
_forms('path', 'def', 'def path `D:P%N` = ', [
    '-rel-home `p:data.txt`', '-rel-act-home `p:prog`', '-rel-act `p:f.txt`', '-rel-tmp `p:t`', '-rel-result `p:stdout`',
    '-rel-cd `p:x`', '-rel `y.path:S_PATH` `p:x`', '-rel-here `p:data.txt`', '`p:plain/file`',
    '`p:@[S_PATH]@/x`', '`p:@[EXACTLY_HOME]@/data.txt`', "`p:'quoted name'`", '`p:"@[S_STR]@.txt"`',
])
_forms('list', 'def', 'def list `D:L%N` = ', [
    '', '`s:a`', "`s:a` `s:'b c'` `s:\"d\"` `y.string:@[S_LIST]@` `y.string:@[S_STR]@` `y.string:@[S_PATH]@`",
    '`s:a` \\\n  `s:b`',
])
_forms('program', 'run', 'run ', [
    '@ `y.program:S_PGM`', '@ `y.program:S_PGM` `s:extra` `s:args`',
    '% `P:echo` -existing-file -rel-act `p:f.txt` -existing-dir -rel-act `p:d` -existing-path -rel-home `p:prog`',
    '-rel-home `p:prog`', '-rel-act-home `p:prog`',
    "% `P:echo` `s:a` \\\n  `s:b`",
    "% `P:echo` <<EOF\nhere doc argument\nEOF",
    "@ `y.program:S_PGM`\n-stdin -contents-of `p:data.txt`",
])

# symbols that individual templates need beyond SYMBOLS
EXTRA_SYMBOLS = [('string', 'S_ZERO', "'0'")]

# the multi-phase forms run in [assert] by default (cheap); nothing else to do


# ---------------------------------------------------------------------------------------------
# Tokens
# ---------------------------------------------------------------------------------------------
RESERVED = ('(', ')', '[', ']', '{', '}', '=', '|', ':', '!', '&&', '||')
_TOK_RE = re.compile(r'`[^`]*`|(?:[^\s\'"`]+|\'[^\'\n]*\'|"[^"\n]*")+')
_KINDS = {'i': 'int', 'n': 'range', 'r': 'regex', 'R': 'repl', 'g': 'glob', 'p': 'path', 's': 'str', 'P': 'prog', 'D': 'symdef'}


class Tok:
    __slots__ = ('text', 'kind', 'stype', 'start', 'end', 'line')

    def __repr__(self):
        return 'Tok(%r,%s)' % (self.text, self.kind)


def render(template_text: str, n: int):
    """-> (plain text of the instruction (no trailing newline), [Tok])"""
    src = template_text.replace('%N', str(n))
    out = []
    toks = []
    pos = 0
    in_heredoc = None
    for li, line in enumerate(src.split('\n')):
        if li:
            out.append('\n')
            pos += 1
        if in_heredoc is not None:
            # raw line of a here document: one token
            t = Tok()
            t.text, t.kind, t.stype, t.line = line, ('hd_end' if line == in_heredoc else 'hd_line'), None, li
            t.start, t.end = pos, pos + len(line)
            toks.append(t)
            out.append(line)
            pos += len(line)
            if line == in_heredoc:
                in_heredoc = None
            continue
        i = 0
        first = True
        for m in _TOK_RE.finditer(line):
            gap = line[i:m.start()]
            out.append(gap)
            pos += len(gap)
            raw = m.group(0)
            t = Tok()
            t.stype = None
            if raw.startswith('`'):
                k, text = raw[1:-1].split(':', 1)
                if k.startswith('y.'):
                    t.kind, t.stype = 'sym', k[2:]
                else:
                    t.kind = _KINDS[k]
                t.text = text
            else:
                t.text = raw
                t.kind = _shape_kind(raw, first and li == 0)
            t.line = li
            t.start, t.end = pos, pos + len(t.text)
            toks.append(t)
            out.append(t.text)
            pos += len(t.text)
            i = m.end()
            first = False
            if t.kind == 'hd_start':
                in_heredoc = t.text[2:]
        out.append(line[i:])
        pos += len(line[i:])
    return ''.join(out), toks


def _shape_kind(raw, is_first):
    if is_first:
        return 'name'
    if raw in RESERVED or raw in ('+=', '\\'):
        return 'op'
    if raw.startswith('<<'):
        return 'hd_start'
    if raw.startswith('-') and len(raw) > 1 and not raw[1].isdigit():
        return 'opt'
    if raw in ('%', '$', '@', ':>', '~', '==', '!=', '<', '<=', '>', '>='):
        return 'punct'
    return 'word'


# ---------------------------------------------------------------------------------------------
# Closed vocabularies
# ---------------------------------------------------------------------------------------------
# generic replacement tokens (nothing here names a program, an absolute path, or '.'/'..')
REPLACEMENTS = ['(', ')', '=', ':', '!', '&&', '||', '|', '{', '}', '[', ']', '-no-such-option', "''", '""',
                'no-such-word', '@[UNDEFINED_SYMBOL]@', '<<EOF', ':>', '\\', '#', '-rel-act', '-rel-result',
                '-rel-here', '-rel', '-stdin', '-transformed-by', '-ignore-case', '-full', '%', '$', '@', '-python',
                '-existing-file', '-contents-of', '-stdout-from', 'unset', 'none', '0', '-1', '+=', '~', '==',
                '@[', ']@', '@[]@', '@[S_STR', "é", '\u2028', '[assert]', '-recursive', 'constant', 'run', 'file', 'dir',
                '-line-nums', '-at', '-of', '-path-arg-marker', '-min-depth', 'a\x00b', '\x0c', '\x85', 'a\rb', '\ufeff',
                '\x1b[0m', '\t']

# integer expressions.  BAD: do not evaluate to a Python int (harness re-checks this with a restricted eval)
BAD_INTS = ['1//0', '1%0', '9//(1-1)', '1/1', '1.5', '1e3', 'a', '1+', '(1', '1)', '+', "''", "'1 2'", '0x', '1_', '08',
            '1++', "'1,2'", '[1]', "'( 1 + 2'", '1//', '*2', "'\"a\"*2'", "'()'", 'None', "'1 if a else 2'", '0b2',
            '1.', "'1 // 0'", "' '", '"0 % 0"', '１２', '١',
            # text that is special to str.format / the % operator (it ends up inside error messages)
            '{}[0]', '1}', '{0}+1', '{2', '{', '}', "'{x}'", '{0}', "'%s'", "'%(x)s'", '1%', "'{0!r:>{1}}'"]
EXTREME_INTS = ['0', '-1', '-0', '+1', '99999999999999999999', '-99999999999999999999', '9' * 400, '9' * 5000,
                '0' * 50, '-' * 50 + '1', '(' * 30 + '1' + ')' * 30, '9*' * 60 + '9', '0x7fffffffffffffff+1', '1_000',
                "' 7 '", '2147483648', '-2147483649', '~0', 'True', '1-2*3//4%5', '(' * 120 + '1' + ')' * 120,
                # bounded powers: a huge value from a short text (harmless to evaluate: a 5000-digit integer)
                '10**5000', '-(10**4999)*10', '(2**8)**2000', '¹', '²', '٣' * 3, '9' * 4300, '9' * 4301]
# line number ranges of `filter -line-nums`.  BAD: not of the form [INT]:[INT] / INT with integer expressions
BAD_RANGES = ['a:b', '1:2:3', '1//0:', ':1//0', '1.5:', 'x', '1:b', "'1 :'x", '::', '1::2']
_HUGE = ['2**63', '2**63+1', '2**64', '10**30', '10**5000', '9' * 400]
EXTREME_RANGES = ([h + ':' for h in _HUGE] + [':' + h for h in _HUGE] + ['-' + h + ':' for h in _HUGE[:4]]
                  + [':-' + h for h in _HUGE[:4]] + ['2:' + h for h in _HUGE[:4]] + ['-' + h + ':-1' for h in _HUGE[:3]]
                  + ['-' + h for h in _HUGE[:4]] + ['-3:' + h for h in _HUGE[:3]] + ['1:-' + h for h in _HUGE[:3]]
                  + ['0', '0:', ':0', '0:0', '-0:', '2:1', '-1:-2', "'1 : 2'", "' 1: '", '1:1', '-1:1', '1:-1',
                     '(1):(2)', '1+1:2*2'])
# regular expressions.  BAD: re.compile raises (harness re-checks)
BAD_REGEXES = ["'a('", "'a)'", "'[a'", "'*a'", "'a**'", "'a{2,1}'", "'(?P<n>a)(?P<n>b)'", "'(?<=a+)b'", "'\\1'",
               "'(?P=nosuch)'", "'(?z)'", "'\\'", "'[z-a]'", "'(?L)a'", "'a{99999999999999999999}'", "'\\N{nosuchname}'",
               "'(?#'", "'\\x1'", "'(?i'", "'+'", "'?'", "'(?P<1>a)'", "'(?P<n'", "'\\u12'", "'(?au)a'", "'a{1,2}{3}'",
               "'(?<!a*)b'", "'(?(1)a|b|c)'", "'(?(9)a)'", "'(?-i'", "'\\g<1>\\'",
               "'({0}'", "'[{x}'", "'*{}'", "'(%s'", "'(?P<{0}>a'", "'%(x'",
               # ill-formed and holding a reference to a path symbol: can only be compiled once the sandbox exists
               '"a(@[EXACTLY_ACT]@"', '"*@[EXACTLY_HOME]@"', '"@[EXACTLY_TMP]@/[a-z"', '@[EXACTLY_RESULT]@/(x',
               '"(?P<n>@[EXACTLY_ACT_HOME]@"']
EXTREME_REGEXES = ["''", "'(a*)*b'", "'a{0,65535}'", "'" + '(' * 40 + 'a' + ')' * 40 + "'", "'.{1000}'",
                   "'" + '(' * 3000 + ')' * 3000 + "'", "'" + 'a?' * 200 + "'", "'[^\\W\\d_]'", "'(?s).*'", "'\\Z'",
                   "'" + 'x' * 10000 + "'", "'(?x) a b # comment'", "'\\b\\B'", "'[\\]]'", "'$^'", "'|'", "'(?:)'",
                   "'\u00e9\u2028+'", "'" + '|'.join('w%d' % i for i in range(500)) + "'", "'(" * 101 + ")'" * 0]
EXTREME_REGEXES = [x for x in EXTREME_REGEXES if x.count("'") == 2]
# replacement strings.  BAD: re.sub(regex, repl, 'hello') raises for every regex used in the replace templates
BAD_REPLS = ["'\\6'", "'\\g<6>'", "'\\g<nosuch>'", "'\\g<'", "'\\g<>'", "'\\g'", "'x\\'", "'\\q'", "'\\g<1x>'",
             "'\\99'", "'\\g<-1>'", "'\\g< 1>'", "'a\\g<n'", "'\\c'", "'\\8'", "'\\g<00000000000000000007>'",
             "'\\g<{0}>'", "'{}\\9'", "'%s\\g<'"]
EXTREME_REPLS = ["''", "'\\\\'", "'\\n\\r\\t'", "'\\&'", "'\\0'", "'\\g<0>\\g<0>'", "'" + 'y' * 5000 + "'", "'\\000'",
                 "'\\x41'", "'$1'", "'&'", "'\u00e9'"]
# glob patterns: none is an error by the manual; all are "extreme or ill-formed"
GLOBS = ["'['", "'[!'", "'[]'", "'[z-a]'", "'**'", "'***'", "'[[]'", "'" + '*' * 40 + "x'", "'a/../b'", "'/'", "''",
         "'\\'", "'{a,b}'", "'" + 'a' * 2000 + "'", "'[!]'", "'[]]'", "'**/*.txt'", "'*/'", "'[a-'", "'?' ", "'[\\]'",
         "'" + '[a-z]' * 100 + "'", "'\u00e9*'", "'**x'", "'x**'", "'//'", "'[^a]'", "'*' '*'",
         # patterns that are empty after pathlib's normalisation
         "'.'", "'./'", "'./.'", "'.//'", "'a/.'", "'./a'", "'..'", "' '", "'../*'"]
# file names / strings
ODD_STRINGS = ["''", '""', "'a b'", "'a/b/c/d'", "'" + 'n' * 300 + "'", "'\u00e9\u00f6'", 'a#b', "'#'", "a'b'\"c\"",
               '@[EXACTLY_TMP]@', '@[EXACTLY_HOME]@/data.txt', '@[ S_STR ]@', '@[S_STR]@@[S_STR]@', "'@[S_STR]@'",
               '"@[UNDEFINED_SYMBOL]@"', '-', '--', "'-rel-act'", 'a\\b', "'${HOME}'", "'*'", "'a:b'", 'a=b', '=x',
               "sub/", "'sub/../x'", "x/", "':'", "'!'", "'{}'", "'{0}'", "'%s'", "'{x'", "'.'", "'./'", "'./.'", "'a/.'", "' '", "'~'", "'~/x'"]
# (not '..': as a directory to copy / list it contains the sandbox, i.e. its own destination - see ASSUMPTIONS)


# ---------------------------------------------------------------------------------------------
# Mutations.  Each yields (label, detail, new instruction text)
# ---------------------------------------------------------------------------------------------
def _sub(text, start, end, new):
    return text[:start] + new + text[end:]


def is_quoted(s):
    return len(s) >= 2 and s[0] in '\'"' and s[-1] == s[0]


def generic_token_mutations(text, toks, k, salt, n_repl):
    """Mutations that apply to every token. salt rotates the replacement vocabulary deterministically."""
    t = toks[k]
    yield 'delete', '', _sub(text, t.start, t.end, '')
    yield 'duplicate', '', _sub(text, t.start, t.end, t.text + ' ' + t.text)
    if k + 1 < len(toks):
        u = toks[k + 1]
        yield 'transpose', '', text[:t.start] + u.text + text[t.end:u.start] + t.text + text[u.end:]
    for j in range(n_repl):
        rep = REPLACEMENTS[(salt * 7 + k * n_repl + j) % len(REPLACEMENTS)]
        if rep != t.text:
            yield 'replace', rep, _sub(text, t.start, t.end, rep)
    # token cut in two / halved
    if len(t.text) >= 2:
        h = len(t.text) // 2
        yield 'split', '', _sub(text, t.start, t.end, t.text[:h] + ' ' + t.text[h:])
        yield 'trunc-token', 'head', _sub(text, t.start, t.end, t.text[:h])
        yield 'trunc-token', 'tail', _sub(text, t.start, t.end, t.text[h:])
    # quote imbalance
    if t.kind not in ('hd_line', 'hd_end'):
        if is_quoted(t.text):
            yield 'quote', 'drop-open', _sub(text, t.start, t.end, t.text[1:])
            yield 'quote', 'drop-close', _sub(text, t.start, t.end, t.text[:-1])
            other = '"' if t.text[0] == "'" else "'"
            yield 'quote', 'mismatch', _sub(text, t.start, t.end, t.text[:-1] + other)
        else:
            yield 'quote', 'add-open-hard', _sub(text, t.start, t.end, "'" + t.text)
            yield 'quote', 'add-close-soft', _sub(text, t.start, t.end, t.text + '"')
    else:
        yield 'heredoc', 'indent-line', _sub(text, t.start, t.end, ' ' + t.text)
        yield 'heredoc', 'trailing-blank', _sub(text, t.start, t.end, t.text + ' ')


def char_truncations(text, every=1):
    """The case file ends inside the instruction: at every character position (no final newline), and, at every
    line end, also with the newline kept."""
    for c in range(0, len(text), every):
        yield 'truncate', 'at-char-%d' % c, text[:c]
    for c in range(len(text)):
        if text[c] == '\n':
            yield 'truncate', 'after-line-end-%d' % c, text[:c + 1]


_REF_RE = re.compile(r'@\[(\w+)\]@')


def wrong_type_symbols(tok, allow_case_symbols=True):
    """-> [(replacement text, symbol type, definitely_wrong)]"""
    out = []
    if tok.kind == 'sym':
        expected = tok.stype
        accepted = ACCEPTED.get(expected, {expected})
        m = _REF_RE.search(tok.text)
        current = m.group(1) if m else tok.text
        for typ, name, _ in SYMBOLS:
            if name == current:
                continue
            txt = tok.text.replace(current, name)  # keeps the form: bare name, @[..]@, or quoted @[..]@
            out.append((txt, typ, typ not in accepted))
    elif tok.kind in ('int', 'range', 'regex', 'repl', 'glob', 'path', 'str', 'prog'):
        # these positions take a STRING: string, list and path symbols are fine, a symbol of a logic type is a
        # mistake.  Not claimed for kind 'str' (may be a TEXT-SOURCE position, or a marker that is taken literally)
        for typ, name, _ in SYMBOLS:
            out.append(('@[%s]@' % name, typ, typ not in DATA_TYPES and tok.kind != 'str'))
    if not allow_case_symbols:
        out = [('@[UNDEFINED_SYMBOL]@', 'undefined', True), ('@[EXACTLY_HOME]@', 'path', False)] if out else []
    return out


def kind_values(kind):
    """-> [(label, value)] of ill-formed / extreme values for a token kind"""
    if kind == 'int':
        return [('bad-int', v) for v in BAD_INTS] + [('extreme-int', v) for v in EXTREME_INTS]
    if kind == 'range':
        return [('bad-range', v) for v in BAD_RANGES] + [('extreme-range', v) for v in EXTREME_RANGES]
    if kind == 'regex':
        return [('bad-regex', v) for v in BAD_REGEXES] + [('extreme-regex', v) for v in EXTREME_REGEXES]
    if kind == 'repl':
        return [('bad-repl', v) for v in BAD_REPLS] + [('extreme-repl', v) for v in EXTREME_REPLS]
    if kind == 'glob':
        return [('odd-glob', v) for v in GLOBS]
    if kind in ('path', 'str'):
        return [('nul-char', 'a\x00b')] + [('odd-string', v) for v in ODD_STRINGS]
    return []


# ---------------------------------------------------------------------------------------------
# Assembly of a complete case
# ---------------------------------------------------------------------------------------------
_SYM_RE = re.compile(r'\bS_[A-Z]+\b')


def assemble(phase_blocks: dict, mention_text: str, need_fixture=True, cut_after_target=None):
    """phase_blocks: phase -> list of instruction texts (may be multi-line).  Emits [conf], [setup] (symbol
    definitions that `mention_text` names, then the fixture, then the given setup instructions), [act], ...
    Returns (case text, {phase: [(first_line_no, last_line_no) of each given instruction]})."""
    lines = []
    spans = {}

    def emit_block(ph, instrs):
        spans[ph] = []
        for ins in instrs:
            first = len(lines) + 1
            lines.extend(ins.split('\n'))
            spans[ph].append((first, len(lines)))

    if phase_blocks.get('conf'):
        lines.append('[conf]')
        emit_block('conf', phase_blocks['conf'])
    lines.append('[setup]')
    mentioned = set(_SYM_RE.findall(mention_text))
    for typ, name, val in SYMBOLS + EXTRA_SYMBOLS:
        if name in mentioned:
            lines.append('def %s %s = %s' % (typ, name, val))
    if need_fixture:
        lines.extend(FIXTURE)
    emit_block('setup', phase_blocks.get('setup', []))
    for ph in ('act', 'before-assert', 'assert', 'cleanup'):
        if phase_blocks.get(ph):
            lines.append('[%s]' % ph)
            emit_block(ph, phase_blocks[ph])
    return '\n'.join(lines) + '\n', spans


# ---------------------------------------------------------------------------------------------
# Whole-file forms and extreme structures (valid UTF-8 throughout)
# ---------------------------------------------------------------------------------------------
def file_forms(text):
    yield 'crlf', text.replace('\n', '\r\n')
    yield 'cr-only', text.replace('\n', '\r')
    yield 'bom', '\ufeff' + text
    yield 'tabs', text.replace(' ', '\t')
    yield 'trailing-space', text.replace('\n', '  \n')
    yield 'no-final-newline', text.rstrip('\n')
    yield 'form-feed-lines', text.replace('\n', '\n\x0c\n')
    # lines of white space that is not "empty" (space/tab): several in a row, after an instruction description, mixed
    yield 'form-feed-line-pairs', text.replace('\n', '\n\x0c\n\x0c\n')
    yield 'vt-nbsp-line-runs', text.replace('\n', '\n\x0b\n\u00a0\n \x0c \n')
    yield 'ws-lines-after-description', text.replace('\n', '\n`a description`\n\x0c\n\x0c\n', 1) \
        if text.count('\n') > 2 else text
    yield 'ws-line-inside-description-gap', '\n'.join(
        ('`d`\n\x0c\n' + l) if (i and l and not l.startswith('[') and not l.startswith(' ') and i % 2) else l
        for i, l in enumerate(text.split('\n')))
    yield 'nul-line', text + '\x00\n'
    yield 'indented', '\n'.join('   ' + l for l in text.split('\n'))
    # the file ends with a line that is neither empty (space/tab) nor an instruction: characters that str.isspace
    # accepts; with and without a final newline
    for name, tail in (('ff', '\x0c'), ('sp-ff', ' \x0c'), ('vt', '\x0b'), ('fs', '\x1c'), ('nel', '\x85'),
                       ('ls', '\u2028'), ('nbsp', '\u00a0'), ('ff-ff', '\x0c\x0c'), ('tab-ff-sp', '\t\x0c ')):
        yield 'ws-tail-' + name, text + tail
        yield 'ws-tail-nl-' + name, text + tail + '\n'
        yield 'ws-tail-glued-' + name, text.rstrip('\n') + tail


def extreme_structures():
    """(name, case text).  Nesting beyond Python's recursion limit must still end in a documented outcome."""
    for n in (50, 400, 2000):
        yield 'parens-%d' % n, '[assert]\nexit-code ' + '( ' * n + '== 0' + ' )' * n + '\n'
        yield 'negations-%d' % n, '[assert]\nexit-code ' + '! ' * n + '== 0\n'
        yield 'composition-%d' % n, '[setup]\nfile f.txt = "x" -transformed-by ( ' + 'identity | ' * n + 'identity )\n'
        yield 'files-source-nesting-%d' % n, '[setup]\ndir d = ' + '{ dir a = ' * n + '{ }' + ' }' * n + '\n'
        yield 'unclosed-parens-%d' % n, '[assert]\nexit-code ' + '( ' * n + '== 0\n'
        yield 'unclosed-braces-%d' % n, '[setup]\ndir d = ' + '{ dir a = ' * n + '\n'
    yield 'long-list', '[setup]\ndef list L = ' + 'a ' * 20000 + '\n'
    yield 'long-heredoc', '[setup]\nfile f.txt = <<EOF\n' + 'line\n' * 20000 + 'EOF\n'
    yield 'long-heredoc-unterminated', '[setup]\nfile f.txt = <<EOF\n' + 'line\n' * 20000
    yield 'long-token', '[setup]\nfile f.txt = ' + 'x' * 200000 + '\n'
    yield 'long-quoted-unterminated', "[setup]\nfile f.txt = '" + 'x' * 200000 + '\n'
    yield 'many-instructions', '[setup]\n' + 'env A = b\n' * 3000
    yield 'long-conjunction', '[assert]\nexit-code ' + '== 0 && ' * 3000 + '== 0\n'
    yield 'dangling-operator', '[assert]\nexit-code ' + '== 0 && ' * 3000 + '\n'
    yield 'huge-timeout-then-process', '[setup]\ntimeout = ' + '9' * 400 + '\nrun % true\n'
    yield 'huge-timeout-then-action', '[setup]\ntimeout = ' + '9' * 400 + '\n[act]\n% true\n'
    yield 'empty-file', ''
    yield 'blank-file', '\n\n  \n'
    yield 'only-comment', '# nothing\n'
    yield 'only-header', '[assert]'
    yield 'headers-only', ''.join('[%s]\n' % p for p in PHASE_ORDER)
    yield 'many-headers', '[setup]\n' * 3000
    yield 'long-header', '[' + 'x' * 100000 + ']\n'
    yield 'long-unknown-instruction', '[setup]\n' + 'y' * 100000 + ' arg\n'
    # long runs of one kind of line that carries no instruction (empty, blanks, tabs, comment, and white space that
    # is not space/tab: FF, VT, NBSP, U+2028, NEL), in each phase, before and after the phase's own contents
    fillers = (('empty', ''), ('spaces', '   '), ('tab', '\t'), ('comment', '# c'), ('ff', '\x0c'), ('vt', '\x0b'),
               ('nbsp', '\xa0'), ('ls', '\u2028'), ('nel', '\x85'), ('fs', '\x1c'))
    bodies = {'conf': 'status = PASS', 'setup': 'env A = b', 'act': '% true', 'before-assert': 'env A = b',
              'assert': 'exit-code == 0', 'cleanup': 'env A = b'}
    for fname, ftext in fillers:
        for ph in PHASE_ORDER:
            for where in ('after', 'before', 'alone'):
                for n in (1500,):
                    run = (ftext + '\n') * n
                    body = bodies[ph] + '\n'
                    txt = '[%s]\n' % ph + {'after': body + run, 'before': run + body, 'alone': run}[where]
                    if ph != 'act':
                        txt += '[act]\n% true\n'
                    yield 'filler-%s-%s-%s-%d' % (fname, ph, where, n), txt
    # definitions that refer to the symbol they define (alone, and followed by a use of the symbol), in each phase
    selfs = [('string', 'x@[S]@'), ('list', 'a @[S]@ b'), ('path', '-rel S sub'), ('path', '@[S]@/sub'),
             ('line-matcher', '! S'), ('text-matcher', '( is-empty || S )'), ('text-transformer', '( strip | S )'),
             ('program', '@ S arg'), ('file-matcher', '( type file && S )'), ('files-matcher', '! S'),
             ('integer-matcher', '( == 1 || S )'), ('text-source', '@[S]@')]
    uses = {'string': 'file f.txt = "@[S]@"', 'list': 'run % echo @[S]@', 'path': 'file @[S]@/x.txt',
            'line-matcher': 'file f.txt = "a" -transformed-by filter S', 'text-matcher': 'file g.txt = "a"',
            'text-transformer': 'file f.txt = "a" -transformed-by S', 'program': 'run @ S',
            'file-matcher': 'dir d', 'files-matcher': 'dir d', 'integer-matcher': 'dir d', 'text-source': 'file f.txt = S'}
    for typ, val in selfs:
        for ph in ('setup', 'before-assert', 'assert', 'cleanup'):
            d = 'def %s S = %s' % (typ, val)
            yield 'self-ref-%s-%s' % (typ, ph), '[%s]\n%s\n' % (ph, d)
            if ph != 'assert':
                yield 'self-ref-used-%s-%s' % (typ, ph), '[%s]\n%s\n%s\n' % (ph, d, uses[typ])
    yield 'symbol-chain-300', ('[setup]\ndef string A0 = x\n' + ''.join('def string A%d = @[A%d]@\n' % (i + 1, i)
                                                                         for i in range(300))
                               + 'file f.txt = @[A300]@\n')
