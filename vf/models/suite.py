"""Reference model of suite reading and enumeration (C16), written from `exactly help suite spec`,
`help suite cases`, `help suite suites`, `help syntax GLOB-PATTERN`, `help reporter progress` and the
statement of property C16.  Nothing here imports exactly_lib or touches the real file system: the model
works on an abstract description of the tree (a "virtual file system" + the entries of each suite file)
and has its own glob matcher.

Semantics encoded
  * a suite file = ordered entries of the sections [cases] and [suites] (a section may appear several times,
    contents accumulate in file order; the order of the sections is irrelevant);
  * an entry is a file name (relative to the directory of the suite file) or a glob pattern
    (`?` one character, `*` any characters inside one path component, `**` as a whole component = zero or more
    directories); the matches of ONE glob entry are sorted, entries keep their listing order;
    a glob without matches contributes nothing; a plain name that does not exist makes the suite invalid;
  * in [suites] a directory stands for its `exactly.suite` (missing => invalid);
  * a suite file reachable twice (same file after resolving `.`/`..`/symbolic links; diamonds and cycles
    included; the root counts) => invalid; a suite file with a syntax error => invalid;
  * invalid anywhere in the hierarchy => the whole run is invalid and nothing is executed;
  * processing order: depth first, the sub-suites of a suite (in listing order) before the suite's own cases.
  * a case file listed twice (in one suite or in two) is two listed cases.
  * a QUOTED entry is a plain file name even if it holds `*`, `?`, `[` or spaces (the program's own rule).
"""
import posixpath
import re

DEFAULT_SUITE_FILE = 'exactly.suite'

SUCCESS_VERDICTS = ('PASS', 'SKIPPED', 'XFAIL')

# verdict class -> (identifier shown for the case | None = "some error identifier", executes [setup]?)
VERDICT_CLASSES = {
    'PASS': ('PASS', True),
    'FAIL': ('FAIL', True),
    'XFAIL': ('XFAIL', True),
    'XPASS': ('XPASS', True),
    'SKIPPED': ('SKIPPED', False),
    'SYNTAX_INSTR': ('SYNTAX_ERROR', False),
    'SYNTAX_ACT': ('SYNTAX_ERROR', False),
    'VALIDATION_ERROR': ('VALIDATION_ERROR', False),
    'HARD_ERROR': ('HARD_ERROR', True),
    'FILE_ACCESS_ERROR': ('FILE_ACCESS_ERROR', False),
    'UNDECODABLE': (None, False),
}
# identifiers a case that "could not be executed" may be shown with (documented error identifiers of a case)
ERROR_IDENTIFIERS = ('SYNTAX_ERROR', 'FILE_ACCESS_ERROR', 'PRE_PROCESS_ERROR', 'VALIDATION_ERROR', 'HARD_ERROR',
                     'INTERNAL_ERROR')
ALL_CASE_IDENTIFIERS = ('PASS', 'FAIL', 'XFAIL', 'XPASS', 'SKIPPED') + ERROR_IDENTIFIERS


def is_successful_class(cls: str) -> bool:
    return VERDICT_CLASSES[cls][0] in SUCCESS_VERDICTS


class InvalidSuite(Exception):
    def __init__(self, kind, suite, entry=None):
        Exception.__init__(self, '%s in %s%s' % (kind, suite, '' if entry is None else ' (%s)' % entry))
        self.kind = kind
        self.suite = suite
        self.entry = entry


class ModelAmbiguity(Exception):
    """The generated tree leaves the documented meaning open (generator bug)."""


def norm(p: str) -> str:
    p = posixpath.normpath(p)
    return '' if p == '.' else p


def unquoted(s: str):
    """The file name denoted by a QUOTED entry ('...' or "..."), or None if the entry is not quoted.  The manual
    is silent on quoting in suite files; the program states its own rule (a quoted token is a plain file name, never
    a pattern - it is the only way to list a file whose name contains a space, `*`, `?` or `[`), and that rule is
    what is demanded (only for quoted strings without quote or backslash characters inside)."""
    if len(s) >= 2 and s[0] in '\'"' and s[-1] == s[0] and s[0] not in s[1:-1] and '\\' not in s:
        return s[1:-1]
    return None


def is_glob(s: str) -> bool:
    if unquoted(s) is not None:
        return False
    return any(c in s for c in '*?[')


class VFS:
    """files: relpath -> 'f' | 'd' | ['l', target relative to the link's directory].  Directories of files are
    implied.  No symbolic links to directories."""

    def __init__(self, files: dict):
        self.kind = {}
        self.children = {'': set()}
        for p, k in files.items():
            p = norm(p)
            self._add_parents(p)
            self.kind[p] = k if isinstance(k, str) else ('l', k[1])
            if k == 'd':
                self.children.setdefault(p, set())

    def _add_parents(self, p):
        while p:
            parent = posixpath.dirname(p)
            self.children.setdefault(parent, set()).add(posixpath.basename(p))
            if parent:
                self.kind.setdefault(parent, 'd')
            p = parent

    def is_dir(self, p):
        p = norm(p)
        return p == '' or self.kind.get(p) == 'd'

    def exists(self, p):
        p = norm(p)
        if p == '' or p.startswith('..'):
            return p == ''
        k = self.kind.get(p)
        if k is None:
            return False
        if isinstance(k, tuple):
            return self.exists(posixpath.join(posixpath.dirname(p), k[1]))
        return True

    def is_file(self, p):
        return self.exists(p) and not self.is_dir(self.canonical(p))

    def listdir(self, p):
        return sorted(self.children.get(norm(p), ()))

    def canonical(self, p, _depth=0):
        p = norm(p)
        k = self.kind.get(p)
        if isinstance(k, tuple) and _depth < 20:
            return self.canonical(posixpath.join(posixpath.dirname(p), k[1]), _depth + 1)
        return p


def _component_regex(comp: str):
    out = []
    for c in comp:
        if c == '*':
            out.append('[^/]*')
        elif c == '?':
            out.append('[^/]')
        elif c == '[':
            raise ModelAmbiguity('bracket patterns are not generated')
        else:
            out.append(re.escape(c))
    return re.compile('^' + ''.join(out) + '$')


def glob(vfs: VFS, base_dir: str, pattern: str) -> list:
    """Sorted list of paths (relative to the tree root) matching PATTERN below BASE_DIR."""
    comps = pattern.split('/')
    if any(c in ('', '.', '..') for c in comps):
        raise ModelAmbiguity('glob with empty/./.. component: %r' % pattern)
    if comps[-1] == '**' or comps.count('**') > 1:
        raise ModelAmbiguity('`**` only as a single non-final component: %r' % pattern)
    found = set()

    def walk(d, i):
        if i == len(comps):
            found.add(norm(d))
            return
        c = comps[i]
        if c == '**':
            walk(d, i + 1)
            for n in vfs.listdir(d):
                sub = posixpath.join(d, n)
                if vfs.kind.get(norm(sub)) == 'd':
                    walk(sub, i)
            return
        if not vfs.is_dir(d):
            return
        rx = _component_regex(c)
        for n in vfs.listdir(d):
            if n.startswith('.'):
                raise ModelAmbiguity('hidden name %r' % n)
            if rx.match(n):
                sub = posixpath.join(d, n)
                if i + 1 < len(comps) and vfs.kind.get(norm(sub)) != 'd':
                    continue
                walk(sub, i + 1)

    walk(base_dir, 0)
    by_str = sorted(found)
    by_parts = sorted(found, key=lambda p: tuple(p.split('/')))
    if by_str != by_parts:
        raise ModelAmbiguity('"sorted" is ambiguous for %r' % by_str)
    return by_str


class Node:
    def __init__(self, path):
        self.path = path  # as reached (tree-relative, normalized; a directory entry has been replaced by its suite file)
        self.cases = []  # tree-relative normalized paths, in processing order
        self.subs = []  # Nodes, in processing order

    def depth(self):
        return 1 + max([s.depth() for s in self.subs] or [0])


def read_hierarchy(vfs: VFS, suites: dict, root: str) -> Node:
    """suites: path -> {'items': [[section, line], ...], 'defect': None | str}.
    root: tree-relative path of the root suite file.  Raises InvalidSuite."""
    visited = set()

    def read(path):
        canon = vfs.canonical(path)
        if canon in visited:
            raise InvalidSuite('double_inclusion', path)
        visited.add(canon)
        spec = suites.get(canon)
        if spec is None:
            raise ModelAmbiguity('%r is read as a suite but is not one' % canon)
        if spec.get('defect'):
            raise InvalidSuite('syntax:' + spec['defect'], path)
        node = Node(norm(path))
        d = posixpath.dirname(norm(path))
        case_entries = [l for s, l in spec['items'] if s == 'cases']
        suite_entries = [l for s, l in spec['items'] if s == 'suites']
        sub_files = []
        for e in suite_entries:
            for m in resolve_entry(vfs, d, e, path):
                if vfs.is_dir(m):
                    m = posixpath.join(m, DEFAULT_SUITE_FILE)
                    if not vfs.exists(m):
                        raise InvalidSuite('dir_without_default_suite', path, e)
                sub_files.append(m)
        for e in case_entries:
            for m in resolve_entry(vfs, d, e, path):
                if vfs.is_dir(m):
                    raise ModelAmbiguity('a directory listed as a case: %r' % m)
                node.cases.append(m)
        for m in sub_files:
            node.subs.append(read(m))
        return node

    return read(root)


def resolve_entry(vfs, d, entry, suite_path):
    if is_glob(entry):
        return glob(vfs, d, entry)
    if unquoted(entry) is not None:
        entry = unquoted(entry)
    p = norm(posixpath.join(d, entry))
    if p.startswith('..'):
        raise ModelAmbiguity('entry leaves the tree: %r' % entry)
    if not vfs.exists(p):
        raise InvalidSuite('missing_file', suite_path, entry)
    return [p]


def enumeration(node: Node) -> list:
    """[(suite path, [case paths])] in processing order: sub-suites (depth first, listing order) before the suite."""
    ret = []
    for s in node.subs:
        ret.extend(enumeration(s))
    ret.append((node.path, list(node.cases)))
    return ret


def expected_progress_final(classes_in_order) -> tuple:
    """(identifier, exit code) of the progress reporter for the given verdict classes of all processed cases."""
    if all(is_successful_class(c) for c in classes_in_order):
        return 'OK', 0
    return 'ERROR', 4
