"""Reference state machine for C11 "settings persist forward" (cd, env act / non-act, timeout, def).

Written from the reference manual only (`exactly help setup env|cd|timeout|def`, `help concept "environment
variable" | "current directory" | timeout`); imports nothing from exactly_lib.

What the manual says, and what is encoded here:

* Two sets of environment variables: that of the "action to check" (act) and that of every other OS process
  (non-act). Default of both: the environment Exactly was started with.
* `env [-of act | -of !act] NAME = VALUE`: sets NAME in the named set (both if no PHASE-SPEC). Elements
  `${var_name}` in VALUE are replaced by the value of var_name *in the set being changed* ("in the specified
  phase"), or the empty string if that set has no such variable. With no PHASE-SPEC each set is changed with the
  value expanded against itself.  A PROGRAM inside VALUE runs with the variables of the specified set.
* `env [...] unset NAME` removes NAME (no error if absent).
* current directory: initialised to <sandbox>/act; `cd [-rel-act|-rel-tmp|-rel-cd] PATH` (default relativity: current
  directory; after the act phase also -rel-result); stays in effect for all following instructions and phases; a
  child process changing its own directory changes nothing.
* timeout: default 60 (seconds); `timeout = INTEGER`, `timeout = none`; applies to all following instructions/phases.
* `def`: the symbol is available in all following instructions and phases; a path symbol with relativity -rel-cd
  (also the default relativity of `def path`) is evaluated when REFERENCED, and is rendered as an absolute path.

The action sees (act set, cwd and timeout as at the end of [setup]); every other process sees the non-act set.
A change of the act set made after the act phase is applied to the model's act set too, where nothing can observe
it any more ("no observable effect").
"""
import posixpath

DEFAULT_TIMEOUT = 60
PHASES = ('setup', 'before-assert', 'assert', 'cleanup')
ACT = 'act'
NON_ACT = 'non_act'

# directories that exist below the sandbox root once the prelude of a generated case has run
# (the generator asks `dir_exists` so that it never emits a `cd` whose outcome the manual leaves open)
PRELUDE_DIRS = ('a/a/a', 'b')      # created below both act/ and tmp/


def known_dirs():
    """Directories (relative to the sandbox root, '' = the root) into which a generated `cd` may lead."""
    ret = {'', 'act', 'tmp', 'result'}     # result/ exists from the start ("initially empty")
    for top in ('act', 'tmp'):
        for d in PRELUDE_DIRS:
            parts = d.split('/')
            for i in range(1, len(parts) + 1):
                ret.add(top + '/' + '/'.join(parts[:i]))
    return ret


_NAME_CHARS = frozenset('abcdefghijklmnopqrstuvwxyzABCDEFGHIJKLMNOPQRSTUVWXYZ0123456789_')


def references_in(text):
    """Names referenced by elements of the form ${var_name} in text, in order."""
    return [name for kind, name in _scan(text) if kind == 'ref']


def _scan(text):
    """-> [('lit', s) | ('ref', name)]: an element is `${` name `}` with a non-empty name of letters, digits, `_`;
    anything else (`$X`, `${`, `${}`, `$`) is literal text."""
    ret = []
    i = 0
    n = len(text)
    lit = ''
    while i < n:
        if text.startswith('${', i):
            j = i + 2
            while j < n and text[j] in _NAME_CHARS:
                j += 1
            if j > i + 2 and j < n and text[j] == '}':
                if lit:
                    ret.append(('lit', lit))
                    lit = ''
                ret.append(('ref', text[i + 2:j]))
                i = j + 1
                continue
        lit += text[i]
        i += 1
    if lit:
        ret.append(('lit', lit))
    return ret


def expand(text, environ):
    """${n} -> environ[n], unknown -> '' (single pass: substituted values are not expanded again)."""
    return ''.join(s if kind == 'lit' else environ.get(s, '') for kind, s in _scan(text))


def sets_of(of):
    """PHASE-SPEC -> names of the sets changed, in the order act, non-act."""
    if of is None:
        return (ACT, NON_ACT)
    if of == 'act':
        return (ACT,)
    if of == '!act':
        return (NON_ACT,)
    raise ValueError(of)


class Settings:
    """The state a process started at some point of the execution must observe."""

    def __init__(self, environ, sandbox_root):
        self.root = sandbox_root.rstrip('/')
        self.env = {ACT: dict(environ), NON_ACT: dict(environ)}
        self.cwd = self.root + '/act'
        self.timeout = DEFAULT_TIMEOUT
        self.symbols = []      # [(name, ('string', text) | ('path', rel, file_name))] in definition order

    # -- instructions ---------------------------------------------------------------------------
    def set_var(self, of, name, text):
        for s in sets_of(of):
            self.env[s][name] = expand(text, self.env[s])

    def unset_var(self, of, name):
        for s in sets_of(of):
            self.env[s].pop(name, None)

    def _base(self, rel):
        if rel in ('cd', None):
            return self.cwd
        if rel in ('act', 'tmp', 'result'):
            return self.root + '/' + rel
        raise ValueError(rel)

    def cd_target(self, rel, path):
        """The directory `cd [rel] path` leads to (does not change the state)."""
        if path.startswith('/'):
            return posixpath.normpath(path)
        return posixpath.normpath(posixpath.join(self._base(rel), path))

    def cd(self, rel, path):
        self.cwd = self.cd_target(rel, path)

    def set_timeout(self, value):
        """value: int seconds | None (= `none`)."""
        self.timeout = value

    def define(self, name, value):
        """value: ['string', text_with_references_to_earlier_string_symbols_already_substituted]
                | ['path', 'cd'|'act'|'tmp'|None, file_name]"""
        assert all(n != name for n, _ in self.symbols), 'a symbol cannot be defined twice'
        self.symbols.append((name, tuple(value)))

    def apply(self, instr):
        """instr: JSON-able dict with key 'op' (see vf/props/c11.py); probes change nothing."""
        op = instr['op']
        if op == 'set':
            self.set_var(instr['of'], instr['name'], instr['text'])
        elif op == 'unset':
            self.unset_var(instr['of'], instr['name'])
        elif op == 'cd':
            self.cd(instr['rel'], instr['path'])
        elif op == 'timeout':
            self.set_timeout(instr['value'])
        elif op == 'def':
            self.define(instr['name'], instr['value'])
        elif op == 'probe':
            pass    # a process, whatever it does to its own cwd / environment, changes nothing
        else:
            raise ValueError(op)

    # -- observations -----------------------------------------------------------------------------
    def dir_exists(self, path):
        """Is `path` one of the directories known to exist (sandbox root, act, tmp, result and the prelude's)?"""
        if path == self.root:
            return True
        if not path.startswith(self.root + '/'):
            return False
        return path[len(self.root) + 1:] in known_dirs()

    def symbol_value(self, name):
        for n, v in self.symbols:
            if n == name:
                if v[0] == 'string':
                    return v[1]
                return posixpath.join(self._base(v[1]), v[2])
        raise KeyError(name)

    def observe(self, which):
        """which: 'act' (the action to check) | 'non_act' (any other process). -> what a process started now sees."""
        return {'env': dict(self.env[which]),
                'cwd': self.cwd,
                'timeout': self.timeout,
                'symbols': [self.symbol_value(n) for n, _ in self.symbols]}
