"""Reference model of Exactly's TEXT-MATCHER, LINE-MATCHER, INTEGER-MATCHER and TEXT-TRANSFORMER.

Written from the reference manual (`exactly help syntax TEXT-MATCHER | TEXT-TRANSFORMER | LINE-MATCHER |
INTEGER-MATCHER | REGEX | TEXT-SOURCE | RICH-STRING`), NOT from exactly_lib.  It imports nothing from the program
under test.  Python's `re` is trusted (the manual defines REGEX as "A regular expression, using Python syntax"
and the replacement STRING of `replace` by the words of `re.sub`'s documentation).

What the manual says, and how it is encoded here
------------------------------------------------
* text           a `str`.  Lines are separated by "\\n" ("Every line ends with "\\n", except the last line, which
                 may or may not end with "\\n"" - TEXT-TRANSFORMER/replace).  The empty text has no lines.
                 Only "\\n" is a line separator in this model (other separators: property C14).
* line           (line number starting at 1, text contents without the line separator)  - `help type line-matcher`.
* is-empty       "Matches iff the text is empty."
* equals S       "Matches iff the text is equal to TEXT-SOURCE." (S may itself carry `-transformed-by T`)
* matches R      "Matches iff REGEX matches any part of the text." (re.search); -full: "REGEX must match the full
                 text" (re.fullmatch); -ignore-case "Makes the matching ignore case" (re.IGNORECASE).
* num-lines I    "Matches iff the number of lines of the text matches INTEGER-MATCHER."
* every/any line "Matches iff every|any line satisfies LINE-MATCHER." (no lines: every = true, any = false)
* -transformed-by T M   "Applies TEXT-MATCHER to the original text transformed by TEXT-TRANSFORMER."
* ! && || constant      the usual meaning.
* contents M     "Matches lines who's text contents matches TEXT-MATCHER."
* line-num I     "Matches lines who's line number matches INTEGER-MATCHER."
* filter LM      "Keeps lines matched by MATCHER, and discards lines not matched." (a kept line keeps its separator)
* filter -line-nums R...  "A line matches iff it's line number matches any LINE-NUMBER-RANGE"; N, :N, N:, N:M,
                 "Negative numbers denote line numbers relative to the end. -1 is the last line number".
* grep           "Shortcut for "filter contents matches"."
* replace        "Replaces every string matching REGEX (on a single line) with STRING."  The line includes its
                 final "\\n" unless -preserve-new-lines ("this "\\n" is excluded from the replacement"); `-at LM`
                 "Limits replacement to lines matching LINE-MATCHER."; STRING = re.sub template.
* char-case      "Converts all cased characters to lowercase|uppercase." (str.lower / str.upper)
* strip          "Removes all whitespace at the beginning and end of the text"; -trailing-space "at the end of the
                 text"; -trailing-new-lines "Removes every "\\n" at the end of the text".
* identity       "Gives output that is identical to the input."
* T | T          "The output of the text-transformer to the left is given as input to the text-transformer to the
                 right."

AST
---
JSON-able nested lists (so that they can travel inside case descriptors and replay files).  Build them with the
constructor functions below.  Shared by all four expression types: ['const', bool] ['not', X] ['and', X, Y, ...]
['or', X, Y, ...].

API:  eval_matcher(ast, text) -> bool,  eval_line_matcher(ast, line_no, line_text_without_newline) -> bool,
      eval_int_matcher(ast, n) -> bool,  apply_transformer(ast, text) -> str,  lines_of(text),
      render(ast, kind=None, env=None, style='full') -> str  (DSL syntax; may contain line breaks where the
      syntax needs them),  heads(ast) -> set of node names,  depth(ast).
"""
import re

# =====================================================================================================
# constructors
# =====================================================================================================
TEXT_MATCHER = 'text-matcher'
LINE_MATCHER = 'line-matcher'
INTEGER_MATCHER = 'integer-matcher'
TEXT_TRANSFORMER = 'text-transformer'

CMP_OPS = ('==', '!=', '<', '<=', '>', '>=')


# -- shared by every expression type
def const(b):
    return ['const', bool(b)]


def not_(x):
    return ['not', x]


def and_(*xs):
    assert len(xs) >= 2
    return ['and'] + list(xs)


def or_(*xs):
    assert len(xs) >= 2
    return ['or'] + list(xs)


# -- integer matcher
def cmp_(op, n):
    assert op in CMP_OPS
    return ['cmp', op, int(n)]


# -- line matcher
def l_contents(text_matcher):
    return ['l-contents', text_matcher]


def l_num(int_matcher):
    return ['l-num', int_matcher]


# -- text matcher
def is_empty():
    return ['is-empty']


def equals(text, kind='str', tr=None, alias=False):
    """kind: how the expected text is written in the DSL: 'str' (quoted string), 'eol' (`:> ...`), 'heredoc',
    'file' (`-contents-of`), 'prog' (`-stdout-from`).  tr: optional transformer applied to the expected text
    (`TEXT-SOURCE -transformed-by T`).  Only `text` and `tr` matter to the evaluator."""
    return ['equals', {'text': text, 'kind': kind, 'tr': tr, 'alias': bool(alias)}]


def matches(rx, full=False, icase=False, alias=False):
    return ['matches', rx, bool(full), bool(icase), bool(alias)]


def num_lines(int_matcher):
    return ['num-lines', int_matcher]


def every_line(line_matcher):
    return ['every', line_matcher]


def any_line(line_matcher):
    return ['any', line_matcher]


def on_transformed(transformer, text_matcher):
    return ['transformed', transformer, text_matcher]


# -- text transformer
def identity():
    return ['identity']


def strip(variant=None):
    assert variant in (None, 'trailing-space', 'trailing-new-lines')
    return ['strip', variant]


def char_case(to):
    assert to in ('lower', 'upper')
    return ['char-case', to]


def replace(rx, repl, icase=False, preserve_nl=False, at=None):
    return ['replace', rx, bool(icase), repl, bool(preserve_nl), at]


def filter_(line_matcher):
    return ['filter', line_matcher]


def filter_line_nums(ranges):
    """ranges: list of [n] (single), [None, n] (:n), [n, None] (n:), [n, m] (n:m); negative = from the end."""
    rs = [list(r) for r in ranges]
    assert rs and all(len(r) in (1, 2) for r in rs)
    return ['filter-nums', rs]


def grep(rx, full=False, icase=False):
    return ['grep', rx, bool(full), bool(icase)]


def seq(*ts):
    assert len(ts) >= 2
    return ['seq'] + list(ts)


# =====================================================================================================
# evaluation
# =====================================================================================================
class ModelError(Exception):
    """The AST is malformed (a harness bug, never a verdict)."""


def lines_of(text):
    """-> list of (contents_without_separator, separator) ; separator is '\\n' or '' (last line only)."""
    if text == '':
        return []
    parts = text.split('\n')
    ret = [(p, '\n') for p in parts[:-1]]
    if parts[-1] != '':
        ret.append((parts[-1], ''))
    return ret


def num_lines_of(text):
    return len(lines_of(text))


def _flags(icase):
    return re.IGNORECASE if icase else 0


def _logic(ast, rec):
    h = ast[0]
    if h == 'const':
        return bool(ast[1])
    if h == 'not':
        return not rec(ast[1])
    if h == 'and':
        for x in ast[1:]:
            if not rec(x):
                return False
        return True
    if h == 'or':
        for x in ast[1:]:
            if rec(x):
                return True
        return False
    return None


_LOGIC = ('const', 'not', 'and', 'or')


def eval_int_matcher(ast, n):
    h = ast[0]
    if h in _LOGIC:
        return _logic(ast, lambda x: eval_int_matcher(x, n))
    if h == 'cmp':
        op, k = ast[1], ast[2]
        if op == '==':
            return n == k
        if op == '!=':
            return n != k
        if op == '<':
            return n < k
        if op == '<=':
            return n <= k
        if op == '>':
            return n > k
        if op == '>=':
            return n >= k
    raise ModelError('not an integer matcher: %r' % (ast,))


def eval_line_matcher(ast, line_no, line_text):
    h = ast[0]
    if h in _LOGIC:
        return _logic(ast, lambda x: eval_line_matcher(x, line_no, line_text))
    if h == 'l-contents':
        return eval_matcher(ast[1], line_text)
    if h == 'l-num':
        return eval_int_matcher(ast[1], line_no)
    raise ModelError('not a line matcher: %r' % (ast,))


def expected_text_of(src):
    """The text denoted by the TEXT-SOURCE of `equals` (a dict made by equals())."""
    t = src['text']
    if src.get('tr') is not None:
        t = apply_transformer(src['tr'], t)
    return t


def eval_matcher(ast, text):
    h = ast[0]
    if h in _LOGIC:
        return _logic(ast, lambda x: eval_matcher(x, text))
    if h == 'is-empty':
        return text == ''
    if h == 'equals':
        return text == expected_text_of(ast[1])
    if h == 'matches':
        rx, full, icase = ast[1], ast[2], ast[3]
        p = re.compile(rx, _flags(icase))
        return (p.fullmatch(text) if full else p.search(text)) is not None
    if h == 'num-lines':
        return eval_int_matcher(ast[1], num_lines_of(text))
    if h == 'every':
        return all(eval_line_matcher(ast[1], i + 1, c) for i, (c, _) in enumerate(lines_of(text)))
    if h == 'any':
        return any(eval_line_matcher(ast[1], i + 1, c) for i, (c, _) in enumerate(lines_of(text)))
    if h == 'transformed':
        return eval_matcher(ast[2], apply_transformer(ast[1], text))
    raise ModelError('not a text matcher: %r' % (ast,))


def line_numbers_of_ranges(ranges, n_lines):
    """The set of (existing) line numbers denoted by LINE-NUMBER-RANGE... for a text of n_lines lines."""

    def absolute(k):
        return k if k >= 0 else n_lines + 1 + k

    ret = set()
    for r in ranges:
        if len(r) == 1:
            lo = hi = absolute(r[0])
        else:
            lo = 1 if r[0] is None else absolute(r[0])
            hi = n_lines if r[1] is None else absolute(r[1])
        lo = max(lo, 1)
        hi = min(hi, n_lines)
        ret.update(range(lo, hi + 1))
    return ret


def apply_transformer(ast, text):
    h = ast[0]
    if h == 'identity':
        return text
    if h == 'seq':
        for t in ast[1:]:
            text = apply_transformer(t, text)
        return text
    if h == 'strip':
        v = ast[1]
        if v is None:
            return text.strip()
        if v == 'trailing-space':
            return text.rstrip()
        if v == 'trailing-new-lines':
            return text.rstrip('\n')
        raise ModelError(repr(ast))
    if h == 'char-case':
        return text.lower() if ast[1] == 'lower' else text.upper()
    if h == 'filter':
        return ''.join(c + s for i, (c, s) in enumerate(lines_of(text)) if eval_line_matcher(ast[1], i + 1, c))
    if h == 'filter-nums':
        ls = lines_of(text)
        keep = line_numbers_of_ranges(ast[1], len(ls))
        return ''.join(c + s for i, (c, s) in enumerate(ls) if (i + 1) in keep)
    if h == 'grep':
        p = re.compile(ast[1], _flags(ast[3]))
        f = p.fullmatch if ast[2] else p.search
        return ''.join(c + s for (c, s) in lines_of(text) if f(c) is not None)
    if h == 'replace':
        rx, icase, repl, preserve, at = ast[1], ast[2], ast[3], ast[4], ast[5]
        p = re.compile(rx, _flags(icase))
        out = []
        for i, (c, s) in enumerate(lines_of(text)):
            if at is not None and not eval_line_matcher(at, i + 1, c):
                out.append(c + s)
            elif preserve:
                out.append(p.sub(repl, c) + s)
            else:
                out.append(p.sub(repl, c + s))
        return ''.join(out)
    raise ModelError('not a text transformer: %r' % (ast,))


# =====================================================================================================
# inspection
# =====================================================================================================
def _children(ast):
    h = ast[0]
    if h in ('not', 'and', 'or', 'seq'):
        return list(ast[1:])
    if h in ('l-contents', 'l-num', 'num-lines', 'every', 'any', 'filter'):
        return [ast[1]]
    if h == 'transformed':
        return [ast[1], ast[2]]
    if h == 'replace':
        return [ast[5]] if ast[5] is not None else []
    if h == 'equals':
        return [ast[1]['tr']] if ast[1].get('tr') is not None else []
    return []


def name_of(ast):
    """A descriptive node name: the head plus the variant options that select a different documented form."""
    h = ast[0]
    if h == 'matches':
        return 'matches' + ('-full' if ast[2] else '') + ('-icase' if ast[3] else '')
    if h == 'grep':
        return 'grep' + ('-full' if ast[2] else '') + ('-icase' if ast[3] else '')
    if h == 'equals':
        return 'equals/' + ast[1]['kind'] + ('+tr' if ast[1].get('tr') is not None else '')
    if h == 'strip':
        return 'strip' + ('' if ast[1] is None else '-' + ast[1])
    if h == 'char-case':
        return 'char-case-' + ast[1]
    if h == 'replace':
        return 'replace' + ('-preserve' if ast[4] else '') + ('-at' if ast[5] is not None else '') + \
               ('-icase' if ast[2] else '')
    if h == 'const':
        return 'const-' + ('true' if ast[1] else 'false')
    if h == 'cmp':
        return 'cmp' + ast[1]
    return h


def heads(ast):
    ret = {name_of(ast)}
    for c in _children(ast):
        ret |= heads(c)
    return ret


def depth(ast):
    cs = _children(ast)
    return 1 + (max(depth(c) for c in cs) if cs else 0)


def equals_sources(ast):
    """All `equals` TEXT-SOURCE dicts in the tree (for harnesses that must create files for them)."""
    ret = []
    if ast[0] == 'equals':
        ret.append(ast[1])
    for c in _children(ast):
        ret.extend(equals_sources(c))
    return ret


# =====================================================================================================
# rendering to DSL syntax
# =====================================================================================================
NL = '\n'  # token: the syntax requires a line break here
HEREDOC_MARKER = 'EOF'
_RESERVED = {'(', ')', '[', ']', '{', '}', '=', '|', ':', '!', '&&', '||'}
_NAKED_OK = re.compile(r'[A-Za-z0-9_.]+\Z')


def quote(s, naked_ok=False):
    """A STRING token denoting exactly `s`.  Hard quotes whenever possible ("Any SYMBOL-REFERENCE appearing in the
    string is NOT substituted", and a backslash is an ordinary character)."""
    if naked_ok and _NAKED_OK.match(s) and s not in _RESERVED:
        return s
    if "'" not in s and '\n' not in s:
        return "'" + s + "'"
    if '"' not in s and '\\' not in s and '@[' not in s and '\n' not in s:
        return '"' + s + '"'
    raise ModelError('string not representable on one line with simple quoting: %r' % s)


def can_quote(s):
    try:
        quote(s)
        return True
    except ModelError:
        return False


def heredoc_ok(text):
    """A here-document denotes its lines, each ended by new-line ("Each LINE must end with new-line")."""
    if text != '' and not text.endswith('\n'):
        return False
    if '@[' in text:
        return False
    return all(c != HEREDOC_MARKER for c, _ in lines_of(text))


def eol_ok(text):
    """`:> TEXT-UNTIL-END-OF-LINE`: "Whitespace at both ends is removed", symbol references are substituted."""
    return text != '' and '\n' not in text and text == text.strip() and '@[' not in text


def str_ok(text):
    return '\n' not in text and can_quote(text)


class RenderEnv:
    """Supplies what a rendered expression needs from its surroundings: files for `-contents-of` (created by the
    harness in the home directory = default relativity of SOURCE-FILE-PATH) and a program that prints a given text
    on stdout."""

    def __init__(self, program_for_text=None, file_prefix='exp'):
        self.files = {}  # name -> text
        self._program_for_text = program_for_text
        self._prefix = file_prefix

    def file_for(self, text):
        name = '%s%d.txt' % (self._prefix, len(self.files))
        self.files[name] = text
        return ['-contents-of', '-rel-home', name]

    def program_for(self, text):
        """-> tokens of a PGM-AND-ARGS that writes `text` to stdout and exits 0"""
        if self._program_for_text is None:
            raise ModelError('this RenderEnv cannot render program sources')
        return list(self._program_for_text(text))


def _heredoc_tokens(text):
    # '<<EOF' NL line NL line NL 'EOF' NL
    toks = ['<<' + HEREDOC_MARKER, NL]
    for c, _ in lines_of(text):
        toks.append(('raw', c))
        toks.append(NL)
    toks.append(('raw', HEREDOC_MARKER))
    toks.append(NL)
    return toks


def text_source_tokens(src, env, style, tr_key='tr'):
    """Tokens of a TEXT-SOURCE: src = {'text':, 'kind':, 'tr':}."""
    kind, text, tr = src['kind'], src['text'], src.get(tr_key)
    if kind == 'str':
        toks = [quote(text, naked_ok=src.get('naked', False))]
    elif kind == 'eol':
        if not eol_ok(text) or tr is not None:
            raise ModelError('not representable as :> (or :> with a transformation): %r' % text)
        toks = [':>', ('raw', text), NL]
    elif kind == 'heredoc':
        if not heredoc_ok(text):
            raise ModelError('not representable as here-document: %r' % text)
        toks = _heredoc_tokens(text)
    elif kind == 'file':
        toks = env.file_for(text)
    elif kind == 'prog':
        # "An argument list continues until END-OF-LINE or an unquoted ")"" ; a transformation of a PROGRAM "Must
        # appear on a separate line" -> always parenthesised: ( -stdout-from PGM ARGS [NL -transformed-by T] )
        toks = ['(', '-stdout-from'] + env.program_for(text)
        if tr is not None:
            toks += [NL, '-transformed-by'] + _simple(tr, TEXT_TRANSFORMER, env, style)
        toks.append(')')
        return toks
    else:
        raise ModelError('unknown text source kind %r' % (kind,))
    if tr is not None:
        toks += ['-transformed-by'] + _simple(tr, TEXT_TRANSFORMER, env, style)
    return toks


def _regex_tokens(rx, icase):
    return (['-ignore-case'] if icase else []) + [quote(rx)]


def _is_infix(ast):
    return ast[0] in ('and', 'or', 'seq')


def has_infix_at_depth0(toks):
    """True if the token list has an infix operator (&&, ||, |) outside every pair of parentheses."""
    d = 0
    for t in toks:
        if t == '(':
            d += 1
        elif t == ')':
            d -= 1
        elif d == 0 and t in ('&&', '||', '|'):
            return True
    return False


def _simple(ast, kind, env, style):
    """Tokens of `ast` in a position where the syntax wants an expression without infix operators ("may not
    contain infix operators (unless inside parentheses)") - this includes infix operators of an argument that
    extends to the end of the expression, as the LINE-MATCHER of `filter`."""
    toks = _tokens(ast, kind, env, style)
    if has_infix_at_depth0(toks) or (style == 'full' and ast[0] == 'not'):
        return ['('] + toks + [')']
    if toks and toks[-1] == NL:
        # a here-document, `:> ...` or `-line-nums RANGE...` ends the line: shield what follows, so that the next
        # line starts with ")" (the only continuation after such a line break that is used here, see _operand)
        return ['('] + toks + [')']
    return toks


def _operand(toks, need_parens, is_last):
    """An operand of an infix operator.  An operand that ends its line (here-document etc.) and is followed by an
    operator is parenthesised: the manual is silent on line breaks, and the program does not accept an operator
    at the start of a line in every context."""
    if need_parens or (not is_last and toks and toks[-1] == NL):
        return ['('] + toks + [')']
    return toks


def _tokens(ast, kind, env, style):
    h = ast[0]
    # ---- shared logic ------------------------------------------------------------------------
    if h == 'const':
        return ['constant', 'true' if ast[1] else 'false']
    if h == 'not':
        x = ast[1]
        inner = _tokens(x, kind, env, style)
        if _is_infix(x) or style == 'full':
            return ['!', '('] + inner + [')']
        return ['!'] + inner
    if h in ('and', 'or'):
        op = '&&' if h == 'and' else '||'
        toks = []
        for i, x in enumerate(ast[1:]):
            if i:
                toks.append(op)
            xt = _tokens(x, kind, env, style)
            need = (style == 'full' and x[0] in ('and', 'or', 'not')) or \
                   (h == 'and' and x[0] == 'or') or (x[0] == h)
            toks += _operand(xt, need, i == len(ast) - 2)
        return toks
    # ---- integer matcher ---------------------------------------------------------------------
    if h == 'cmp':
        return [ast[1], str(ast[2])]
    # ---- line matcher ------------------------------------------------------------------------
    if h == 'l-contents':
        return ['contents'] + _simple(ast[1], TEXT_MATCHER, env, style)
    if h == 'l-num':
        return ['line-num'] + _simple(ast[1], INTEGER_MATCHER, env, style)
    # ---- text matcher ------------------------------------------------------------------------
    if h == 'is-empty':
        return ['is-empty']
    if h == 'equals':
        return ['==' if ast[1].get('alias') else 'equals'] + text_source_tokens(ast[1], env, style)
    if h == 'matches':
        return ['~' if ast[4] else 'matches'] + (['-full'] if ast[2] else []) + _regex_tokens(ast[1], ast[3])
    if h == 'num-lines':
        return ['num-lines'] + _simple(ast[1], INTEGER_MATCHER, env, style)
    if h in ('every', 'any'):
        return [h, 'line', ':'] + _simple(ast[1], LINE_MATCHER, env, style)
    if h == 'transformed':
        return ['-transformed-by'] + _simple(ast[1], TEXT_TRANSFORMER, env, style) + \
               _simple(ast[2], TEXT_MATCHER, env, style)
    # ---- text transformer --------------------------------------------------------------------
    if h == 'identity':
        return ['identity']
    if h == 'strip':
        return ['strip'] + ([] if ast[1] is None else ['-' + ast[1]])
    if h == 'char-case':
        return ['char-case', '-to-' + ast[1]]
    if h == 'filter':
        # The manual has no "may not contain infix operators" note for `filter LINE-MATCHER`, but the program
        # rejects `filter L1 || L2` (SYNTAX_ERROR; grammar is property C06's business) -> always a simple operand.
        return ['filter'] + _simple(ast[1], LINE_MATCHER, env, style)
    if h == 'filter-nums':
        toks = ['filter', '-line-nums']
        for r in ast[1]:
            if len(r) == 1:
                toks.append(str(r[0]))
            else:
                toks.append(('' if r[0] is None else str(r[0])) + ':' + ('' if r[1] is None else str(r[1])))
        return toks + [NL]
    if h == 'grep':
        return ['grep'] + (['-full'] if ast[2] else []) + _regex_tokens(ast[1], ast[3])
    if h == 'replace':
        toks = ['replace']
        if ast[5] is not None:
            toks += ['-at'] + _simple(ast[5], LINE_MATCHER, env, style)
        if ast[4]:
            toks.append('-preserve-new-lines')
        return toks + _regex_tokens(ast[1], ast[2]) + [quote(ast[3])]
    if h == 'seq':
        toks = []
        for i, t in enumerate(ast[1:]):
            if i:
                toks.append('|')
            tt = _tokens(t, TEXT_TRANSFORMER, env, style)
            # `filter LINE-MATCHER` inside a sequence: infix operators of the line matcher (&&, ||) are shielded
            need = t[0] == 'seq' or has_infix_at_depth0(tt)
            toks += _operand(tt, need, i == len(ast) - 2)
        return toks
    raise ModelError('cannot render %r' % (ast,))


def join_tokens(toks, indent='    '):
    """Tokens -> text.  NL tokens become line breaks (never two in a row, none at the very end); ('raw', s)
    tokens are lines of a here-document / rest-of-line strings and are emitted verbatim at the start of a line
    (here-document) or after a blank (:>)."""
    out = []
    at_line_start = True
    first = True
    prev_was_nl = False
    for t in toks:
        if t == NL:
            if not prev_was_nl:
                out.append('\n')
            prev_was_nl = True
            at_line_start = True
            continue
        prev_was_nl = False
        if isinstance(t, tuple):
            s = t[1]
            if at_line_start:
                out.append(s)  # here-document line: verbatim, no indent
            else:
                out.append(' ' + s)
            at_line_start = False
            first = False
            continue
        if at_line_start and not first:
            out.append(indent + t)
        elif first:
            out.append(t)
        else:
            out.append(' ' + t)
        at_line_start = False
        first = False
    s = ''.join(out)
    while s.endswith('\n'):
        s = s[:-1]
    return s


_KIND_BY_HEAD = {
    'cmp': INTEGER_MATCHER,
    'l-contents': LINE_MATCHER, 'l-num': LINE_MATCHER,
    'is-empty': TEXT_MATCHER, 'equals': TEXT_MATCHER, 'matches': TEXT_MATCHER, 'num-lines': TEXT_MATCHER,
    'every': TEXT_MATCHER, 'any': TEXT_MATCHER, 'transformed': TEXT_MATCHER,
    'identity': TEXT_TRANSFORMER, 'strip': TEXT_TRANSFORMER, 'char-case': TEXT_TRANSFORMER,
    'filter': TEXT_TRANSFORMER, 'filter-nums': TEXT_TRANSFORMER, 'grep': TEXT_TRANSFORMER,
    'replace': TEXT_TRANSFORMER, 'seq': TEXT_TRANSFORMER,
}


def kind_of(ast, default=TEXT_MATCHER):
    """The expression type of `ast`; `default` where only shared logic nodes over constants occur."""
    h = ast[0]
    if h in _KIND_BY_HEAD:
        return _KIND_BY_HEAD[h]
    if h in ('not', 'and', 'or'):
        for c in ast[1:]:
            k = kind_of(c, None)
            if k is not None:
                return k
    return default


def _line_break_before_infix_at_depth0(toks):
    d = 0
    after_nl = False
    for t in toks:
        if t == NL:
            after_nl = True
            continue
        if isinstance(t, tuple):
            continue  # here-document line / rest-of-line string
        if t == '(':
            d += 1
        elif t == ')':
            d -= 1
        elif d == 0 and after_nl and t in ('&&', '||', '|'):
            return True
        after_nl = False
    return False


def render_tokens(ast, kind=None, env=None, style='full', simple=False):
    """style 'full': every composite operand is parenthesised; 'min': parentheses only where the documented
    precedence (! > && > ||; arguments of every/any line, num-lines, line-num, -transformed-by, -at are simple
    expressions) needs them.  simple=True: render for a position that takes an expression without infix
    operators.
    Layout: a here-document, `:> ...` and `-line-nums ...` end their line, so an infix operator that follows
    starts a line.  The program accepts that inside parentheses only (outside, the instruction ends with the
    line) - the manual is silent on line breaks - so such an expression is parenthesised as a whole."""
    if env is None:
        env = RenderEnv()
    if kind is None:
        kind = kind_of(ast)
    toks = _simple(ast, kind, env, style) if simple else _tokens(ast, kind, env, style)
    if _line_break_before_infix_at_depth0(toks):
        toks = ['('] + toks + [')']
    return toks


def render(ast, kind=None, env=None, style='full', simple=False):
    return join_tokens(render_tokens(ast, kind, env, style, simple))
