"""Reference model of Exactly's PATH values, written from the reference manual
(`help syntax PATH`, `help concept "home directory structure"`, `help concept sandbox`,
`help concept "current directory"`, `help setup def|file|dir|copy|cd`, `help builtin`) -- NOT from the implementation.

A *path expression* is a JSON-able dict:

  {'form': 'opt',    'rel': R, 'sfx': SFX}      -rel-R SFX          R in REL_OPTION
  {'form': 'dflt',   'sfx': SFX}                SFX                 (default relativity of the argument)
  {'form': 'abs',    'root': K, 'sfx': SFX}     /abs-root(K)/SFX    (absolute FILE-NAME, no RELATIVITY)
  {'form': 'relsym', 'sym': N, 'sfx': SFX}      -rel N SFX
  {'form': 'lead',   'sym': N, 'sfx': SFX}      @[N]@/SFX
  {'form': 'plain',  'sym': N}                  @[N]@

  SFX = {'q': '' | 'soft' | 'hard', 'parts': [['c', text] | ['s', STRING-SYMBOL-NAME], ...], 'shape': label}

A *location* is (root key, relative posix path) ; root keys:
  'home' 'act-home' 'act' 'tmp' 'result'  (directories of the test case directory structure)
  'case' 'inc'                            (location of the source file holding a `-rel-here` definition)
  'abs:K'                                 (an absolute directory named by placeholder K)
"""

# --- hard-coded tables (manual) -------------------------------------------------------------------
REL_OPTION = {
    'home': '-rel-home',
    'act-home': '-rel-act-home',
    'act': '-rel-act',
    'tmp': '-rel-tmp',
    'result': '-rel-result',
    'cd': '-rel-cd',
    'here': '-rel-here',  # only in `def`
}
# `help builtin`: builtin path symbols and the directory each one denotes
BUILTIN_PATH_SYMBOLS = {
    'EXACTLY_HOME': 'home',
    'EXACTLY_ACT_HOME': 'act-home',
    'EXACTLY_ACT': 'act',
    'EXACTLY_TMP': 'tmp',
    'EXACTLY_RESULT': 'result',
}
# `help concept sandbox`: sub directories of the sandbox
SDS_SUBDIR = {'act': 'act', 'tmp': 'tmp', 'result': 'result'}

# `help setup file|dir|copy`: accepted relativities of a creating/modifying argument (default: current directory)
CREATION_ACCEPTED = ('act', 'tmp', 'cd')
# options that are a *syntax error* on a creating/modifying argument (-rel-here is "only available when defining a
# path symbol using the def instruction")
CREATION_OPTION_REJECTED = ('home', 'act-home', 'result', 'here')
# ultimate relativities for which a *symbol* is rejected by a creating/modifying argument
CREATION_SYMBOL_REJECTED = ('home', 'act-home', 'result', 'here', 'abs')
# `help syntax PROGRAM-ARGUMENT`: -existing-* PATH (default is home directory)
EXISTING_ACCEPTED = ('home', 'act-home', 'act', 'tmp', 'cd')

DEFAULT_RELATIVITY = {'def': 'cd', 'creation': 'cd', 'cd': 'cd', 'existing': 'home', 'copy-source': 'home'}

# string symbols every generated case defines first (name -> (source text of the value, value))
STRING_SYMBOLS = {
    'S1': ('sv1', 'sv1'),
    'S2': ('sub/sv2', 'sub/sv2'),
    'S3': ('"s p"', 's p'),
}

# --- suffix shapes ------------------------------------------------------------------------------------
SUFFIX_SHAPES = {
    'plain': {'q': '', 'parts': [['c', 'f1.txt']]},
    'nested': {'q': '', 'parts': [['c', 'd1/d2/f2']]},
    'dot': {'q': '', 'parts': [['c', '.']]},
    'sref': {'q': '', 'parts': [['s', 'S1']]},
    'mixed': {'q': '', 'parts': [['c', 'a-'], ['s', 'S1'], ['c', '-b/'], ['s', 'S3'], ['c', '.t']]},
    'sslash': {'q': '', 'parts': [['s', 'S2'], ['c', '/x']]},
    'softq': {'q': 'soft', 'parts': [['c', 'd q/'], ['s', 'S1'], ['c', ' x']]},
    'hardq': {'q': 'hard', 'parts': [['c', 'h@[S1]@/y z']]},
}
SHAPE_NAMES = list(SUFFIX_SHAPES)


def shape(name, tag=''):
    """A fresh copy of a suffix shape. `tag` makes file names distinct (prefixed to the first constant part or
    added as a leading constant directory)."""
    s = SUFFIX_SHAPES[name]
    parts = [list(p) for p in s['parts']]
    if tag and name != 'dot':
        if parts[0][0] == 'c':
            parts[0][1] = tag + parts[0][1]
        else:
            parts.insert(0, ['c', tag + '/'])
    return {'q': s['q'], 'parts': parts, 'shape': name}


# --- rendering to source text -----------------------------------------------------------------------
def sfx_inner_text(sfx):
    return ''.join(p[1] if p[0] == 'c' else '@[%s]@' % p[1] for p in sfx['parts'])


def _quote(q, inner):
    if q == 'soft':
        assert '"' not in inner
        return '"' + inner + '"'
    if q == 'hard':
        assert "'" not in inner
        return "'" + inner + "'"
    assert ' ' not in inner and inner != ''
    return inner


def render(expr, abs_roots=None):
    """Source text of a path expression.  abs_roots: placeholder -> absolute directory (for form 'abs')."""
    f = expr['form']
    if f == 'plain':
        return '@[%s]@' % expr['sym']
    sfx = expr['sfx']
    inner = sfx_inner_text(sfx)
    if f == 'opt':
        return '%s %s' % (REL_OPTION[expr['rel']], _quote(sfx['q'], inner))
    if f == 'dflt':
        return _quote(sfx['q'], inner)
    if f == 'abs':
        return _quote(sfx['q'], (abs_roots or {}).get(expr['root'], '$' + expr['root'] + '$') + '/' + inner)
    if f == 'relsym':
        return '-rel %s %s' % (expr['sym'], _quote(sfx['q'], inner))
    if f == 'lead':
        return _quote(sfx['q'], '@[%s]@/%s' % (expr['sym'], inner))
    raise ValueError(f)


# --- evaluation ----------------------------------------------------------------------------------------
def join(a, b):
    """Join two relative posix paths; '.' components and empty components vanish."""
    parts = [c for c in (a.split('/') + b.split('/')) if c not in ('', '.')]
    return '/'.join(parts)


def norm_abs(p):
    """Lexical normal form of an absolute path: no '.', no empty components (nothing else is touched)."""
    return '/' + '/'.join(c for c in p.split('/') if c not in ('', '.'))


class Model:
    """Symbol table + current directory of one generated test case."""

    def __init__(self):
        self.strings = {n: v[1] for n, v in STRING_SYMBOLS.items()}
        self.paths = {}  # name -> (expr, here_key)
        for n, rel in BUILTIN_PATH_SYMBOLS.items():
            self.paths[n] = ({'form': 'opt', 'rel': rel, 'sfx': {'q': '', 'parts': [['c', '.']]}}, 'case')
        self.cd = ('act', '')  # `help concept "current directory"`: initialised to act/

    def define(self, name, expr, here_key='case'):
        assert name not in self.paths and name not in self.strings
        self.paths[name] = (expr, here_key)

    def sfx_value(self, sfx):
        if sfx['q'] == 'hard':  # hard quotes: references are NOT substituted
            return ''.join(p[1] if p[0] == 'c' else '@[%s]@' % p[1] for p in sfx['parts'])
        return ''.join(p[1] if p[0] == 'c' else self.strings[p[1]] for p in sfx['parts'])

    def locate(self, expr, context='def', here_key='case'):
        """(root key, relative path) denoted by `expr` when it is USED now (current self.cd)."""
        f = expr['form']
        if f == 'plain':
            e, hk = self.paths[expr['sym']]
            return self.locate(e, 'def', hk)
        s = self.sfx_value(expr['sfx'])
        assert not s.startswith('/'), 'absolute suffix has no meaning defined by the manual'
        if f == 'lead' and expr['sfx']['q'] == 'hard':
            # inside hard quotes NO reference is substituted: a literal file name under the default relativity
            f, s = 'dflt', '@[%s]@/%s' % (expr['sym'], s)
        if f == 'opt' or f == 'dflt':
            rel = expr['rel'] if f == 'opt' else DEFAULT_RELATIVITY[context]
            if rel == 'cd':
                return self.cd[0], join(self.cd[1], s)
            if rel == 'here':
                return here_key, join('', s)
            return rel, join('', s)
        if f == 'abs':
            return 'abs:' + expr['root'], join('', s)
        if f in ('relsym', 'lead'):
            e, hk = self.paths[expr['sym']]
            root, r = self.locate(e, 'def', hk)
            return root, join(r, s)
        raise ValueError(f)

    def ultimate_relativity(self, expr, context='def'):
        """'home' | 'act-home' | 'act' | 'tmp' | 'result' | 'cd' | 'here' | 'abs' -- through any chain."""
        f = expr['form']
        if f == 'opt':
            return expr['rel']
        if f == 'dflt':
            return DEFAULT_RELATIVITY[context]
        if f == 'abs':
            return 'abs'
        if f == 'lead' and expr['sfx']['q'] == 'hard':  # not a reference at all (hard quotes)
            return DEFAULT_RELATIVITY[context]
        return self.ultimate_relativity(self.paths[expr['sym']][0], 'def')


def _ultimate_base(self, expr):
    """The expression at the end of the chain (form opt | dflt | abs)."""
    f = expr['form']
    if f in ('opt', 'dflt', 'abs') or (f == 'lead' and expr['sfx']['q'] == 'hard'):
        return expr
    return _ultimate_base(self, self.paths[expr['sym']][0])


Model.ultimate_base = _ultimate_base


def absolute(loc, roots):
    """roots: root key -> absolute directory."""
    root, r = loc
    base = roots[root]
    return norm_abs(base + '/' + r)
