"""Reference denotation of PROGRAM syntax and of the places where a program is run (C10).

Written from the reference manual only (`exactly help syntax PROGRAM | PROGRAM-ARGUMENT | STRING | LIST |
TEXT-SOURCE | TEXT-TRANSFORMER | TEXT-MATCHER | ACT-INTERPRETER`, `help actor ...`, `help setup stdin|run`,
`help assert run|exit-code|stdout`, `help concept sandbox directory structure`).  Nothing is imported from
exactly_lib.

Everything is a JSON-able AST (dicts / lists / strings) so that a case descriptor can be replayed.
Two independent functions exist per syntactic category:

  *_render(ast, R)   -> the source text (R = render context: paths of the record file / probe)
  Machine.*          -> the meaning: which OS processes are started with which argv / stdin / cwd, what they
                        answer (the probe does what its CTRL argument says), and what the test case's outcome is.

Manual facts encoded here (quotes abbreviated):
  PROGRAM' = PGM-AND-ARGS [STDIN] [TRANSFORMATION-OF-OUTPUT];  forms PROGRAM' | ( PROGRAM' )
  PGM-FOR-ARG-LIST = PATH | % STRING | @ SYMBOL-NAME | -python ;  $ SHELL-COMMAND-LINE = rest of line, "passed as a
  single string to the operating system's shell".
  "@ SYMBOL-NAME: Arguments, stdin and transformations are appended to the arguments, stdin and transformations of
  the referenced program."
  "-stdin ... Must appear on a separate line."  "-transformed-by ... Must appear on a separate line."
  PROGRAM-ARGUMENT: list symbol -> list of arguments; inside soft quotes -> elements separated by a single space;
  path symbol -> one argument, its absolute path; -existing-file|dir|path PATH -> one absolute path.
  command line actor: "the stdin of the OS process is the stdin defined for PROGRAM followed by the stdin set in the
  setup phase"; "the transformation is applied to stdout of the OS process"; default relativity act-home.
  file interpreter actor: "The file name and arguments are given as arguments to the ACT-INTERPRETER";
  ACT-INTERPRETER: "the path of the source code file is added as the last argument".
  source interpreter actor: "the name of this file is given as the last argument to the interpreter".
  null actor: "Exit code is unconditionally 0, and there is no output on neither stdout nor stderr".
  run (instruction): HARD_ERROR if exit code non-zero unless -ignore-exit-code; in [assert]: "PASS if the exit code is
  zero, or -ignore-exit-code is given. Otherwise FAIL."   %, $: the same without the option.
  -stdout-from|-stderr-from [-ignore-exit-code] PROGRAM: transformation applied to the chosen channel; HARD_ERROR if
  the exit code is non-zero unless -ignore-exit-code.
  transformer run: "If PROGRAM defines stdin, then the text to transform is appended to that stdin"; HARD_ERROR on
  non-zero exit unless -ignore-exit-code.
  text matcher run: "matches iff its exit code is 0. The text to match is given as stdin. If PROGRAM defines stdin,
  then the text to match is appended"; "Transformations of the output associated with PROGRAM are ignored".
  file matcher run: path of the file "as the last argument".
  exit-code -from PROGRAM: "Transformations of the output associated with PROGRAM are ignored."
  [cleanup]: "This phase is always executed"; after an error "execution has jumped directly ... to this phase".
  result/: files stderr, stdout, exit-code "with obvious contents".
"""
import os
import sys

from vf import probe as _probe

RESERVED_WORDS = ('(', ')', '[', ']', '{', '}', '=', '|', ':', '!', '&&', '||')

SRC_FILE = '<ACT-SOURCE-FILE>'  # placeholder: the file the source interpreter actor stores [act] in

REL_OPTS = ('-rel-home', '-rel-act-home', '-rel-act', '-rel-tmp', '-rel-cd')


class Hard(Exception):
    """The manual says HARD_ERROR."""


class Fail(Exception):
    """An assertion does not hold."""


class GeneratorBug(Exception):
    """The AST is outside what this model defines: a defect of the harness, never a verdict."""


# =====================================================================================================
# Render context
# =====================================================================================================
class R:
    def __init__(self, rec, probe_path=None, pyprobe_path=None):
        self.rec = rec
        self.probe = probe_path or _probe.PROBE
        self.pyprobe = pyprobe_path or os.path.join(os.path.dirname(os.path.abspath(_probe.__file__)),
                                                    'probe_fallback.py')


def ctrl_of(spec) -> str:
    return _probe.ctrl(id=spec['id'], rc=spec.get('rc', 0) or None, out=spec.get('out') or None,
                       err=spec.get('err') or None, stdin=True if spec.get('stdin') else None,
                       cat=True if spec.get('cat') else None)


def _parts_render(parts):
    return ''.join(p if isinstance(p, str) else '@[%s]@' % p['ref'] for p in parts)


# ---------------------------------------------------------------------------------------------------
# paths
# ---------------------------------------------------------------------------------------------------
def path_render(p, r) -> str:
    if 'abs' in p:
        return {'PROBE': r.probe, 'PYPROBE': r.pyprobe}.get(p['abs'], p['abs'])
    if 'sym' in p:
        if p.get('suffix'):
            return '-rel %s %s' % (p['sym'], p['suffix'])
        return '@[%s]@' % p['sym']
    if p.get('rel'):
        return '%s %s' % (p['rel'], p['name'])
    return p['name']


# ---------------------------------------------------------------------------------------------------
# tokens (PROGRAM-ARGUMENT / STRING)
# ---------------------------------------------------------------------------------------------------
def tok_render(t, r) -> str:
    k = t['t']
    if k == 'n':
        return t['s']
    if k == 'soft':
        return '"' + _parts_render(t['parts']) + '"'
    if k == 'hard':
        return "'" + t['s'] + "'"
    if k == 'ref':
        return '@[%s]@' % t['name']
    if k == 'cat':
        return _parts_render(t['parts'])
    if k == 'exist':
        return '-existing-%s %s' % (t['kind'], path_render(t['path'], r))
    if k == 'rest':
        return ':>' + t.get('lead', ' ') + _parts_render(t['parts']) + t.get('trail', '')
    if k == 'here':
        m = t.get('marker', 'EOF')
        return '<<%s\n%s%s' % (m, ''.join(_parts_render(l) + '\n' for l in t['lines']), m)
    if k == 'rec':
        return r.rec
    if k == 'ctrl':
        return ctrl_of(t['spec'])
    if k == 'pyprobe':
        return r.pyprobe
    if k == 'cont':
        return '\\\n        '
    raise GeneratorBug('token kind %r' % k)


def toks_render(toks, r) -> str:
    txt = ''
    for i, t in enumerate(toks):
        if i:
            txt += t.get('sep', ' ')  # layout: one or more blanks / tabs between list elements
        txt += tok_render(t, r)
    return txt


# ---------------------------------------------------------------------------------------------------
# programs
# ---------------------------------------------------------------------------------------------------
def _sh_word_render(w, r) -> str:
    """One word of a generated shell command line, quoted for /bin/sh."""
    if 'tok' in w:  # rec / ctrl / probe path
        return tok_render(w['tok'], r) if w['tok']['t'] != 'probe' else r.probe
    q = w.get('q', 'single')
    if 'ref' in w:
        s = '@[%s]@' % w['ref']
        return '"' + s + '"' if q == 'double' else s
    v = w['v']
    if q == 'naked':
        return v
    if q == 'double':
        return '"' + v + '"'
    if q == 'bs':
        return ''.join('\\' + c if not (c.isalnum() or c in '_-./') else c for c in v)
    return "'" + v + "'"


def sh_line_render(p, r) -> str:
    return (p.get('lead', '') + p.get('pre', '') + ' '.join(_sh_word_render(w, r) for w in p['words'])
            + p.get('post', '') + p.get('trail', ''))


def pgm_head_render(p, r) -> str:
    k = p['k']
    if k == 'exe':
        return path_render(p['path'], r)
    if k == 'sys':
        return '% ' + tok_render(p['name'], r)
    if k == 'py':
        return '-python'
    if k == 'ref':
        return '@ ' + p['name']
    raise GeneratorBug('program kind %r' % k)


def pgm_render(p, r, ind='    ') -> str:
    """Text of a PROGRAM starting at the current position; may span several lines; no final newline.
    The caller guarantees that nothing but a line break (or a `)` on a new line) follows."""
    if p['k'] == 'sh':
        line = '$ ' + sh_line_render(p, r)
    else:
        line = pgm_head_render(p, r)
        if p.get('args'):
            line += p.get('gap', ' ') + toks_render(p['args'], r)
    txt = line
    has_tr = p.get('tr') is not None
    if p.get('stdin') is not None:
        # a TEXT-SOURCE takes a following -transformed-by for itself: parenthesise it when the PROGRAM has one too
        txt += '\n' + ind + '-stdin ' + src_render(p['stdin'], r, ind + '    ', force_paren=has_tr)
    if has_tr:
        txt += '\n' + ind + '-transformed-by ' + tr_render(p['tr'], r, ind + '    ', last=True)
    if p.get('paren'):
        txt = '( ' + txt + '\n' + ind + ')'
    return txt


# ---------------------------------------------------------------------------------------------------
# text sources
# ---------------------------------------------------------------------------------------------------
def src_render(s, r, ind='    ', force_paren=False) -> str:
    k = s['k']
    tr = s.get('tr')
    multi = False
    if k == 'str':
        txt = tok_render(s['tok'], r)
    elif k == 'here':
        txt = tok_render({'t': 'here', 'marker': s.get('marker', 'EOF'), 'lines': s['lines']}, r)
        multi = True
    elif k == 'file':
        txt = '-contents-of ' + path_render(s['path'], r)
    elif k == 'pgm':
        txt = '-%s-from %s%s' % (s['chan'], '-ignore-exit-code ' if s.get('ignore') else '',
                                 pgm_render(s['pgm'], r, ind))
        multi = True
    elif k == 'symref':
        txt = '@[%s]@' % s['name']
    else:
        raise GeneratorBug('source kind %r' % k)
    if tr is not None:
        if k == 'pgm':
            raise GeneratorBug('a transformation after -stdout-from PROGRAM belongs to the program')
        if multi:
            txt += '\n' + ind + '-transformed-by ' + tr_render(tr, r, ind + '    ', last=True)
        else:
            txt += ' -transformed-by ' + tr_render(tr, r, ind + '    ', last=True)
    if force_paren or s.get('paren'):
        txt = '( ' + txt + '\n' + ind + ')'
    return txt


# ---------------------------------------------------------------------------------------------------
# transformers / matchers
# ---------------------------------------------------------------------------------------------------
def tr_render(t, r, ind='    ', last=False) -> str:
    k = t['k']
    if k == 'upper':
        return 'char-case -to-upper'
    if k == 'lower':
        return 'char-case -to-lower'
    if k == 'identity':
        return 'identity'
    if k == 'replace':
        return 'replace %s %s' % (t['a'], t['b'])
    if k == 'symref':
        return t['name']
    if k == 'seq':
        return '( ' + ' | '.join(tr_render(x, r, ind, last=False) for x in t['items']) + ' )'
    if k == 'run':
        txt = 'run %s%s' % ('-ignore-exit-code ' if t.get('ignore') else '', pgm_render(t['pgm'], r, ind))
        # the program's argument list runs to end of line: close the parenthesis on a new line
        return '( ' + txt + '\n' + ind + ')'
    raise GeneratorBug('transformer kind %r' % k)


def matcher_render(m, r, ind='    ') -> str:
    k = m['k']
    if k == 'is-empty':
        return 'is-empty'
    if k == 'equals':
        return 'equals ' + src_render(m['src'], r, ind)
    if k == 'not':
        return '! ' + matcher_render(m['m'], r, ind)
    if k == 'tr':
        return '-transformed-by %s %s' % (tr_render(m['tr'], r, ind), matcher_render(m['m'], r, ind))
    if k == 'run':
        return 'run ' + pgm_render(m['pgm'], r, ind)
    raise GeneratorBug('matcher kind %r' % k)


_INT_OPS = {'==': lambda a, b: a == b, '!=': lambda a, b: a != b, '<': lambda a, b: a < b,
            '<=': lambda a, b: a <= b, '>': lambda a, b: a > b, '>=': lambda a, b: a >= b}


# ---------------------------------------------------------------------------------------------------
# instructions / whole case
# ---------------------------------------------------------------------------------------------------
def instr_render(i, r) -> str:
    k = i['i']
    ind = '      '
    if k == 'def':
        ty = i['type']
        if ty == 'string':
            v = tok_render(i['tok'], r)
        elif ty == 'list':
            v = toks_render(i['toks'], r)
        elif ty == 'path':
            v = path_render(i['path'], r)
        elif ty == 'program':
            v = pgm_render(i['pgm'], r, ind)
        elif ty == 'text-source':
            v = src_render(i['src'], r, ind)
        elif ty == 'text-transformer':
            v = tr_render(i['tr'], r, ind, last=True)
        else:
            raise GeneratorBug(ty)
        return 'def %s %s = %s' % (ty, i['name'], v)
    if k == 'run':
        return 'run %s%s' % ('-ignore-exit-code ' if i.get('ignore') else '', pgm_render(i['pgm'], r, ind))
    if k in ('pct', 'shell'):
        return pgm_render(i['pgm'], r, ind)
    if k == 'helper':
        return '$ ' + _parts_render(i['parts'])
    if k == 'stdin':
        return 'stdin = ' + src_render(i['src'], r, ind)
    if k == 'file':
        return 'file %s = %s' % (path_render(i['path'], r), src_render(i['src'], r, ind))
    if k == 'dir':
        return 'dir ' + path_render(i['path'], r)
    if k == 'cd':
        return 'cd ' + path_render(i['path'], r)
    if k == 'exit-code':
        if i.get('pgm') is not None:
            return 'exit-code -from %s\n%s%s %d' % (pgm_render(i['pgm'], r, ind), ind, i['op'], i['n'])
        return 'exit-code %s %d' % (i['op'], i['n'])
    if k in ('stdout', 'stderr'):
        if i.get('pgm') is not None:
            return '%s -from %s\n%s%s' % (k, pgm_render(i['pgm'], r, ind), ind, matcher_render(i['m'], r, ind))
        return '%s %s' % (k, matcher_render(i['m'], r, ind))
    if k == 'contents':
        return 'contents %s : %s' % (path_render(i['path'], r), matcher_render(i['m'], r, ind))
    if k == 'exists':
        return 'exists %s : run %s' % (path_render(i['path'], r), pgm_render(i['pgm'], r, ind))
    raise GeneratorBug('instruction %r' % k)


def interp_render(a, r) -> str:
    k = a['k']
    if k == 'exe':
        head = path_render(a['path'], r)
    elif k == 'sys':
        head = '% ' + tok_render(a['name'], r)
    elif k == 'py':
        head = '-python'
    else:
        raise GeneratorBug(k)
    return head + (' ' + toks_render(a['args'], r) if a.get('args') else '')


def py_source_lines(spec, r):
    """Python source for `actor = source -python`: behaves as the probe with the given spec."""
    return ['import sys',
            '# the probe, as source code',
            'sys.argv[1:1] = [%r, %r]' % (r.rec, ctrl_of(spec)),
            'exec(compile(open(%r).read(), "pyprobe", "exec"))' % r.pyprobe]


def act_lines(case, r):
    act = case.get('act')
    if act is None:
        return None
    k = act['k']
    if k == 'pgm':
        pre = act.get('pre_lines', [])
        return pre + pgm_render(act['pgm'], r).split('\n') + act.get('post_lines', [])
    if k == 'file':
        return act.get('pre_lines', []) + [path_render(act['path'], r) +
                                           (' ' + toks_render(act['args'], r) if act.get('args') else '')]
    if k == 'source':
        if act.get('py'):
            return py_source_lines(act['spec'], r)
        return list(act['lines'])
    if k == 'null':
        return list(act['lines'])
    raise GeneratorBug(k)


def case_render(case, r) -> str:
    L = []
    actor = case.get('actor')
    if case.get('split_home'):
        L.append('[conf]')
        L.append('act-home = ' + ACT_HOME_DIR)
    if actor is not None and actor['k'] != 'cli-source':
        L.append('[conf]')
        if actor['k'] == 'command':
            L.append('actor = command')
        elif actor['k'] == 'null':
            L.append('actor = null')
        else:
            L.append('actor = %s %s' % (actor['k'], interp_render(actor['interp'], r)))
    for ph in ('setup',):
        if case.get(ph):
            L.append('[%s]' % ph)
            L.extend(instr_render(i, r) for i in case[ph])
    al = act_lines(case, r)
    if al is not None:
        L.append('[act]')
        L.extend(al)
    for ph in ('before-assert', 'assert', 'cleanup'):
        if case.get(ph):
            L.append('[%s]' % ph)
            L.extend(instr_render(i, r) for i in case[ph])
    return '\n'.join(L) + '\n'


def cli_actor_words(case, r):
    import shlex
    a = case['actor']
    return ' '.join(shlex.quote(tok_render(t, r) if t['t'] in ('rec', 'ctrl') else
                                (r.probe if t['t'] == 'probe' else t['s'])) for t in a['words'])


# =====================================================================================================
# Meaning
# =====================================================================================================
ACT_HOME_DIR = 'ah'  # name of the act-home directory (below the home directory) of cases with `act-home = ah`


def act_home_variant(text):
    """Contents of the act-home copy of a home text file: recognisably another text."""
    return 'ACT-HOME ' + text.upper()


class Dirs:
    def __init__(self, home, sds, act_home=None):
        self.home = home
        self.act_home = home if act_home is None else act_home  # [conf] act-home = DIR
        self.sds = sds
        self.act = os.path.join(sds, 'act')
        self.tmp = os.path.join(sds, 'tmp')
        self.result = os.path.join(sds, 'result')
        self.cwd = self.act

    def root(self, rel):
        return {'-rel-home': self.home, '-rel-act-home': self.act_home, '-rel-act': self.act,
                '-rel-tmp': self.tmp, '-rel-cd': self.cwd, '-rel-result': self.result}[rel]


class ProcResult:
    def __init__(self, rc, out, err):
        self.rc, self.out, self.err = rc, out, err


class Machine:
    """Reference interpreter.  `inv` collects the processes that must have been started."""

    def __init__(self, dirs: Dirs, r: R, home_files=None, emulate=()):
        # emulate: names of KNOWN defects of Exactly whose effect is to be reproduced (used only to decide whether a
        # violation is exactly the known finding; never for the verdict itself)
        self.emulate = tuple(emulate)
        self.d = dirs
        self.r = r
        self.syms = {
            'EXACTLY_HOME': {'type': 'path', 'abs': dirs.home},
            'EXACTLY_ACT_HOME': {'type': 'path', 'abs': dirs.act_home},
            'EXACTLY_ACT': {'type': 'path', 'abs': dirs.act},
            'EXACTLY_TMP': {'type': 'path', 'abs': dirs.tmp},
            'NEW_LINE': {'type': 'string', 'value': '\n'},
            'TAB': {'type': 'string', 'value': '\t'},
        }
        self.inv = []
        self.files = {}  # abs path -> text, written by `file`
        self.home_files = dict(home_files or {})  # name -> text
        self.act_stdin = None
        self.act_result = None
        self.act_source_text = None
        self.act_transformed = False
        self.phase = None
        self.where = None

    # -- symbols / strings ----------------------------------------------------------------------
    def _sym(self, name):
        if name not in self.syms:
            raise GeneratorBug('undefined symbol ' + name)
        return self.syms[name]

    def sym_str(self, name) -> str:
        s = self._sym(name)
        ty = s['type']
        if ty == 'string':
            return s['value']
        if ty == 'list':
            return ' '.join(s['value'])  # "A non-empty list is rendered by separating the elements with a single space"
        if ty == 'path':
            return self.sym_path(name)
        raise GeneratorBug('symbol %s of type %s used as string' % (name, ty))

    def sym_path(self, name) -> str:
        s = self._sym(name)
        if s['type'] != 'path':
            raise GeneratorBug('not a path: ' + name)
        if 'abs' in s:
            return s['abs']
        return self.path(s['path'], '-rel-cd')  # def path: default relativity is the current directory (when referenced)

    def parts(self, parts) -> str:
        return ''.join(p if isinstance(p, str) else self.sym_str(p['ref']) for p in parts)

    def path(self, p, default_rel) -> str:
        if 'abs' in p:
            return {'PROBE': self.r.probe, 'PYPROBE': self.r.pyprobe}.get(p['abs'], p['abs'])
        if 'sym' in p:
            base = self.sym_path(p['sym'])
            return os.path.join(base, p['suffix']) if p.get('suffix') else base
        return os.path.join(self.d.root(p.get('rel') or default_rel), p['name'])

    def tok_values(self, t) -> list:
        k = t['t']
        if k == 'n' or k == 'hard':
            return [t['s']]
        if k in ('soft', 'cat'):
            return [self.parts(t['parts'])]
        if k == 'ref':
            s = self._sym(t['name'])
            if s['type'] == 'list':
                return list(s['value'])  # "A list symbol gives a list of arguments"
            return [self.sym_str(t['name'])]
        if k == 'exist':
            return [self.path(t['path'], '-rel-home')]
        if k == 'rest':
            return [self.parts(t['parts']).strip()]  # "Whitespace at both ends is removed"
        if k == 'here':
            return [''.join(self.parts(l) + '\n' for l in t['lines'])]
        if k == 'rec':
            return [self.r.rec]
        if k == 'ctrl':
            return [ctrl_of(t['spec'])]
        if k == 'pyprobe':
            return [self.r.pyprobe]
        if k == 'cont':
            return []
        raise GeneratorBug('token kind %r' % k)

    def values(self, toks) -> list:
        out = []
        for t in toks or ():
            out.extend(self.tok_values(t))
        return out

    # -- programs -------------------------------------------------------------------------------
    def flat(self, p, exe_default_rel='-rel-home') -> dict:
        """-> {'kind', 'head': [argv0] | None, 'sh': {...} | None, 'args': [str], 'stdin': [src], 'trs': [tr], 'depth'}"""
        k = p['k']
        if k == 'ref':
            s = self._sym(p['name'])
            if s['type'] != 'program':
                raise GeneratorBug('not a program: ' + p['name'])
            f = self.flat(s['pgm'])  # a symbol's own path was resolved with the PROGRAM default (home)
            f = dict(f, args=list(f['args']), stdin=list(f['stdin']), trs=list(f['trs']), depth=f['depth'] + 1)
        elif k == 'sh':
            words = []
            for w in p['words']:
                if 'tok' in w:
                    words.append(self.r.probe if w['tok']['t'] == 'probe' else self.tok_values(w['tok'])[0])
                elif 'ref' in w:
                    v = self.sym_str(w['ref'])
                    if w.get('q') == 'double':
                        words.append(v)
                    else:
                        words.extend(v.split())  # naked in a shell line: the shell splits at blanks
                else:
                    words.append(w['v'])
            text = (p.get('lead', '') + p.get('pre', '')
                    + ' '.join(self._sh_word_text(w) for w in p['words']) + p.get('post', '') + p.get('trail', ''))
            f = {'kind': 'sh', 'head': None, 'sh': {'text': text, 'words': words, 'exit': p.get('exit')},
                 'args': [], 'stdin': [], 'trs': [], 'depth': 0}
        else:
            if k == 'exe':
                head = self.path(p['path'], exe_default_rel)
            elif k == 'sys':
                head = self.tok_values(p['name'])[0]
            elif k == 'py':
                head = sys.executable
            else:
                raise GeneratorBug(k)
            f = {'kind': k, 'head': head, 'sh': None, 'args': [], 'stdin': [], 'trs': [], 'depth': 0}
        if k != 'sh':
            f['args'] = f['args'] + self.values(p.get('args'))
        if p.get('stdin') is not None:
            f['stdin'] = f['stdin'] + [p['stdin']]
        if p.get('tr') is not None:
            f['trs'] = f['trs'] + [p['tr']]
        return f

    def _sh_word_text(self, w) -> str:
        """The word as it reaches the shell: as rendered, with symbol references substituted."""
        if 'ref' in w:
            v = self.sym_str(w['ref'])
            return '"' + v + '"' if w.get('q') == 'double' else v
        return _sh_word_render(w, self.r)

    def launch(self, where, f, stdin_text, extra_args=()) -> ProcResult:
        """Registers the expected OS process and answers what the probe answers."""
        extra = list(extra_args)
        if f['kind'] == 'sh':
            # arguments appended to a shell program symbol: plain words (generator), appended to the command line
            appended = f['args'] + extra
            words = f['sh']['words'] + appended
            m2 = {'shell': True, 'text': f['sh']['text'], 'appended': appended}
            argv0 = words[0]
            rest = words[1:]
        else:
            rest = f['args'] + extra
            argv0 = f['head']
            m2 = {'shell': False, 'args': [argv0] + rest}
        # locate the probe protocol: ... REC CTRL user-args
        if self.r.rec not in rest:
            raise GeneratorBug('no record file among the arguments of %s' % where)
        i = rest.index(self.r.rec)
        ctrl = rest[i + 1]
        user = rest[i + 2:]
        c = {}
        for tokn in ctrl.split(','):
            kk, _, vv = tokn.partition('=')
            c[kk] = vv
        reads = c.get('stdin') == '1' or c.get('cat') == '1'
        sin = stdin_text if stdin_text is not None else ''
        rec = {'id': c.get('id', ''), 'argv': user, 'stdin': sin.encode('utf-8') if reads else None,
               'cwd': self.d.cwd, 'm2': m2, 'where': where, 'kind': f['kind'], 'depth': f['depth'],
               'phase': self.phase, 'n_stdin': len(f['stdin']), 'n_trs': len(f['trs'])}
        self.inv.append(rec)
        out = (sin if c.get('cat') == '1' else '') + bytes.fromhex(c.get('out', '')).decode('utf-8')
        err = bytes.fromhex(c.get('err', '')).decode('utf-8', 'surrogateescape')
        rc = int(c.get('rc', '0'))
        if f['kind'] == 'sh' and f['sh']['exit'] is not None:
            rc = f['sh']['exit']
        return ProcResult(rc, out, err)

    def run_pgm(self, where, p, appended_stdin=None, extra_args=(), exe_default_rel='-rel-home', appended_raw=False):
        """-> (ProcResult (untransformed), [transformers])"""
        f = self.flat(p, exe_default_rel)
        parts = [(self.src_text(s), self.src_is_raw(s)) for s in f['stdin']]
        if appended_stdin is not None:
            parts.append((appended_stdin, appended_raw))
        if 'stdin-raw-part-first' in self.emulate:
            parts = [x for x in parts if x[1]] + [x for x in parts if not x[1]]
        stdin_text = ''.join(x[0] for x in parts) if parts else None
        res = self.launch(where, f, stdin_text, extra_args)
        self.inv[-1]['stdin_parts'] = [{'text': x[0], 'raw_program_output': x[1]} for x in parts]
        return res, f['trs']

    # -- classification used only by the known-finding predicate (stdin-raw-part-first) -----------------
    def src_is_raw(self, s) -> bool:
        """Is the text of this source written by a child process itself (raw program output)?"""
        if s.get('tr') is not None:
            return self.tr_is_raw(s['tr'])
        k = s['k']
        if k == 'pgm':
            f = self.flat(s['pgm'])
            if f['trs']:
                return self.tr_is_raw(f['trs'][-1])
            return s['chan'] == 'stdout' or bool(s.get('ignore'))
        if k == 'symref':
            sym = self._sym(s['name'])
            return sym['type'] == 'text-source' and self.src_is_raw(sym['src'])
        return False

    def tr_is_raw(self, t) -> bool:
        k = t['k']
        if k == 'run':
            f = self.flat(t['pgm'])
            return self.tr_is_raw(f['trs'][-1]) if f['trs'] else True
        if k == 'seq':
            return self.tr_is_raw(t['items'][-1])
        if k == 'symref':
            return self.tr_is_raw(self._sym(t['name'])['tr'])
        return False

    # -- text sources / transformers / matchers ---------------------------------------------------
    def src_text(self, s) -> str:
        k = s['k']
        if k == 'str':
            vs = self.tok_values(s['tok'])
            if len(vs) != 1:
                raise GeneratorBug('string source with %d values' % len(vs))
            txt = vs[0]
        elif k == 'here':
            txt = ''.join(self.parts(l) + '\n' for l in s['lines'])
        elif k == 'file':
            txt = self.file_text(self.path(s['path'], '-rel-home'))
        elif k == 'symref':
            sym = self._sym(s['name'])
            if sym['type'] == 'text-source':
                txt = self.src_text(sym['src'])
            else:
                txt = self.sym_str(s['name'])
        elif k == 'pgm':
            res, trs = self.run_pgm('src:%s-from' % s['chan'], s['pgm'])
            if res.rc != 0 and not s.get('ignore'):
                raise Hard('%s-from: exit code %d' % (s['chan'], res.rc))
            txt = res.out if s['chan'] == 'stdout' else res.err
            for t in trs:
                txt = self.tr_apply(t, txt)
            return txt
        else:
            raise GeneratorBug(k)
        if s.get('tr') is not None:
            txt = self.tr_apply(s['tr'], txt)
        return txt

    def file_text(self, abs_path) -> str:
        if abs_path in self.files:
            return self.files[abs_path]
        if self.d.act_home != self.d.home and os.path.dirname(abs_path) == self.d.act_home \
                and os.path.basename(abs_path) in self.home_files:
            return act_home_variant(self.home_files[os.path.basename(abs_path)])
        if os.path.dirname(abs_path) == self.d.home and os.path.basename(abs_path) in self.home_files:
            return self.home_files[os.path.basename(abs_path)]
        raise GeneratorBug('unknown file ' + abs_path)

    def tr_apply(self, t, txt) -> str:
        k = t['k']
        if k == 'upper':
            return txt.upper()
        if k == 'lower':
            return txt.lower()
        if k == 'identity':
            return txt
        if k == 'replace':
            return txt.replace(t['a'], t['b'])  # generator: a, b are plain alphanumerics (no regex meaning)
        if k == 'symref':
            sym = self._sym(t['name'])
            if sym['type'] != 'text-transformer':
                raise GeneratorBug('not a transformer')
            return self.tr_apply(sym['tr'], txt)
        if k == 'seq':
            for x in t['items']:
                txt = self.tr_apply(x, txt)
            return txt
        if k == 'run':
            res, trs = self.run_pgm('tr:run', t['pgm'], appended_stdin=txt)
            if res.rc != 0 and not t.get('ignore'):
                raise Hard('transformer run: exit code %d' % res.rc)
            out = res.out
            for x in trs:
                out = self.tr_apply(x, out)
            return out
        raise GeneratorBug(k)

    def matches(self, m, txt) -> bool:
        k = m['k']
        if k == 'is-empty':
            return txt == ''
        if k == 'equals':
            return txt == self.src_text(m['src'])
        if k == 'not':
            return not self.matches(m['m'], txt)
        if k == 'tr':
            return self.matches(m['m'], self.tr_apply(m['tr'], txt))
        if k == 'run':
            res, _ = self.run_pgm('m:run', m['pgm'], appended_stdin=txt)
            return res.rc == 0
        raise GeneratorBug(k)

    # -- instructions -------------------------------------------------------------------------------
    def _nonzero(self, res, ignore):
        if res.rc != 0 and not ignore:
            if self.phase == 'assert':
                raise Fail('exit code %d' % res.rc)
            raise Hard('exit code %d' % res.rc)

    def instr(self, i):
        k = i['i']
        ph = self.phase
        if k == 'def':
            ty = i['type']
            if ty == 'string':
                self.syms[i['name']] = {'type': 'string', 'value': self.tok_values(i['tok'])[0]}
            elif ty == 'list':
                self.syms[i['name']] = {'type': 'list', 'value': self.values(i['toks'])}
            elif ty == 'path':
                self.syms[i['name']] = {'type': 'path', 'path': i['path']}
            elif ty == 'program':
                self.syms[i['name']] = {'type': 'program', 'pgm': i['pgm']}
            elif ty == 'text-source':
                self.syms[i['name']] = {'type': 'text-source', 'src': i['src']}
            elif ty == 'text-transformer':
                self.syms[i['name']] = {'type': 'text-transformer', 'tr': i['tr']}
            else:
                raise GeneratorBug(ty)
        elif k == 'run':
            res, _ = self.run_pgm('%s:run' % ph, i['pgm'])
            self._nonzero(res, i.get('ignore'))
        elif k == 'pct':
            res, _ = self.run_pgm('%s:%%' % ph, i['pgm'])
            self._nonzero(res, False)
        elif k == 'shell':
            res, _ = self.run_pgm('%s:$' % ph, i['pgm'])
            self._nonzero(res, False)
        elif k == 'helper':
            self.inv.append({'id': None, 'm2': {'shell': True, 'text': self.parts(i['parts']), 'appended': []},
                             'where': 'helper', 'cwd': self.d.cwd, 'kind': 'helper', 'phase': ph, 'depth': 0})
        elif k == 'stdin':
            self.act_stdin = i['src']
        elif k == 'file':
            self.files[self.path(i['path'], '-rel-cd')] = self.src_text(i['src'])
        elif k == 'dir':
            pass
        elif k == 'cd':
            self.d.cwd = self.path(i['path'], '-rel-cd')
        elif k == 'exit-code':
            if i.get('pgm') is not None:
                res, _ = self.run_pgm('assert:exit-code-from', i['pgm'])
                v = res.rc
            else:
                v = self.act_result.rc
            if not _INT_OPS[i['op']](v, i['n']):
                raise Fail('exit-code %s %d on %d' % (i['op'], i['n'], v))
        elif k in ('stdout', 'stderr'):
            if i.get('pgm') is not None:
                res, trs = self.run_pgm('assert:%s-from' % k, i['pgm'])
                txt = res.out if k == 'stdout' else res.err
                for t in trs:
                    txt = self.tr_apply(t, txt)
            else:
                txt = self.act_result.out if k == 'stdout' else self.act_result.err
            if not self.matches(i['m'], txt):
                raise Fail(k)
        elif k == 'contents':
            if not self.matches(i['m'], self.file_text(self.path(i['path'], '-rel-cd'))):
                raise Fail('contents')
        elif k == 'exists':
            res, _ = self.run_pgm('fm:run', i['pgm'], extra_args=[self.path(i['path'], '-rel-cd')])
            if res.rc != 0:
                raise Fail('exists : run')
        else:
            raise GeneratorBug(k)

    # -- the action to check ---------------------------------------------------------------------
    def interp_argv(self, a) -> list:
        k = a['k']
        if k == 'exe':
            head = self.path(a['path'], '-rel-home')
        elif k == 'sys':
            head = self.tok_values(a['name'])[0]
        elif k == 'py':
            head = sys.executable
        else:
            raise GeneratorBug(k)
        return [head] + self.values(a.get('args'))

    def act(self, case):
        actor = case.get('actor') or {'k': 'command'}
        act = case.get('act')
        self.phase = 'act'
        ak = actor['k']
        if ak == 'null' or act is None or act['k'] == 'null':
            self.act_result = ProcResult(0, '', '')
            return
        setup_stdin = self.src_text(self.act_stdin) if self.act_stdin is not None else None
        if ak == 'command':
            res, trs = self.run_pgm('act:command', act['pgm'], appended_stdin=setup_stdin,
                                    exe_default_rel='-rel-act-home',
                                    appended_raw=self.act_stdin is not None and self.src_is_raw(self.act_stdin))
            out = res.out
            for t in trs:
                out = self.tr_apply(t, out)
            self.act_result = ProcResult(res.rc, out, res.err)
            self.act_transformed = bool(trs)
            return
        if ak == 'cli-source':
            argv = []
            for t in actor['words']:
                argv.append(self.r.probe if t['t'] == 'probe' else self.tok_values(t)[0])
        else:
            argv = self.interp_argv(actor['interp'])
        if ak == 'file':
            argv = argv + [self.path(act['path'], '-rel-act-home')] + self.values(act.get('args'))
            where = 'act:file'
        else:
            argv = argv + [SRC_FILE]
            where = 'act:source'
            self.act_source_text = '\n'.join(act_lines(case, self.r))
        f = {'kind': actor.get('interp', {}).get('k', 'exe'), 'head': argv[0], 'sh': None, 'args': argv[1:],
             'stdin': [], 'trs': [], 'depth': 0}
        if act.get('py') and ak in ('source', 'cli-source'):
            # python source: the source text itself carries REC / CTRL
            res = self._launch_py_source(where, f, act['spec'], setup_stdin)
        else:
            res = self.launch(where, f, setup_stdin)
        self.act_result = res
        self.act_transformed = False

    def _launch_py_source(self, where, f, spec, stdin_text) -> ProcResult:
        sin = stdin_text if stdin_text is not None else ''
        reads = bool(spec.get('stdin') or spec.get('cat'))
        self.inv.append({'id': spec['id'], 'argv': [], 'stdin': sin.encode('utf-8') if reads else None,
                         'cwd': self.d.cwd, 'm2': {'shell': False, 'args': [f['head']] + f['args']}, 'where': where,
                         'kind': 'py', 'depth': 0, 'phase': 'act', 'n_stdin': 0, 'n_trs': 0})
        return ProcResult(spec.get('rc', 0), (sin if spec.get('cat') else '') + spec.get('out', ''),
                          spec.get('err', ''))

    # -- whole case -------------------------------------------------------------------------------
    def execute(self, case, act_only=False) -> dict:
        """-> {'outcome': 'PASS'|'FAIL'|'HARD_ERROR', 'phase': failing phase | None, 'index': n | None,
               'act_executed': bool}"""
        outcome = {'outcome': 'PASS', 'phase': None, 'index': None, 'act_executed': False}

        def phase(name, instrs) -> bool:
            self.phase = name
            for n, i in enumerate(instrs or ()):
                try:
                    self.instr(i)
                except Hard:
                    outcome.update(outcome='HARD_ERROR', phase=name, index=n)
                    return False
                except Fail:
                    outcome.update(outcome='FAIL', phase=name, index=n)
                    return False
            return True

        ok = phase('setup', case.get('setup'))
        if ok:
            try:
                self.act(case)
                outcome['act_executed'] = True
            except Hard:
                outcome.update(outcome='HARD_ERROR', phase='act', index=0)
                ok = False
        # --act: "[before-assert] and [assert] are skipped"
        if ok and not act_only:
            ok = phase('before-assert', case.get('before-assert'))
        if ok and not act_only:
            ok = phase('assert', case.get('assert'))
        # "[cleanup] is always executed"
        saved = dict(outcome)
        if not phase('cleanup', case.get('cleanup')):
            if saved['outcome'] != 'PASS':
                if not self.emulate:
                    raise GeneratorBug('two failing points in one case')
                # only when a known defect is emulated (it may add a failure): which of the two is reported is not
                # stated in the manual, either is accepted
                outcome = dict(saved, also_acceptable=[outcome['outcome']])
        return outcome
