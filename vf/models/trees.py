"""Reference model for C15 (directory trees: populate from a FILE-LIST, match directory contents).

Written from the reference manual only -- `exactly help syntax FILES-SOURCE | FILES-MATCHER | FILE-MATCHER |
FILES-CONDITION | GLOB-PATTERN | REGEX | PATH`, `help setup dir`, `help assert dir-contents`, `help assert exists` --
never by calling exactly_lib.  No import of exactly_lib here.

Data structures (all JSON-able)
-------------------------------
tree node   {'t': 'd', 'c': {name: node}} | {'t': 'f', 's': text} | {'t': 'l', 'to': relative-target}
FILE-SPEC   ['file', NAME, None | ['=', TEXT] | ['+=', TEXT]]
            ['dir',  NAME, None | ['=', SRC]  | ['+=', SRC]]
SRC         ['list', [FILE-SPEC...]] | ['copy', 'home' | 'act', RELPATH]            (dir-contents-of)
FILES-MATCHER (FsM)
            ['empty'] | ['num', OP, N] | ['numrange', LO, HI] | ['matches', FULL, [[NAME, FM | None]...]]
            | ['every', FM] | ['any', FM] | ['sel', FM, FsM] | ['prune', FM, FsM]
            | ['const', B] | ['not', FsM] | ['and', [FsM...]] | ['or', [FsM...]]
FILE-MATCHER (FM)
            ['type', 'file'|'dir'|'symlink'] | [PART, 'glob'|'re'|'rei', PATTERN] (PART: name stem suffix suffixes path)
            | ['contents', TM] | ['dc', OPTS, FsM] | ['const', B] | ['not', FM] | ['and', [...]] | ['or', [...]]
OPTS        None (direct contents) | [MIN | None, MAX | None]   (-recursive [-min-depth MIN] [-max-depth MAX])
TEXT-MATCHER (TM)
            ['equals', S] | ['empty'] | ['not', TM]

Verdicts are four valued: True, False, HARD (the manual says HARD_ERROR), UNDEF (the manual leaves the result open,
e.g. a HARD_ERROR that is reached or not depending on an iteration order the manual does not fix, or a `path`
glob whose reading -- `*` crossing `/` or not, relative pattern -- the manual does not settle).  The generator drops
everything that evaluates to UNDEF.
"""
import copy
import re

HARD = 'HARD'
UNDEF = 'UNDEF'


# =====================================================================================================
# trees
# =====================================================================================================
def mk_dir(children=None):
    return {'t': 'd', 'c': dict(children or {})}


def mk_file(s=''):
    return {'t': 'f', 's': s}


def mk_link(to):
    return {'t': 'l', 'to': to}


def node_at(fs, comps):
    """Plain descent, no link following. None if absent."""
    cur = fs
    for c in comps:
        if cur is None or cur['t'] != 'd':
            return None
        cur = cur['c'].get(c)
    return cur


def _walk(fs, comps, follow_last):
    """-> (node | None, link budget exhausted?)"""
    cur = fs
    cur_path = []
    stack = list(reversed(list(comps)))
    budget = 40
    while stack:
        name = stack.pop()
        if name in ('', '.'):
            continue
        if cur['t'] != 'd':
            return None, False
        if name == '..':
            if not cur_path:
                return None, False  # would leave the modelled file system
            cur_path.pop()
            cur = node_at(fs, cur_path)
            continue
        child = cur['c'].get(name)
        if child is None:
            return None, False
        if child['t'] == 'l' and (stack or follow_last):
            budget -= 1
            if budget < 0:
                return None, True
            if child['to'].startswith('/'):
                return None, False
            stack.extend(reversed(child['to'].split('/')))
            continue
        cur = child
        cur_path.append(name)
    return cur, False


def resolve(fs, comps, follow_last=True):
    """The node that the path denotes (intermediate symlinks always followed; the last one iff follow_last).
    None if the path does not exist (dangling link, component of a regular file, loop, leaves the model)."""
    return _walk(fs, comps, follow_last)[0]


def canonical(fs, comps):
    """Canonical component list (all links resolved) of an existing path, else None."""
    cur_path = []
    stack = list(reversed(list(comps)))
    budget = 40
    while stack:
        name = stack.pop()
        if name in ('', '.'):
            continue
        cur = node_at(fs, cur_path)
        if cur is None or cur['t'] != 'd':
            return None
        if name == '..':
            if not cur_path:
                return None
            cur_path.pop()
            continue
        child = cur['c'].get(name)
        if child is None:
            return None
        if child['t'] == 'l':
            budget -= 1
            if budget < 0 or child['to'].startswith('/'):
                return None
            stack.extend(reversed(child['to'].split('/')))
            continue
        cur_path.append(name)
    return cur_path


def lexists(fs, comps):
    return resolve(fs, comps, follow_last=False) is not None


def is_dir(fs, comps):
    n = resolve(fs, comps, True)
    return n is not None and n['t'] == 'd'


def has_link_loop(fs):
    """True if some symlink resolves to a directory that is an ancestor-or-self of the link's own canonical location
    (following it recursively would never end).  The generators never emit such trees."""

    def walk(node, path):
        if node['t'] != 'd':
            return False
        for name, ch in node['c'].items():
            p = path + [name]
            if ch['t'] == 'l':
                if _walk(fs, p, True)[1]:
                    return True  # cycle of links (ELOOP)
                tgt = canonical(fs, p)
                if tgt is not None:
                    tn = node_at(fs, tgt)
                    if tn is not None and tn['t'] == 'd' and path[:len(tgt)] == tgt:
                        return True
            elif ch['t'] == 'd':
                if walk(ch, p):
                    return True
        return False

    return walk(fs, [])


def to_write_files(node, prefix=''):
    """-> dict for vf.driver.write_files"""
    out = {}
    for name, ch in node['c'].items():
        p = prefix + name
        if ch['t'] == 'd':
            out[p] = ('dir',)
            out.update(to_write_files(ch, p + '/'))
        elif ch['t'] == 'f':
            out[p] = ch['s']
        else:
            out[p] = ('symlink', ch['to'])
    return out


def flatten(node, prefix=''):
    """relpath -> ('d',) | ('f', text) | ('l', target)   (comparable with a disk snapshot)"""
    out = {}
    for name, ch in node['c'].items():
        p = prefix + name
        if ch['t'] == 'd':
            out[p] = ('d',)
            out.update(flatten(ch, p + '/'))
        elif ch['t'] == 'f':
            out[p] = ('f', ch['s'])
        else:
            out[p] = ('l', ch['to'])
    return out


# =====================================================================================================
# FILE-LIST / `dir` instruction   (help syntax FILES-SOURCE, help setup dir)
# =====================================================================================================
class HardError(Exception):
    """The manual's rule that is broken, and the path (components below the populated root) of the entry."""

    def __init__(self, rule, comps):
        Exception.__init__(self, rule)
        self.rule = rule
        self.comps = list(comps)


class Undefined(Exception):
    """The manual does not say what happens (generator must not emit this)."""


def name_defect(name):
    """'absolute' | 'dotdot' | None -- "A relative path ... Must not contain '..'" (as a path component)."""
    if name.startswith('/'):
        return 'absolute'
    if '..' in name.split('/'):
        return 'dotdot'
    return None


def _bad_layout(name):
    comps = name.split('/')
    return name == '' or any(c in ('', '.') for c in comps)


def apply_spec(root, base, spec, srcs):
    """Applies one FILE-SPEC to the directory node `root` (the populated directory); `base` = components of the
    populated directory relative to the outermost one (for error reporting only).
    srcs: {'home': dir-node, 'act': dir-node} for dir-contents-of.   Raises HardError / Undefined.
    Partial effects of entries before a failing one are kept ("created/modified in the order listed")."""
    kind, name, mod = spec[0], spec[1], spec[2]
    if name_defect(name) is not None or _bad_layout(name):
        raise Undefined('name ' + name)
    comps = name.split('/')
    full = list(base) + comps
    op = None if mod is None else mod[0]
    if op == '+=':
        # "The path must be an existing regular file" / "The path must be an existing directory"
        cur = root
        for c in comps:
            if cur['t'] != 'd':
                raise HardError(kind + '+=:missing', full)
            cur = cur['c'].get(c)
            if cur is None:
                raise HardError(kind + '+=:missing', full)
            if cur['t'] == 'l':
                raise Undefined('symlink in populated dir')
        if kind == 'file':
            if cur['t'] != 'f':
                raise HardError('file+=:not-a-regular-file', full)
            cur['s'] += mod[1]
        else:
            if cur['t'] != 'd':
                raise HardError('dir+=:not-a-directory', full)
            apply_source(cur, full, mod[1], srcs)
        return
    # creating forms: "The path must not exist"; "Intermediate directories are created, if required"
    cur = root
    for c in comps[:-1]:
        ch = cur['c'].get(c)
        if ch is None:
            ch = mk_dir()
            cur['c'][c] = ch
        elif ch['t'] == 'l':
            raise Undefined('symlink in populated dir')
        elif ch['t'] != 'd':
            raise HardError(kind + ':intermediate-not-a-directory', full)
        cur = ch
    last = comps[-1]
    if last in cur['c']:
        raise HardError(kind + ':exists', full)
    if kind == 'file':
        cur['c'][last] = mk_file('' if mod is None else mod[1])
    else:
        new = mk_dir()
        cur['c'][last] = new
        if mod is not None:
            apply_source(new, full, mod[1], srcs)


def apply_source(dirnode, base, src, srcs):
    if src[0] == 'list':
        for spec in src[1]:
            apply_spec(dirnode, base, spec, srcs)
    elif src[0] == 'copy':
        # "A copy of the contents of PATH (recursive). PATH must be an existing directory."
        s = node_at(srcs[src[1]], [c for c in src[2].split('/') if c not in ('', '.')])
        if s is None or s['t'] != 'd':
            raise Undefined('dir-contents-of source is not an existing directory (error class not documented)')
        if s is dirnode or _contains_node(s, dirnode):
            raise Undefined('copy into itself')
        if _has_links(s):
            raise Undefined('symlinks in dir-contents-of source')
        for name, ch in s['c'].items():
            if name in dirnode['c']:
                raise Undefined('dir-contents-of onto an existing name')
        for name, ch in s['c'].items():
            dirnode['c'][name] = copy.deepcopy(ch)
    else:
        raise ValueError(src[0])


def _contains_node(hay, needle):
    if hay is needle:
        return True
    if hay['t'] == 'd':
        return any(_contains_node(ch, needle) for ch in hay['c'].values())
    return False


def _has_links(node):
    if node['t'] == 'l':
        return True
    if node['t'] == 'd':
        return any(_has_links(ch) for ch in node['c'].values())
    return False


def run_dir_instructions(instrs, home):
    """instrs: [[REL, PATH, MOD]...] with REL in (None, '-rel-act', '-rel-cd', '-rel-tmp') -- the `dir`
    instruction of [setup], current directory = act directory.
    -> (sandbox {'act': node, 'tmp': node}, None | (index, HardError))       raises Undefined"""
    sb = {'act': mk_dir(), 'tmp': mk_dir()}
    for i, (rel, path, mod) in enumerate(instrs):
        root = sb['tmp'] if rel == '-rel-tmp' else sb['act']
        try:
            apply_spec(root, [], ['dir', path, mod], {'home': home, 'act': sb['act']})
        except HardError as ex:
            return sb, (i, ex)
    return sb, None


# ---- rendering -------------------------------------------------------------------------------------
_SAFE = re.compile(r'^[A-Za-z0-9_./@+-]+$')
_RESERVED = {'dir', 'file'}


def q(s):
    """A STRING token."""
    if s != '' and _SAFE.match(s) and s not in _RESERVED and not s.startswith('-') and '@[' not in s:
        return s
    assert "'" not in s and '\n' not in s, s
    return "'" + s + "'"


def qq(s):
    assert "'" not in s and '\n' not in s, s
    return "'" + s + "'"


def render_spec(spec, ind='  '):
    kind, name, mod = spec[0], spec[1], spec[2]
    head = '%s %s' % (kind, q(name))
    if mod is None:
        return [ind + head]
    op, arg = mod
    if kind == 'file':
        return [ind + '%s %s %s' % (head, op, qq(arg))]
    lines = render_source(arg, ind)
    return [ind + '%s %s %s' % (head, op, lines[0])] + lines[1:]


def render_source(src, ind=''):
    if src[0] == 'list':
        if not src[1]:
            return ['{ }']
        lines = ['{']
        for sp in src[1]:
            lines.extend(render_spec(sp, ind + '  '))
        lines.append(ind + '}')
        return lines
    if src[0] == 'copy':
        return ['dir-contents-of %s %s' % ('-rel-home' if src[1] == 'home' else '-rel-act', q(src[2]))]
    raise ValueError(src[0])


def render_dir_instruction(instr):
    rel, path, mod = instr
    head = 'dir ' + (rel + ' ' if rel else '') + q(path)
    if mod is None:
        return [head]
    lines = render_source(mod[1], '')
    return ['%s %s %s' % (head, mod[0], lines[0])] + lines[1:]


# =====================================================================================================
# glob patterns (help syntax GLOB-PATTERN)
# =====================================================================================================
def _glob_tokens(pat):
    toks = []
    i = 0
    n = len(pat)
    while i < n:
        c = pat[i]
        if c == '*':
            toks.append(('star',))
        elif c == '?':
            toks.append(('one',))
        elif c == '[':
            j = pat.find(']', i + 2)  # at least one character inside
            if j == -1:
                raise Undefined('unterminated [')
            body = pat[i + 1:j]
            neg = body.startswith('!')
            if neg:
                body = body[1:]
            items = []
            k = 0
            while k < len(body):
                if k + 2 < len(body) and body[k + 1] == '-':
                    items.append((body[k], body[k + 2]))
                    k += 3
                else:
                    items.append((body[k], body[k]))
                    k += 1
            toks.append(('set', neg, items))
            i = j
        else:
            toks.append(('lit', c))
        i += 1
    return toks


def _tok_match1(tok, ch):
    if tok[0] == 'one':
        return True
    if tok[0] == 'lit':
        return tok[1] == ch
    if tok[0] == 'set':
        hit = any(lo <= ch <= hi for lo, hi in tok[2])
        return hit != tok[1]
    raise ValueError(tok)


def glob_match(pat, s):
    """Whole-string match: `?` any single character, `*` any number of any characters, [..] [a-b] [!..]."""
    toks = _glob_tokens(pat)
    memo = {}

    def m(i, j):
        key = (i, j)
        if key in memo:
            return memo[key]
        if i == len(toks):
            r = j == len(s)
        elif toks[i][0] == 'star':
            r = m(i + 1, j) or (j < len(s) and m(i, j + 1))
        else:
            r = j < len(s) and _tok_match1(toks[i], s[j]) and m(i + 1, j + 1)
        memo[key] = r
        return r

    return m(0, 0)


def path_glob_match(pat, abs_path):
    """`path GLOB-PATTERN`: "Matches files who's absolute path matches the given pattern", "/ Directory separator".
    Three readings are possible (wildcards confined to one component; wildcards crossing `/` as in Python's fnmatch,
    which the manual links to; a relative pattern matched against the tail).  A verdict is given only where they
    agree."""
    pc = pat.split('/')
    sc = abs_path.split('/')
    by_component = len(pc) == len(sc) and all(glob_match(a, b) for a, b in zip(pc, sc))
    whole = glob_match(pat, abs_path)
    if pat.startswith('/'):
        tail = by_component
    else:
        tail = len(pc) <= len(sc) - 1 and all(glob_match(a, b) for a, b in zip(pc, sc[len(sc) - len(pc):]))
    if by_component == whole == tail:
        return whole
    return UNDEF


# name parts: table "File name parts" of help syntax FILE-MATCHER
def name_part(part, name):
    if part == 'name':
        return name
    i = name.find('.')
    if part == 'stem':
        return name if i == -1 else name[:i]
    if part == 'suffixes':
        return '' if i == -1 else name[i:]
    if part == 'suffix':
        j = name.rfind('.')
        return '' if j == -1 else name[j:]
    raise ValueError(part)


# =====================================================================================================
# matchers
# =====================================================================================================
def and3(values):
    """Lazy, left to right ("Operands are evaluated lazily, from left to right")."""
    for v in values:
        v = v()
        if v is not True:
            return v
    return True


def or3(values):
    for v in values:
        v = v()
        if v is not False:
            return v
    return False


def not3(v):
    if v is True:
        return False
    if v is False:
        return True
    return v


def _unordered_all(results):
    """Conjunction over elements whose evaluation order the manual does not fix."""
    results = list(results)
    if UNDEF in results:
        return UNDEF
    if HARD in results:
        return HARD if all(r is True for r in results if r != HARD) else UNDEF
    return all(results)


def _unordered_any(results):
    results = list(results)
    if UNDEF in results:
        return UNDEF
    if HARD in results:
        return HARD if all(r is False for r in results if r != HARD) else UNDEF
    return any(results)


_INT_OPS = {
    '==': lambda a, b: a == b, '!=': lambda a, b: a != b, '<': lambda a, b: a < b,
    '<=': lambda a, b: a <= b, '>': lambda a, b: a > b, '>=': lambda a, b: a >= b,
}


class World:
    """fs: root node of the modelled file system; abs_root: absolute path that the root has on disk."""

    def __init__(self, fs, abs_root):
        self.fs = fs
        self.abs_root = abs_root.rstrip('/')

    def abs_path(self, comps):
        return self.abs_root + ''.join('/' + c for c in comps)

    # ---- the set of files of a model -----------------------------------------------------------------
    def file_set(self, root_comps, opts, prunes, sels):
        """-> list of (relpath str, comps) | UNDEF.     root_comps must denote a directory (links followed).
        Depth 0 = direct contents.  Contents of a directory (or link to one) matched by ANY pruner is excluded;
        pruning is done before selection; selection = files matched by EVERY selector."""
        if opts is None:
            lo, hi, recursive = 0, 0, False
        else:
            lo = 0 if opts[0] is None else opts[0]
            hi = None if opts[1] is None else opts[1]
            recursive = True
        out = []
        undef = []

        def walk(dir_comps, rel, depth):
            node = resolve(self.fs, dir_comps, True)
            for name in sorted(node['c']):
                p = dir_comps + [name]
                r = rel + [name]
                if depth >= lo and (hi is None or depth <= hi):
                    out.append(('/'.join(r), p))
                if recursive and (hi is None or depth < hi) and is_dir(self.fs, p):
                    pruned = False
                    for pm in prunes:
                        v = self.fm(pm, p)
                        if v is True:
                            pruned = True
                            break
                        if v is not False:
                            undef.append(v)  # HARD inside a pruner: reached or not is not documented
                            pruned = True
                            break
                    if not pruned:
                        if depth > 12:
                            undef.append(UNDEF)
                            return
                        walk(p, r, depth + 1)

        walk(list(root_comps), [], 0)
        if undef:
            return UNDEF
        for sm in sels:
            kept = []
            for r, p in out:
                v = self.fm(sm, p)
                if v is True:
                    kept.append((r, p))
                elif v is not False:
                    return UNDEF
            out = kept
        return out

    # ---- FILES-MATCHER -----------------------------------------------------------------------------------
    def fsm(self, m, root_comps, opts, prunes=(), sels=()):
        k = m[0]
        if k == 'const':
            return bool(m[1])
        if k == 'not':
            return not3(self.fsm(m[1], root_comps, opts, prunes, sels))
        if k == 'and':
            return and3([(lambda x=x: self.fsm(x, root_comps, opts, prunes, sels)) for x in m[1]])
        if k == 'or':
            return or3([(lambda x=x: self.fsm(x, root_comps, opts, prunes, sels)) for x in m[1]])
        if k == 'sel':
            return self.fsm(m[2], root_comps, opts, prunes, tuple(sels) + (m[1],))
        if k == 'prune':
            return self.fsm(m[2], root_comps, opts, tuple(prunes) + (m[1],), sels)
        files = self.file_set(root_comps, opts, prunes, sels)
        if files == UNDEF:
            return UNDEF
        if k == 'empty':
            return len(files) == 0
        if k == 'num':
            return _INT_OPS[m[1]](len(files), m[2])
        if k == 'numrange':
            return m[1] <= len(files) <= m[2]
        if k == 'every':
            return _unordered_all(self.fm(m[1], p) for r, p in files)
        if k == 'any':
            return _unordered_any(self.fm(m[1], p) for r, p in files)
        if k == 'matches':
            full, conds = m[1], m[2]
            by_rel = dict(files)
            names = []
            for name, fmx in conds:
                if name not in names:
                    names.append(name)
            names_ok = all(n in by_rel for n in names)
            if full:
                names_ok = names_ok and len(by_rel) == len(names)
            results = []
            for n in names:
                if n not in by_rel:
                    continue
                ms = [fmx for name, fmx in conds if name == n and fmx is not None]
                # several matchers for one name are "combined using &&, in order of appearance"
                results.append(and3([(lambda x=x: self.fm(x, by_rel[n])) for x in ms]))
            if UNDEF in results:
                return UNDEF
            if HARD in results:
                return HARD if (names_ok and all(r is True for r in results if r != HARD)) else UNDEF
            return names_ok and all(results)
        raise ValueError(k)

    # ---- FILE-MATCHER ------------------------------------------------------------------------------------
    def fm(self, m, comps):
        """comps: the path of the (existing, links not followed) file, as components below the root"""
        k = m[0]
        if k == 'const':
            return bool(m[1])
        if k == 'not':
            return not3(self.fm(m[1], comps))
        if k == 'and':
            return and3([(lambda x=x: self.fm(x, comps)) for x in m[1]])
        if k == 'or':
            return or3([(lambda x=x: self.fm(x, comps)) for x in m[1]])
        if k == 'type':
            if m[1] == 'symlink':
                n = resolve(self.fs, comps, False)
                return n is not None and n['t'] == 'l'
            n = resolve(self.fs, comps, True)  # "Symbolic links are followed (unless TYPE is symlink)"
            return n is not None and n['t'] == {'file': 'f', 'dir': 'd'}[m[1]]
        if k in ('name', 'stem', 'suffix', 'suffixes'):
            s = name_part(k, comps[-1])
            return self._pattern(m[1], m[2], s, False)
        if k == 'path':
            return self._pattern(m[1], m[2], self.abs_path(comps), True)
        if k == 'contents':
            n = resolve(self.fs, comps, True)
            if n is None or n['t'] != 'f':
                return HARD  # "The result is HARD_ERROR for files [that] are not regular files"
            return self.tm(m[1], n['s'])
        if k == 'dc':
            n = resolve(self.fs, comps, True)
            if n is None or n['t'] != 'd':
                return HARD  # "The result is HARD_ERROR for files [that] are not directories"
            return self.fsm(m[2], list(comps), m[1])
        raise ValueError(k)

    @staticmethod
    def _pattern(kind, pat, s, is_path):
        if kind == 'glob':
            if is_path:
                return path_glob_match(pat, s)
            if '/' in pat:
                return UNDEF
            return glob_match(pat, s)
        # REGEX: the manual says "matches the given pattern" without saying whether the whole string must match;
        # only patterns anchored at both ends are given a verdict.
        if not (pat.startswith('^') and pat.endswith('$')):
            return UNDEF
        return re.search(pat, s, re.IGNORECASE if kind == 'rei' else 0) is not None

    @staticmethod
    def tm(m, text):
        k = m[0]
        if k == 'equals':
            return text == m[1]
        if k == 'empty':
            return text == ''
        if k == 'not':
            return not3(World.tm(m[1], text))
        raise ValueError(k)

    # ---- instructions ------------------------------------------------------------------------------------
    def instr_dir_contents(self, path_comps, opts, m):
        """`dir-contents PATH : [OPTS] FsM` -> 'PASS' | 'FAIL' | 'HARD_ERROR' | UNDEF"""
        if not is_dir(self.fs, path_comps):
            return 'HARD_ERROR'  # "The result is HARD_ERROR if PATH is not an existing directory"
        return _verdict(self.fsm(m, list(path_comps), opts))

    def instr_exists(self, path_comps, negated, m):
        """`exists [!] PATH [: FM]`.  "Symbolic links are not followed in the test of existence"."""
        if not lexists(self.fs, path_comps):
            return 'PASS' if negated else 'FAIL'
        v = True if m is None else self.fm(m, list(path_comps))
        if v in (HARD, UNDEF):
            return _verdict(v)
        return _verdict(v != negated)


def _verdict(v):
    if v is True:
        return 'PASS'
    if v is False:
        return 'FAIL'
    if v == HARD:
        return 'HARD_ERROR'
    return UNDEF


# ---- rendering -------------------------------------------------------------------------------------------
def _int(n):
    return str(n)


def render_tm(m):
    k = m[0]
    if k == 'equals':
        return 'equals ' + qq(m[1])
    if k == 'empty':
        return 'is-empty'
    if k == 'not':
        return '! ' + render_tm(m[1])
    raise ValueError(k)


def render_fm(m, ind=''):
    """-> list of lines (first line without indentation)"""
    k = m[0]
    if k == 'const':
        return ['constant ' + ('true' if m[1] else 'false')]
    if k == 'type':
        return ['type ' + m[1]]
    if k in ('name', 'stem', 'suffix', 'suffixes', 'path'):
        if m[1] == 'glob':
            return ['%s %s' % (k, q(m[2]))]
        return ['%s ~ %s%s' % (k, '-ignore-case ' if m[1] == 'rei' else '', qq(m[2]))]
    if k == 'contents':
        return ['contents ' + render_tm(m[1])]
    if k == 'dc':
        o = render_opts(m[1])
        inner = atom_fsm(m[2], ind)
        return ['dir-contents ' + (o + ' ' if o else '') + inner[0]] + inner[1:]
    if k == 'not':
        inner = atom_fm(m[1], ind)
        return ['! ' + inner[0]] + inner[1:]
    if k in ('and', 'or'):
        op = ' && ' if k == 'and' else ' || '
        lines = ['']
        for i, x in enumerate(m[1]):
            part = render_fm(x, ind)
            if x[0] in ('and', 'or'):
                part = paren(part, ind)
            elif x[0] in ('dc', 'contents', 'not') and i < len(m[1]) - 1:
                # keep an operand whose own argument is an open-ended expression unambiguous
                part = paren(part, ind)
            lines[-1] += ('' if i == 0 else op) + part[0]
            lines.extend(part[1:])
        return lines
    raise ValueError(k)


def paren(lines, ind=''):
    if len(lines) == 1:
        return ['( ' + lines[0] + ' )']
    return ['( ' + lines[0]] + lines[1:-1] + [lines[-1] + ' )']


def atom_fm(m, ind=''):
    """A FILE-MATCHER in a position where it "may not contain infix operators (unless inside parentheses)"."""
    lines = render_fm(m, ind)
    if m[0] in ('and', 'or'):
        return paren(lines, ind)
    return lines


def render_opts(opts):
    if opts is None:
        return ''
    s = '-recursive'
    if opts[0] is not None:
        s += ' -min-depth ' + _int(opts[0])
    if opts[1] is not None:
        s += ' -max-depth ' + _int(opts[1])
    return s


def render_fsm(m, ind=''):
    k = m[0]
    if k == 'const':
        return ['constant ' + ('true' if m[1] else 'false')]
    if k == 'empty':
        return ['is-empty']
    if k == 'num':
        return ['num-files %s %s' % (m[1], _int(m[2]))]
    if k == 'numrange':
        return ['num-files ( >= %s && <= %s )' % (_int(m[1]), _int(m[2]))]
    if k == 'matches':
        head = 'matches ' + ('-full ' if m[1] else '')
        if not m[2]:
            return [head + '{ }']
        lines = [head + '{']
        ind2 = ind + '    '
        for name, fmx in m[2]:
            if fmx is None:
                lines.append(ind2 + q(name))
            else:
                fl = render_fm(fmx, ind2)
                lines.append(ind2 + q(name) + ' : ' + fl[0])
                lines.extend(fl[1:])
        lines.append(ind + '}')
        return lines
    if k in ('every', 'any'):
        inner = atom_fm(m[1], ind)
        return ['%s file : %s' % (k, inner[0])] + inner[1:]
    if k in ('sel', 'prune'):
        a = atom_fm(m[1], ind)
        if m[1][0] in ('dc', 'contents', 'not'):
            a = paren(a, ind)
        b = atom_fsm(m[2], ind)
        head = '-selection ' if k == 'sel' else '-with-pruned '
        lines = [head + a[0]] + a[1:]
        lines[-1] += ' ' + b[0]
        return lines + b[1:]
    if k == 'not':
        inner = paren(render_fsm(m[1], ind), ind)
        return ['! ' + inner[0]] + inner[1:]
    if k in ('and', 'or'):
        op = ' && ' if k == 'and' else ' || '
        lines = ['']
        for i, x in enumerate(m[1]):
            part = render_fsm(x, ind)
            if x[0] not in ('empty', 'num', 'const'):
                part = paren(part, ind)
            lines[-1] += ('' if i == 0 else op) + part[0]
            lines.extend(part[1:])
        return lines
    raise ValueError(k)


def atom_fsm(m, ind=''):
    lines = render_fsm(m, ind)
    if m[0] in ('and', 'or'):
        return paren(lines, ind)
    return lines


def render_dir_contents(path_text, opts, m):
    o = render_opts(opts)
    body = render_fsm(m, '')
    return ['dir-contents %s : %s%s' % (path_text, o + ' ' if o else '', body[0])] + body[1:]


def render_exists(path_text, negated, m):
    head = 'exists %s%s' % ('! ' if negated else '', path_text)
    if m is None:
        return [head]
    body = render_fm(m, '')
    return [head + ' : ' + body[0]] + body[1:]
