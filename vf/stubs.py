"""D2: stub instructions and a stub actor run through the public executor API
(exactly_lib.execution.full_execution.execution.execute).  Every stub method appends an event BEFORE acting,
then acts according to a fault plan.  Imported only in worker processes."""
import os
import pathlib
import tempfile

from vf import common

common.put_repo_first_on_path()

from exactly_lib.execution.configuration import ExecutionConfiguration  # noqa: E402
from exactly_lib.execution.full_execution import execution as full_execution  # noqa: E402
from exactly_lib.execution.predefined_properties import os_environ_getter  # noqa: E402
from exactly_lib.impls.os_services import os_services_access  # noqa: E402
from exactly_lib.section_document import model  # noqa: E402
from exactly_lib.section_document.source_location import SourceLocationInfo, SourceLocation, \
    source_location_path_without_inclusions  # noqa: E402
from exactly_lib.symbol.sdv_structure import SymbolReference, SymbolDefinition, SymbolContainer, \
    SymbolDependentValue  # noqa: E402
from exactly_lib.symbol.value_type import ValueType  # noqa: E402
from exactly_lib.type_val_deps.sym_ref.restrictions import ValueTypeRestriction  # noqa: E402
from exactly_lib.test_case import test_case_doc  # noqa: E402
from exactly_lib.test_case.hard_error import HardErrorException  # noqa: E402
from exactly_lib.test_case.phases.act.actor import Actor, ActionToCheck, ParseException  # noqa: E402
from exactly_lib.test_case.phases.act.adv_w_validation import AdvWValidation  # noqa: E402
from exactly_lib.test_case.phases.act.instruction import ActPhaseInstruction  # noqa: E402
from exactly_lib.test_case.phases.assert_ import AssertPhaseInstruction  # noqa: E402
from exactly_lib.test_case.phases.before_assert import BeforeAssertPhaseInstruction  # noqa: E402
from exactly_lib.test_case.phases.cleanup import CleanupPhaseInstruction  # noqa: E402
from exactly_lib.test_case.phases.configuration import ConfigurationPhaseInstruction, ConfigurationBuilder  # noqa
from exactly_lib.test_case.phases.setup.instruction import SetupPhaseInstruction  # noqa: E402
from exactly_lib.test_case.result import sh, svh, pfh, eh  # noqa: E402
from exactly_lib.test_case.result.failure_details import FailureDetails  # noqa: E402
from exactly_lib.test_case.test_case_status import TestCaseStatus  # noqa: E402
from exactly_lib.type_val_deps.sym_ref.w_str_rend_restrictions import reference_restrictions  # noqa: E402
from exactly_lib.common.report_rendering import text_docs  # noqa: E402
from exactly_lib.util.file_utils.std import StdOutputFiles  # noqa: E402
from exactly_lib.util.line_source import LineSequence  # noqa: E402
from exactly_lib.util.name_and_value import NameAndValue  # noqa: E402

from vf.stubs_kinds import *  # noqa: E402,F401,F403
from vf.stubs_kinds import PHASES, VALIDATION, HARD_RET, HARD_RAISE, FAIL, EXC, SYNTAX, UNDEF, UNDEF_IN_DEF, \
    DUP_DEF, WRONG_TYPE  # noqa


class StubError(Exception):
    """The 'arbitrary exception' of the fault plan."""


def _txt(s):
    return text_docs.single_pre_formatted_line_object(s)


class Recorder:
    """Event log of one execution + the fault plan."""

    def __init__(self, plan, scratch_root, on_event=None, act_output=('', ''), act_exit_code=0):
        self.plan = plan  # {(phase, step, index): kind}
        self.events = []
        self.sandbox_roots = []
        self.scratch_root = scratch_root
        self.on_event = on_event
        self.act_output = act_output
        self.act_exit_code = act_exit_code

    def sandbox_resolver(self):
        d = tempfile.mkdtemp(prefix='sds-', dir=self.scratch_root)
        self.sandbox_roots.append(d)
        return d

    def event(self, phase, index, step, env=None, extra=None):
        try:
            cwd = os.getcwd()
        except OSError:
            cwd = None
        sds_root = None
        if env is not None and hasattr(env, 'sds'):
            try:
                sds_root = str(env.sds.root_dir)
            except Exception:
                sds_root = None
        ev = {'seq': len(self.events), 'phase': phase, 'index': index, 'step': step, 'cwd': cwd,
              'n_sandboxes': len(self.sandbox_roots),
              'sandbox_exists': bool(self.sandbox_roots) and os.path.isdir(self.sandbox_roots[-1]),
              'sds_root': sds_root}
        if extra:
            ev.update(extra)
        self.events.append(ev)
        if self.on_event is not None:
            self.on_event(ev, env, self)
        return self.plan.get((phase, step, index))


# ------------------------------------------------------------------------------------------------
def _svh(kind, where):
    if kind is None:
        return svh.new_svh_success()
    if kind == VALIDATION:
        return svh.new_svh_validation_error__str('stub validation error ' + where)
    if kind == HARD_RET:
        return svh.new_svh_hard_error__str('stub hard error ' + where)
    if kind == HARD_RAISE:
        raise HardErrorException(_txt('stub raised hard error ' + where))
    if kind == EXC:
        raise StubError('stub exception ' + where)
    raise ValueError(kind)


def _sh(kind, where):
    if kind is None:
        return sh.new_sh_success()
    if kind == HARD_RET:
        return sh.new_sh_hard_error__str('stub hard error ' + where)
    if kind == HARD_RAISE:
        raise HardErrorException(_txt('stub raised hard error ' + where))
    if kind == EXC:
        raise StubError('stub exception ' + where)
    raise ValueError(kind)


def _pfh(kind, where):
    if kind is None:
        return pfh.new_pfh_pass()
    if kind == FAIL:
        return pfh.new_pfh_fail__str('stub assertion failure ' + where)
    if kind == HARD_RET:
        return pfh.new_pfh_hard_error__str('stub hard error ' + where)
    if kind == HARD_RAISE:
        raise HardErrorException(_txt('stub raised hard error ' + where))
    if kind == EXC:
        raise StubError('stub exception ' + where)
    raise ValueError(kind)


class _StubSdv(SymbolDependentValue):
    def __init__(self, references=()):
        self._references = list(references)

    @property
    def references(self):
        return self._references

    def resolve(self, symbols):
        return 'value'


def _definition(name, references=()):
    return SymbolDefinition(name, SymbolContainer(_StubSdv(references), ValueType.STRING, None))


def _symbols(kind, where):
    if kind is None:
        return []
    ident = where.replace('/', '_').replace('-', '_')
    if kind == UNDEF_IN_DEF:
        return [_definition('DEFINED_' + ident,
                            [SymbolReference('UNDEFINED_SYMBOL_' + ident, ValueTypeRestriction.of_single(ValueType.STRING))])]
    if kind == DUP_DEF:
        return [_definition('TWICE_' + ident), _definition('TWICE_' + ident)]
    if kind == WRONG_TYPE:
        return [_definition('A_STRING_' + ident),
                SymbolReference('A_STRING_' + ident, ValueTypeRestriction.of_single(ValueType.PATH))]
    if kind == UNDEF:
        return [SymbolReference('UNDEFINED_SYMBOL_' + where.replace('/', '_').replace('-', '_'),
                                reference_restrictions.is_any_type_w_str_rendering())]
    if kind == EXC:
        raise StubError('stub exception ' + where)
    raise ValueError(kind)


class _Base:
    def __init__(self, rec: Recorder, phase: str, index: int):
        self.rec = rec
        self.phase = phase
        self.index = index

    def _w(self, step):
        return '%s/%s/%d' % (self.phase, step, self.index)

    def symbol_usages(self):
        k = self.rec.event(self.phase, self.index, 'symbols')
        return _symbols(k, self._w('symbols'))

    def validate_pre_sds(self, environment):
        k = self.rec.event(self.phase, self.index, 'pre_sds', environment)
        return _svh(k, self._w('pre_sds'))

    def validate_post_setup(self, environment):
        k = self.rec.event(self.phase, self.index, 'post_setup', environment)
        return _svh(k, self._w('post_setup'))


class FailingStdin(AdvWValidation):
    def __init__(self, rec, kind):
        self.rec = rec
        self.kind = kind

    def validate(self):
        k = self.rec.event('act', 0, 'exe_input')
        if k is None:
            return None
        if k == HARD_RET:
            return _txt('stub: invalid stdin')
        raise StubError('stub exception act/exe_input')

    def resolve(self, environment):
        return None


class SetupStub(_Base, SetupPhaseInstruction):
    def main(self, environment, settings, os_services, settings_builder):
        k = self.rec.event(self.phase, self.index, 'main', environment)
        if self.index == 0:
            settings_builder.stdin = FailingStdin(self.rec, self.rec.plan.get(('act', 'exe_input', 0)))
        return _sh(k, self._w('main'))


class BeforeAssertStub(_Base, BeforeAssertPhaseInstruction):
    def main(self, environment, settings, os_services):
        k = self.rec.event(self.phase, self.index, 'main', environment)
        return _sh(k, self._w('main'))


class AssertStub(_Base, AssertPhaseInstruction):
    def main(self, environment, settings, os_services):
        k = self.rec.event(self.phase, self.index, 'main', environment)
        return _pfh(k, self._w('main'))


class CleanupStub(_Base, CleanupPhaseInstruction):
    def main(self, environment, settings, os_services, previous_phase):
        k = self.rec.event(self.phase, self.index, 'main', environment,
                           {'previous_phase': getattr(previous_phase, 'name', repr(previous_phase))})
        return _sh(k, self._w('main'))


class ConfStub(ConfigurationPhaseInstruction):
    def __init__(self, rec, index, set_status=None):
        self.rec = rec
        self.index = index
        self.set_status = set_status

    def main(self, configuration_builder):
        k = self.rec.event('conf', self.index, 'main')
        if self.set_status is not None:
            configuration_builder.set_test_case_status(TestCaseStatus[self.set_status])
        return _svh(k, 'conf/main/%d' % self.index)


class ActSourceStub(ActPhaseInstruction):
    def __init__(self, text):
        self.text = text

    def source_code(self):
        return LineSequence(1, (self.text,))


class AtcStub(ActionToCheck):
    def __init__(self, rec):
        self.rec = rec

    def symbol_usages(self):
        k = self.rec.event('act', 0, 'symbols')
        return _symbols(k, 'act/symbols/0')

    def validate_pre_sds(self, environment):
        k = self.rec.event('act', 0, 'pre_sds', environment)
        return _svh(k, 'act/pre_sds/0')

    def validate_post_setup(self, environment):
        k = self.rec.event('act', 0, 'post_setup', environment)
        return _svh(k, 'act/post_setup/0')

    def prepare(self, environment, os_services):
        k = self.rec.event('act', 0, 'prepare', environment)
        return _sh(k, 'act/prepare/0')

    def execute(self, environment, os_services, atc_input, output_files):
        k = self.rec.event('act', 0, 'execute', environment)
        if k is None:
            out, err = self.rec.act_output
            if out:
                output_files.out.write(out)
            if err:
                output_files.err.write(err)
            return eh.new_eh_exit_code(self.rec.act_exit_code)
        if k == HARD_RET:
            return eh.new_eh_hard_error(FailureDetails.new_constant_message('stub hard error act/execute'))
        if k == HARD_RAISE:
            raise HardErrorException(_txt('stub raised hard error act/execute'))
        raise StubError('stub exception act/execute')


class ActorStub(Actor):
    def __init__(self, rec):
        self.rec = rec

    def parse(self, instructions):
        k = self.rec.event('act', 0, 'parse')
        if k == SYNTAX:
            raise ParseException.of_str('stub act syntax error')
        if k == EXC:
            raise StubError('stub exception act/parse')
        return AtcStub(self.rec)


# ------------------------------------------------------------------------------------------------
def _element(instr, phase, index, file_path):
    loc = SourceLocation(LineSequence(10 * PHASES.index(phase) + index + 1, ('%s-instruction-%d' % (phase, index),)),
                         file_path)
    sli = SourceLocationInfo(file_path.parent, source_location_path_without_inclusions(loc))
    return model.SectionContentElement(model.ElementType.INSTRUCTION, model.InstructionInfo(instr, None), sli)


def _comment(phase, file_path):
    loc = SourceLocation(LineSequence(99, ('# comment',)), file_path)
    sli = SourceLocationInfo(file_path.parent, source_location_path_without_inclusions(loc))
    return model.SectionContentElement(model.ElementType.COMMENT, None, sli)


def build_test_case(rec: Recorder, counts: dict, conf_status=None, with_comments=False) -> test_case_doc.TestCase:
    """counts: phase -> number of stub instructions (conf, setup, before-assert, assert, cleanup)."""
    fp = pathlib.Path(rec.scratch_root) / 'stub.case'
    cls = {'setup': SetupStub, 'before-assert': BeforeAssertStub, 'assert': AssertStub, 'cleanup': CleanupStub}

    def section(phase):
        els = []
        for i in range(counts.get(phase, 0)):
            if with_comments:
                els.append(_comment(phase, fp))
            if phase == 'conf':
                # the LAST conf instruction sets the status (so that a failing earlier one is observable)
                st = conf_status if i == counts['conf'] - 1 else None
                instr = ConfStub(rec, i, st)
            else:
                instr = cls[phase](rec, phase, i)
            els.append(_element(instr, phase, i, fp))
        return model.SectionContents(tuple(els))

    act = model.SectionContents((_element(ActSourceStub('act source line'), 'act', 0, fp),))
    return test_case_doc.TestCase(section('conf'), section('setup'), act, section('before-assert'),
                                  section('assert'), section('cleanup'))


def execute(rec: Recorder, tc: test_case_doc.TestCase, is_keep_sandbox=False, act_only=False,
            initial_status='PASS', hds_dir=None, out_files=None):
    """-> (FullExeResult | None, exception | None)"""
    hds = pathlib.Path(hds_dir or rec.scratch_root)
    exe_conf = ExecutionConfiguration(
        os_environ_getter,
        None,
        60,
        os_services_access.new_for_current_os(),
        rec.sandbox_resolver,
        8192,
        None,
        exe_atc_and_skip_assertions=out_files if act_only else None,
    )
    cb = ConfigurationBuilder(hds, hds, NameAndValue('stub actor', ActorStub(rec)), TestCaseStatus[initial_status])
    try:
        return full_execution.execute(exe_conf, cb, is_keep_sandbox, tc), None
    except BaseException as ex:  # an exception escaping the executor is itself an observation
        if isinstance(ex, (KeyboardInterrupt, SystemExit)):
            raise
        return None, ex


def result_summary(res):
    """JSON-able view of a FullExeResult."""
    if res is None:
        return None
    fi = res.failure_info
    d = {'status': res.status.name,
         'has_sds': res.sds is not None,
         'sds_root': None if res.sds is None else str(res.sds.root_dir),
         'atc_exit_code': None if res.action_to_check_outcome is None else res.action_to_check_outcome.exit_code,
         'failure_phase_step': None, 'failure_phase': None, 'failure_step': None, 'failure_line': None,
         'failure_kind': None}
    if fi is not None:
        ps = fi.phase_step
        d['failure_phase_step'] = str(ps)
        d['failure_phase'] = ps.phase.identifier
        d['failure_step'] = ps.step
        d['failure_kind'] = type(fi).__name__
        sl = fi.source_location
        if sl is not None and sl.location is not None and sl.location.source is not None:
            d['failure_line'] = sl.location.source.first_line_number
    return d
