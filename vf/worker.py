"""Worker: runs one shard of one property's cases; writes one JSON result file."""
import importlib
import json
import os
import resource
import shutil
import sys
import tempfile
import time
import traceback

from vf import common, known


class Ctx:
    def __init__(self, prop, tier, seed, shard, nshards, scratch):
        self.prop = prop
        self.tier = tier
        self.seed = seed
        self.shard = shard
        self.nshards = nshards
        self.scratch = scratch
        self.session = None  # vf.driver.Session, created lazily
        self.counters = {}

    def count(self, name, n=1):
        self.counters[name] = self.counters.get(name, 0) + n

    def get_session(self):
        if self.session is None:
            from vf import driver
            self.session = driver.Session(self.scratch)
        return self.session


def load(prop):
    return importlib.import_module('vf.props.' + prop.lower())


def run_cases(mod, ctx, case_iter, max_samples=4):
    agg = {'evaluations': 0, 'classes': {}, 'samples': [], 'violations': [], 'inconclusive': [],
           'monitors': {}, 'case_errors': 0}
    if hasattr(mod, 'setup_worker'):
        mod.setup_worker(ctx)
    n_unknown = [0]
    for case in case_iter:
        try:
            r = mod.run_case(case, ctx)
        except Exception:
            # a crash of the *harness* is never a verdict on the property
            agg['case_errors'] += 1
            if len(agg['inconclusive']) < 5:
                agg['inconclusive'].append({'case': common.jsonable(case), 'why': 'harness exception',
                                            'trace': traceback.format_exc()[-1500:]})
            continue
        agg['evaluations'] += r.get('evaluations', 1)
        for c in r.get('classes', ()):
            c = c if isinstance(c, str) else json.dumps(common.jsonable(c))
            agg['classes'][c] = agg['classes'].get(c, 0) + 1
        for v in r.get('viol', ()):
            vd = {'case': common.jsonable(case), 'what': v.get('what', ''), 'detail': common.jsonable(v.get('detail'))}
            # classify BEFORE capping, so that a frequent known mechanism cannot crowd out a new violation
            try:
                key = known.classify(ctx.prop, vd)
            except Exception:
                key = None
            if key is not None:
                kc = agg.setdefault('known_counts', {})
                kc[key] = kc.get(key, 0) + 1
                if kc[key] <= 5:
                    agg['violations'].append(vd)
            elif n_unknown[0] < 200:
                n_unknown[0] += 1
                agg['violations'].append(vd)
            else:
                ctx.count('violations_not_stored')
        for inc in r.get('inconclusive', ()):
            if len(agg['inconclusive']) < 20:
                agg['inconclusive'].append({'case': common.jsonable(case), 'why': inc})
            ctx.count('inconclusive_cases')
        if 'sample' in r and len(agg['samples']) < max_samples:
            agg['samples'].append(common.jsonable(r['sample']))
    if hasattr(mod, 'teardown_worker'):
        extra = mod.teardown_worker(ctx)
        if extra:
            for k, v in extra.items():
                ctx.count(k, v)
    agg['monitors'] = dict(ctx.counters)
    if ctx.session is not None:
        for k, v in ctx.session.stats.items():
            agg['monitors']['driver.' + k] = v
        agg['m3_notes'] = ctx.session.m3_notes
    return agg


def main(argv):
    prop, tier, seed, shard, nshards, outfile = argv[0], argv[1], int(argv[2]), int(argv[3]), int(argv[4]), argv[5]
    # resource limits: defensive only
    try:
        resource.setrlimit(resource.RLIMIT_AS, (8 << 30, 8 << 30))
        resource.setrlimit(resource.RLIMIT_CORE, (0, 0))
    except Exception:
        pass
    common.put_repo_first_on_path()
    import exactly_lib
    if not os.path.abspath(exactly_lib.__file__).startswith(os.path.abspath(common.REPO_SRC) + os.sep):
        raise RuntimeError('exactly_lib imported from %s, not from %s' % (exactly_lib.__file__, common.REPO_SRC))
    scratch = tempfile.mkdtemp(prefix='vf-%s-%d-' % (prop, shard), dir=common.SCRATCH_BASE)
    os.chdir(scratch)
    t0 = time.time()
    try:
        mod = load(prop)
        ctx = Ctx(prop, tier, seed, shard, nshards, scratch)

        def my_cases():
            for i, case in enumerate(mod.cases(tier, seed)):
                if i % nshards == shard:
                    yield case

        agg = run_cases(mod, ctx, my_cases())
        agg['wall_s'] = time.time() - t0
        with open(outfile + '.tmp', 'w') as f:
            json.dump(agg, f)
        os.replace(outfile + '.tmp', outfile)
    finally:
        os.chdir('/')
        try:
            from vf import driver
            driver.force_rmtree(scratch)
        except Exception:
            shutil.rmtree(scratch, ignore_errors=True)


if __name__ == '__main__':
    main(sys.argv[1:])
