"""Predicates for known findings (registered into vf.known)."""
from vf.known import predicate  # noqa: F401
