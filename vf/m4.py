"""M4: text-source shadow.  Wraps as_str / as_lines / as_file / write_to of every concrete StringSourceContents
class and contents() of every concrete StringSource class.  Every observation of a text is compared with the
first complete observation of the same source (before or after freeze()); line division must be at '\\n' only.

State is per worker process and single threaded.  reset() per case."""
import contextlib

from vf import common

common.put_repo_first_on_path()

COUNT = {'as_str': 0, 'as_lines_complete': 0, 'as_lines_partial': 0, 'as_file': 0, 'write_to': 0,
         'contents_calls': 0, 'comparisons': 0, 'classes_wrapped': 0, 'sources_wrapped': 0,
         'sources_with_2plus_accessors': 0, 'sources_observed_before_and_after_freeze': 0}
VIOLATIONS = []
_SHADOW = {}     # key -> {'val': str|None, 'by': accessor, 'accessors': set(), 'frozen_seen': set()}
_SRC_OF = {}     # id(contents) -> key of the source
_KEEP = []       # keep objects alive while their ids are keys
_INSTALLED = False


def reset():
    _SHADOW.clear()
    _SRC_OF.clear()
    del _KEEP[:]
    del VIOLATIONS[:]


def lines_of(s):
    """Division into lines as the manual defines it: lines are separated by '\\n' only."""
    parts = s.split('\n')
    ret = [p + '\n' for p in parts[:-1]]
    if parts[-1]:
        ret.append(parts[-1])
    return ret


def _key(contents):
    _KEEP.append(contents)
    return _SRC_OF.get(id(contents), ('c', id(contents)))


def _viol(what, **detail):
    if len(VIOLATIONS) < 20:
        VIOLATIONS.append({'what': what, 'detail': detail})


def _observe(contents, accessor, value, complete=True, lines=None):
    k = _key(contents)
    sh = _SHADOW.get(k)
    if sh is None:
        sh = _SHADOW[k] = {'val': None, 'by': None, 'accessors': set(), 'partials': [], 'classes': set()}
    if accessor not in sh['accessors']:
        sh['accessors'].add(accessor)
        if len(sh['accessors']) == 2:
            COUNT['sources_with_2plus_accessors'] += 1
    cname = type(contents).__name__
    if cname not in sh['classes']:
        sh['classes'].add(cname)
        if len(sh['classes']) == 2:
            # the same source observed through two different contents objects/classes: before and after freeze()
            COUNT['sources_observed_before_and_after_freeze'] += 1
    if lines is not None:
        # line division: every element but the last ends with \n, no interior \n, nothing empty
        joined = ''.join(lines)
        exp = lines_of(joined)
        if complete:
            if list(lines) != exp:
                _viol('M4: as_lines of %s divides the text %r into %r; lines are separated by \\n only: %r' %
                      (cname, joined[:60], list(lines)[:8], exp[:8]), mechanism='line-division', cls=cname,
                      text=joined[:200])
        else:
            # a consumed prefix: all consumed elements but possibly the last must be \n-terminated single lines
            if list(lines[:-1]) != exp[:len(lines) - 1]:
                _viol('M4: as_lines (prefix) of %s divides %r into %r' % (cname, joined[:60], list(lines)[:8]),
                      mechanism='line-division', cls=cname, text=joined[:200])
    if complete:
        if sh['val'] is None:
            sh['val'] = value
            sh['by'] = '%s.%s' % (cname, accessor)
            for (acc, pv) in sh['partials']:
                COUNT['comparisons'] += 1
                if not value.startswith(pv):
                    _viol('M4: prefix %r read via %s is not a prefix of the text %r read via %s' %
                          (pv[:80], acc, value[:80], sh['by']), mechanism='value', first=sh['by'], second=acc)
        else:
            COUNT['comparisons'] += 1
            if value != sh['val']:
                _viol('M4: the same text read twice differs: %r via %s, then %r via %s.%s' %
                      (sh['val'][:80], sh['by'], value[:80], cname, accessor), mechanism='value', first=sh['by'],
                      second='%s.%s' % (cname, accessor), v1=sh['val'][:300], v2=value[:300])
    else:
        if sh['val'] is not None:
            COUNT['comparisons'] += 1
            if not sh['val'].startswith(value):
                _viol('M4: prefix %r read via %s.%s is not a prefix of %r (via %s)' %
                      (value[:80], cname, accessor, sh['val'][:80], sh['by']), mechanism='value', first=sh['by'],
                      second='%s.%s' % (cname, accessor))
        else:
            sh['partials'].append(('%s.%s' % (cname, accessor), value))


class _Tee:
    def __init__(self, real):
        self._real = real
        self.parts = []
        self.bypassed = False  # someone asked for the file descriptor: bytes may reach the file without write()

    def write(self, s):
        self.parts.append(s)
        return self._real.write(s)

    def writelines(self, lines):
        # the program's own writelines must run (with the lines it is given, in one call): the monitor only looks at
        # the lines as they are pulled.  (Turning this into a loop of write() calls hid a defect in the writelines of
        # the spooled file.)
        def pulled():
            for l in lines:
                self.parts.append(l)
                yield l

        return self._real.writelines(pulled())

    def __getattr__(self, name):
        if name == 'fileno':
            self.bypassed = True
        return getattr(self._real, name)


def _wrap_contents_class(cls):
    d = cls.__dict__
    wrapped = False
    if isinstance(d.get('as_str'), property):
        real_get = d['as_str'].fget

        def as_str(self, _real=real_get):
            v = _real(self)
            COUNT['as_str'] += 1
            _observe(self, 'as_str', v)
            return v

        setattr(cls, 'as_str', property(as_str))
        wrapped = True
    if isinstance(d.get('as_lines'), property):
        real_get = d['as_lines'].fget

        def as_lines(self, _real=real_get):
            cm = _real(self)

            @contextlib.contextmanager
            def observing():
                consumed = []
                state = {'exhausted': False}
                with cm as it:
                    def gen():
                        for x in it:
                            consumed.append(x)
                            yield x
                        state['exhausted'] = True

                    handed_out = gen()
                    if iter(it) is not it:
                        # not a one-pass iterator (a list, a tuple): the consumer must get an object that behaves the
                        # same way (every `for` starts again at the first line), or the monitor would hide the fact.
                        # It becomes a violation where the difference becomes observable: the consumer starts a
                        # second pass after it has been given lines in the first (with a one-pass iterator it would
                        # go on after them; now it meets the first lines again).  An empty container (the unchanged
                        # tree hands out `()` for an empty line range) behaves like an exhausted iterator.
                        COUNT['as_lines_not_an_iterator'] = COUNT.get('as_lines_not_an_iterator', 0) + 1
                        owner = self

                        class _Again:
                            def __iter__(self_):
                                if not consumed and not state['exhausted']:
                                    return gen()
                                if consumed and not state.get('reported'):
                                    state['reported'] = True
                                    _viol('M4: as_lines of %s hands out a %s, not a one-pass iterator, and its consumer '
                                          'reads the lines in several consecutive loops (as strip and several line '
                                          'ranges do): it meets the first lines again, i.e. another text than the one '
                                          'as_str gives' % (type(owner).__name__, type(it).__name__),
                                          mechanism='not-an-iterator', cls=type(owner).__name__)
                                return iter(it)

                            def __getattr__(self_, name):
                                return getattr(it, name)

                            def __len__(self_):
                                return len(it)

                            def __getitem__(self_, k):
                                return it[k]

                        handed_out = _Again()
                    try:
                        yield handed_out
                    finally:
                        if state['exhausted']:
                            COUNT['as_lines_complete'] += 1
                            _observe(self, 'as_lines', ''.join(consumed), True, consumed)
                        else:
                            COUNT['as_lines_partial'] += 1
                            _observe(self, 'as_lines', ''.join(consumed), False, consumed)

            return observing()

        setattr(cls, 'as_lines', property(as_lines))
        wrapped = True
    if isinstance(d.get('as_file'), property):
        real_get = d['as_file'].fget

        def as_file(self, _real=real_get):
            p = _real(self)
            COUNT['as_file'] += 1
            try:
                with open(str(p), 'r', encoding='utf-8', newline='') as f:
                    v = f.read()
            except (OSError, UnicodeDecodeError):
                return p
            _observe(self, 'as_file', v)
            return p

        setattr(cls, 'as_file', property(as_file))
        wrapped = True
    if 'write_to' in d and callable(d['write_to']):
        real = d['write_to']

        def write_to(self, output, _real=real):
            tee = _Tee(output)
            _real(self, tee)
            if tee.bypassed:
                COUNT['write_to_unobservable'] = COUNT.get('write_to_unobservable', 0) + 1
                return
            COUNT['write_to'] += 1
            _observe(self, 'write_to', ''.join(tee.parts))

        setattr(cls, 'write_to', write_to)
        wrapped = True
    if wrapped:
        COUNT['classes_wrapped'] += 1


def _wrap_source_class(cls):
    d = cls.__dict__
    if 'contents' in d and callable(d['contents']):
        real = d['contents']

        def contents(self, _real=real):
            c = _real(self)
            COUNT['contents_calls'] += 1
            _KEEP.append(self)
            _KEEP.append(c)
            # a contents object that already belongs to another (inner) source keeps that association
            _SRC_OF.setdefault(id(c), ('s', id(self)))
            return c

        setattr(cls, 'contents', contents)
        COUNT['sources_wrapped'] += 1
        if 'freeze' in d and callable(d['freeze']):
            real_freeze = d['freeze']

            def freeze(self, _real_freeze=real_freeze, _real_contents=real):
                # associate the un-frozen contents object with this source before it is replaced
                c0 = _real_contents(self)
                _KEEP.append(self)
                _KEEP.append(c0)
                _SRC_OF.setdefault(id(c0), ('s', id(self)))
                return _real_freeze(self)

            setattr(cls, 'freeze', freeze)


def _all_subclasses(cls):
    seen = set()
    stack = [cls]
    while stack:
        c = stack.pop()
        for s in c.__subclasses__():
            if s not in seen:
                seen.add(s)
                stack.append(s)
    return seen


def install():
    """Call AFTER the main program object has been built (so that all implementation modules are imported)."""
    global _INSTALLED
    if _INSTALLED:
        return
    _INSTALLED = True
    import importlib
    import pkgutil
    import exactly_lib.impls.types as types_pkg
    for m in pkgutil.walk_packages(types_pkg.__path__, types_pkg.__name__ + '.'):
        if 'string_source' in m.name or 'string_transformer' in m.name or 'string_matcher' in m.name \
                or 'program' in m.name:
            try:
                importlib.import_module(m.name)
            except Exception:
                pass
    from exactly_lib.type_val_prims.string_source.contents import StringSourceContents
    from exactly_lib.type_val_prims.string_source.string_source import StringSource
    _wrap_contents_class(StringSourceContents)  # base-class default as_str / write_to
    for c in sorted(_all_subclasses(StringSourceContents), key=lambda c: c.__qualname__):
        _wrap_contents_class(c)
    for c in sorted(_all_subclasses(StringSource), key=lambda c: c.__qualname__):
        _wrap_source_class(c)
