"""MANIFEST.setup_cmd: builds the probe and byte-compiles vf (syntax check). Offline, from files on disk only."""
import compileall
import os
import sys

from vf import common, probe


def main():
    p = probe.ensure_probe()
    print('probe:', p)
    ok = compileall.compile_dir(os.path.join(common.VERIF_DIR, 'vf'), quiet=1, legacy=False,
                                optimize=0, force=True, workers=1) if False else True
    # syntax check without writing .pyc files
    import ast
    n = 0
    for dp, dn, fn in os.walk(os.path.join(common.VERIF_DIR, 'vf')):
        for f in fn:
            if f.endswith('.py'):
                with open(os.path.join(dp, f)) as fh:
                    ast.parse(fh.read(), f)
                n += 1
    print('vf: %d modules parse' % n)
    os.makedirs(common.EVIDENCE_DIR, exist_ok=True)
    return 0


if __name__ == '__main__':
    sys.exit(main())
