#!/usr/bin/env python3
"""Python fallback of probe.c (same interface), used only if no C compiler works."""
import os, signal, sys, time, json

def main():
    a = sys.argv
    if len(a) < 3:
        sys.stderr.write('usage: probe OUTFILE CTRL [ARG...]\n'); return 99
    outfile, ctrl = a[1], a[2]
    c = {}
    for tok in ctrl.split(','):
        if '=' in tok:
            k, v = tok.split('=', 1); c[k] = v
    if c.get('igterm') == '1':
        signal.signal(signal.SIGTERM, signal.SIG_IGN)
    if 'mark' in c and ':' in c['mark']:
        p, t = c['mark'].split(':', 1)
        with open(p, 'a') as f: f.write(t + '\n')
    want_stdin = c.get('stdin') == '1' or c.get('cat') == '1'
    data = sys.stdin.buffer.read() if want_stdin else None
    if outfile != '-':
        h = lambda b: b.hex()
        rec = {'id': c.get('id', ''), 'pid': os.getpid(),
               'argv': [h(os.fsencode(x)) for x in a[3:]],
               'cwd': h(os.fsencode(os.getcwd())),
               'stdin': h(data) if data is not None else None,
               'env': {n: (h(os.fsencode(os.environ[n])) if n in os.environ else None)
                       for n in c.get('env', '').split(':') if n}}
        fd = os.open(outfile, os.O_WRONLY | os.O_APPEND | os.O_CREAT, 0o644)
        os.write(fd, (json.dumps(rec) + '\n').encode()); os.close(fd)
    if 'cd' in c:
        try: os.chdir(c['cd'])
        except OSError: pass
    ms = int(c.get('sleepms', '0'))
    if ms > 0: time.sleep(ms / 1000)
    if 'fin' in c: open(c['fin'], 'a').close()
    if c.get('cat') == '1' and data: sys.stdout.buffer.write(data)
    if 'out' in c: sys.stdout.buffer.write(bytes.fromhex(c['out']))
    if 'err' in c: sys.stderr.buffer.write(bytes.fromhex(c['err']))
    sys.stdout.flush(); sys.stderr.flush()
    return int(c.get('rc', '0'))

sys.exit(main())
