"""Build / locate the probe executable; decode its records."""
import json
import os
import shutil
import subprocess
import sys

from vf import common

_SRC = os.path.join(os.path.dirname(os.path.abspath(__file__)), 'probe.c')
_FALLBACK = os.path.join(os.path.dirname(os.path.abspath(__file__)), 'probe_fallback.py')
BIN_DIR = os.path.join(common.OUT_DIR, 'bin')
PROBE = os.path.join(BIN_DIR, 'probe')


def ensure_probe() -> str:
    """Returns the path of an executable probe (compiles it if needed). Safe under concurrent callers."""
    if os.path.isfile(PROBE) and os.path.getmtime(PROBE) >= os.path.getmtime(_SRC) and os.access(PROBE, os.X_OK):
        return PROBE
    os.makedirs(BIN_DIR, exist_ok=True)
    tmp = PROBE + '.%d.tmp' % os.getpid()
    for cc in ('cc', 'gcc', 'clang'):
        if shutil.which(cc) is None:
            continue
        r = subprocess.run([cc, '-O1', '-o', tmp, _SRC], capture_output=True)
        if r.returncode == 0:
            os.replace(tmp, PROBE)
            return PROBE
    # fallback: python script with a shebang line naming this interpreter
    with open(_FALLBACK) as f:
        body = f.read().split('\n', 1)[1]
    with open(tmp, 'w') as f:
        f.write('#!' + sys.executable + ' -S\n' + body)
    os.chmod(tmp, 0o755)
    os.replace(tmp, PROBE)
    return PROBE


def _unhex(s):
    return None if s is None else bytes.fromhex(s).decode('utf-8', 'surrogateescape')


def ctrl(**kw) -> str:
    """Builds the CTRL argument. out/err given as str or bytes are hex-encoded."""
    parts = []
    for k, v in kw.items():
        if v is None:
            continue
        if k in ('out', 'err'):
            if isinstance(v, str):
                v = v.encode('utf-8', 'surrogateescape')  # lone surrogates stand for bytes that are not UTF-8
            v = v.hex()
        elif k == 'env' and not isinstance(v, str):
            v = ':'.join(v)
        elif isinstance(v, bool):
            v = '1' if v else '0'
        parts.append('%s=%s' % (k, v))
    s = ','.join(parts)
    assert ' ' not in s and '"' not in s and "'" not in s, s
    return s


def read_records(path: str) -> list:
    """Decoded records, in the order the probes wrote them."""
    if not os.path.exists(path):
        return []
    ret = []
    with open(path, 'rb') as f:
        for line in f:
            if not line.strip():
                continue
            r = json.loads(line)
            ret.append({
                'id': r['id'],
                'pid': r['pid'],
                'argv': [_unhex(a) for a in r['argv']],
                'cwd': _unhex(r['cwd']),
                'stdin': None if r['stdin'] is None else bytes.fromhex(r['stdin']),
                'env': {k: _unhex(v) for k, v in r['env'].items()},
            })
    return ret
