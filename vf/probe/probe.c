/* Probe child process, started BY Exactly.
 *
 *   probe OUTFILE CTRL [ARG...]
 *
 * Appends one JSON line to OUTFILE describing what this process was given:
 *   {"id":"..","pid":N,"argv":[hex..],"cwd":hex,"stdin":hex|null,"env":{"NAME":hex|null,..}}
 * (all strings hex encoded so that no escaping is needed).
 *
 * CTRL is a comma separated list of key=value:
 *   id=TXT        identifier copied to the record
 *   rc=N          exit code (default 0)
 *   out=HEX       bytes to write on stdout          err=HEX   bytes to write on stderr
 *   stdin=1       read all of stdin and record it (default: not read)
 *   cat=1         copy stdin to stdout (implies stdin=1)
 *   env=A:B:C     environment variables to record
 *   sleepms=N     sleep N ms after writing the record (before output / exit)
 *   fin=PATH      after sleeping, create PATH ("finished" marker)
 *   igterm=1      ignore SIGTERM
 *   cd=PATH       chdir(PATH) after the record is written (a child's own cd)
 *   mark=PATH:TXT append line TXT to file PATH (before anything else)
 *   "-" as OUTFILE: no record is written.
 */
#include <errno.h>
#include <fcntl.h>
#include <signal.h>
#include <stdio.h>
#include <stdlib.h>
#include <string.h>
#include <time.h>
#include <unistd.h>

static void hex(FILE *f, const unsigned char *s, size_t n) {
    fputc('"', f);
    for (size_t i = 0; i < n; i++) fprintf(f, "%02x", s[i]);
    fputc('"', f);
}

static size_t unhex(const char *h, unsigned char *out) {
    size_t n = 0;
    while (h[0] && h[1]) {
        unsigned v;
        if (sscanf(h, "%2x", &v) != 1) break;
        out[n++] = (unsigned char) v;
        h += 2;
    }
    return n;
}

int main(int argc, char **argv) {
    if (argc < 3) {
        fprintf(stderr, "usage: probe OUTFILE CTRL [ARG...]\n");
        return 99;
    }
    const char *outfile = argv[1];
    char *ctrl = strdup(argv[2]);
    const char *id = "", *out_hex = NULL, *err_hex = NULL, *envs = NULL, *fin = NULL, *cd = NULL, *mark = NULL;
    int rc = 0, want_stdin = 0, cat = 0, igterm = 0;
    long sleepms = 0;

    for (char *tok = strtok(ctrl, ","); tok; tok = strtok(NULL, ",")) {
        char *eq = strchr(tok, '=');
        if (!eq) continue;
        *eq = 0;
        const char *k = tok, *v = eq + 1;
        if (!strcmp(k, "id")) id = v;
        else if (!strcmp(k, "rc")) rc = atoi(v);
        else if (!strcmp(k, "out")) out_hex = v;
        else if (!strcmp(k, "err")) err_hex = v;
        else if (!strcmp(k, "stdin")) want_stdin = atoi(v);
        else if (!strcmp(k, "cat")) { cat = atoi(v); if (cat) want_stdin = 1; }
        else if (!strcmp(k, "env")) envs = v;
        else if (!strcmp(k, "sleepms")) sleepms = atol(v);
        else if (!strcmp(k, "fin")) fin = v;
        else if (!strcmp(k, "igterm")) igterm = atoi(v);
        else if (!strcmp(k, "cd")) cd = v;
        else if (!strcmp(k, "mark")) mark = v;
    }
    if (igterm) signal(SIGTERM, SIG_IGN);

    if (mark) {
        char *m = strdup(mark);
        char *colon = strchr(m, ':');
        if (colon) {
            *colon = 0;
            FILE *mf = fopen(m, "a");
            if (mf) { fprintf(mf, "%s\n", colon + 1); fclose(mf); }
        }
    }

    unsigned char *in_buf = NULL;
    size_t in_len = 0;
    if (want_stdin) {
        size_t cap = 65536;
        in_buf = malloc(cap);
        for (;;) {
            if (in_len == cap) { cap *= 2; in_buf = realloc(in_buf, cap); }
            ssize_t r = read(0, in_buf + in_len, cap - in_len);
            if (r < 0 && errno == EINTR) continue;
            if (r <= 0) break;
            in_len += (size_t) r;
        }
    }

    if (strcmp(outfile, "-") != 0) {
        /* build the whole record in memory and write it with a single O_APPEND write */
        char *rec = NULL;
        size_t rec_len = 0;
        FILE *f = open_memstream(&rec, &rec_len);
        char cwd[8192];
        if (!getcwd(cwd, sizeof cwd)) cwd[0] = 0;
        fprintf(f, "{\"id\":\"%s\",\"pid\":%ld,\"argv\":[", id, (long) getpid());
        for (int i = 3; i < argc; i++) {
            if (i > 3) fputc(',', f);
            hex(f, (unsigned char *) argv[i], strlen(argv[i]));
        }
        fprintf(f, "],\"cwd\":");
        hex(f, (unsigned char *) cwd, strlen(cwd));
        fprintf(f, ",\"stdin\":");
        if (want_stdin) hex(f, in_buf, in_len); else fprintf(f, "null");
        fprintf(f, ",\"env\":{");
        if (envs) {
            char *e = strdup(envs);
            int first = 1;
            for (char *save = NULL, *n = strtok_r(e, ":", &save); n; n = strtok_r(NULL, ":", &save)) {
                if (!first) fputc(',', f);
                first = 0;
                fprintf(f, "\"%s\":", n);
                const char *v = getenv(n);
                if (v) hex(f, (const unsigned char *) v, strlen(v)); else fprintf(f, "null");
            }
        }
        fprintf(f, "}}\n");
        fclose(f);
        int fd = open(outfile, O_WRONLY | O_APPEND | O_CREAT, 0644);
        if (fd >= 0) {
            ssize_t w = write(fd, rec, rec_len);
            (void) w;
            close(fd);
        } else {
            fprintf(stderr, "probe: cannot open %s: %s\n", outfile, strerror(errno));
            return 98;
        }
        free(rec);
    }

    if (cd && chdir(cd) != 0) { /* ignore */ }

    if (sleepms > 0) {
        struct timespec ts = {sleepms / 1000, (sleepms % 1000) * 1000000L};
        while (nanosleep(&ts, &ts) != 0 && errno == EINTR) {}
    }
    if (fin) {
        int fd = open(fin, O_WRONLY | O_CREAT, 0644);
        if (fd >= 0) close(fd);
    }
    if (cat && in_len) { fwrite(in_buf, 1, in_len, stdout); }
    if (out_hex) {
        unsigned char *b = malloc(strlen(out_hex) / 2 + 1);
        size_t n = unhex(out_hex, b);
        fwrite(b, 1, n, stdout);
    }
    if (err_hex) {
        unsigned char *b = malloc(strlen(err_hex) / 2 + 1);
        size_t n = unhex(err_hex, b);
        fwrite(b, 1, n, stderr);
    }
    fflush(stdout);
    fflush(stderr);
    return rc;
}
