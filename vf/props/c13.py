"""C13 Line selection by `filter` is exact.
Boundary reference: output of `-transformed-by filter E` vs per-line evaluation of E (own evaluator);
in-situ contract M5 on line_nums_interval.interval_of_matcher: every accepted line number lies in the interval."""
import itertools
import os

from vf import common

ID = 'C13'
LEVEL = 'exploration'
RULE = ('one case = one real CLI run creating up to 20 files `file oK = -contents-of -rel-act in.txt -transformed-by '
        'filter EK` over one input text; every EK output is compared with per-line reference evaluation, and the M5 '
        'contract runs inside every interval_of_matcher call. evaluations = filter applications compared. class key = '
        '(kind, shape of the expression tree, number of lines, final newline, whether the selection is empty/all/'
        'proper subset); non-trivial = output compared AND (for line-matcher forms) M5 evaluated')
ASSUMPTIONS = ['line texts are from {a,b,c}; `contents` primitives are `contents matches REGEX` only',
               'nested binary operators are always parenthesised (precedence/layout is C06\'s business)',
               'line-number ranges: negative numbers count from the end, out-of-range bounds are clipped, N:M with N>M '
               'is empty, 0 denotes no line (manual: `help syntax TEXT-TRANSFORMER`, LINE-NUMBER-RANGE)']
EXHAUSTIVE_NOTE = ('(thorough; quick takes every other batch of the N=6 part) all line-matcher trees of depth<=2 over {line-num OP k (6 ops x k in {0,1,2,N,N+1}), contents matches '
                   'a, constants} at both the line-matcher and the integer-matcher level, with and without outer '
                   'negation, x N in {0,1,3,6}; all single ranges and all pairs of ranges with bounds in [-N-2,N+2] '
                   'for N in {0,1,3}')
MIN_OBS = {'quick': {'evaluations': 30000, 'c13.outputs_compared': 30000, 'm5.calls': 20000,
                     'c13.m5_line_evaluations': 100000},
           'thorough': {'evaluations': 150000, 'c13.outputs_compared': 150000, 'm5.calls': 100000,
                        'c13.m5_line_evaluations': 1000000}}

OPS = ['==', '!=', '<', '<=', '>', '>=']
BATCH = 20
LINE_TEXTS = 'abcabcabcabc'


# ---------------------------------------------------------------------------------------------- AST
# integer matcher:  ['cmp', op, k] | ['const', b] | ['not', x] | ['and', [..]] | ['or', [..]]
# line matcher:     ['lnum', IM]   | ['contents', regex] | ['const', b] | ['not', x] | ['and', [..]] | ['or', [..]]

def eval_im(a, n):
    t = a[0]
    if t == 'cmp':
        op, k = a[1], a[2]
        return {'==': n == k, '!=': n != k, '<': n < k, '<=': n <= k, '>': n > k, '>=': n >= k}[op]
    if t == 'const':
        return a[1]
    if t == 'not':
        return not eval_im(a[1], n)
    if t == 'and':
        return all(eval_im(x, n) for x in a[1])
    if t == 'or':
        return any(eval_im(x, n) for x in a[1])
    raise ValueError(a)


def eval_lm(a, n, text):
    import re
    t = a[0]
    if t == 'lnum':
        return eval_im(a[1], n)
    if t == 'contents':
        return re.search(a[1], text) is not None
    if t == 'const':
        return a[1]
    if t == 'not':
        return not eval_lm(a[1], n, text)
    if t == 'and':
        return all(eval_lm(x, n, text) for x in a[1])
    if t == 'or':
        return any(eval_lm(x, n, text) for x in a[1])
    raise ValueError(a)


def _simple(a, render):
    s = render(a)
    return '( ' + s + ' )' if a[0] in ('and', 'or') else s


def render_im(a):
    t = a[0]
    if t == 'cmp':
        return '%s %d' % (a[1], a[2])
    if t == 'const':
        return 'constant ' + ('true' if a[1] else 'false')
    if t == 'not':
        return '! ' + _simple(a[1], render_im)
    return (' && ' if t == 'and' else ' || ').join(_simple(x, render_im) for x in a[1])


def render_lm(a):
    t = a[0]
    if t == 'lnum':
        return 'line-num ' + _simple(a[1], render_im)
    if t == 'contents':
        return 'contents matches ' + a[1]
    if t == 'const':
        return 'constant ' + ('true' if a[1] else 'false')
    if t == 'not':
        return '! ' + _simple(a[1], render_lm)
    return (' && ' if t == 'and' else ' || ').join(_simple(x, render_lm) for x in a[1])


def shape(a):
    t = a[0]
    if t in ('cmp',):
        return 'c'
    if t == 'const':
        return 'k'
    if t == 'contents':
        return 't'
    if t == 'lnum':
        return 'L[' + shape(a[1]) + ']'
    if t == 'not':
        return '!' + shape(a[1])
    return ('&' if t == 'and' else '|') + '(' + ','.join(shape(x) for x in a[1]) + ')'


# ---------------------------------------------------------------------------------------------- ranges
def render_range(r):
    lo, hi, form = r
    if form == 'single':
        return str(lo)
    if form == 'upto':
        return ':%d' % hi
    if form == 'from':
        return '%d:' % lo
    return '%d:%d' % (lo, hi)


def range_set(r, nlines):
    """Set of 1-based line numbers denoted by one range on a text of nlines lines (manual's definition)."""

    def res(x):
        return x if x >= 0 else nlines + 1 + x

    lo, hi, form = r
    if form == 'single':
        n = res(lo)
        return {n} if 1 <= n <= nlines else set()
    if form == 'upto':
        return set(range(1, min(res(hi), nlines) + 1))
    if form == 'from':
        return set(range(max(res(lo), 1), nlines + 1))
    return set(range(max(res(lo), 1), min(res(hi), nlines) + 1))


def all_ranges(nlines):
    bounds = list(range(-nlines - 2, nlines + 3))
    rs = []
    for b in bounds:
        rs.append([b, None, 'single'])
        rs.append([None, b, 'upto'])
        rs.append([b, None, 'from'])
    for lo in bounds:
        for hi in bounds:
            rs.append([lo, hi, 'both'])
    return rs


# ---------------------------------------------------------------------------------------------- generation
def _cmp_prims(n):
    ks = sorted({0, 1, 2, n, n + 1})
    return [['cmp', op, k] for op in OPS for k in ks]


def _core_exprs(n):
    cmps = _cmp_prims(n)
    # integer-matcher level composites inside one line-num
    for c in cmps:
        yield ['lnum', c]
        yield ['not', ['lnum', c]]
        yield ['lnum', ['not', c]]
    for op in ('and', 'or'):
        for a, b in itertools.product(cmps, cmps):
            if a is b:
                continue
            yield ['lnum', [op, [a, b]]]
            yield ['not', ['lnum', [op, [a, b]]]]
            yield ['lnum', ['not', [op, [a, b]]]]
            yield ['not', ['lnum', ['not', [op, [a, b]]]]]
    # line-matcher level composites
    lprims = [['lnum', c] for c in cmps] + [['contents', 'a'], ['const', True], ['const', False]]
    for op in ('and', 'or'):
        for a, b in itertools.product(lprims, lprims):
            if a is b:
                continue
            yield [op, [a, b]]
            yield ['not', [op, [a, b]]]


def _rand_im(rng, n, depth):
    if depth == 0 or rng.random() < 0.35:
        if rng.random() < 0.08:
            return ['const', rng.random() < 0.5]
        return ['cmp', rng.choice(OPS), rng.choice([-1, 0, 1, 2, n - 1, n, n + 1, n + 3])]
    r = rng.random()
    if r < 0.3:
        return ['not', _rand_im(rng, n, depth - 1)]
    return [rng.choice(('and', 'or')), [_rand_im(rng, n, depth - 1) for _ in range(rng.choice((2, 2, 3)))]]


def _rand_lm(rng, n, depth, multi=False):
    if depth == 0 or rng.random() < 0.3:
        r = rng.random()
        if r < 0.7:
            return ['lnum', _rand_im(rng, n, rng.choice((0, 1, 2)))]
        if r < 0.9:
            return ['contents', rng.choice([':1$', '2', 'F0', 'x', ':[135]'] if multi else ['a', 'b', '^c$', '.', 'x'])]
        return ['const', rng.random() < 0.5]
    r = rng.random()
    if r < 0.3:
        return ['not', _rand_lm(rng, n, depth - 1, multi)]
    return [rng.choice(('and', 'or')), [_rand_lm(rng, n, depth - 1, multi) for _ in range(rng.choice((2, 2, 3)))]]


def _batches(it, size):
    b = []
    for x in it:
        b.append(x)
        if len(b) == size:
            yield b
            b = []
    if b:
        yield b


def cases(tier, seed):
    for n in (0, 1, 3, 6):
        for i, b in enumerate(_batches(_core_exprs(n), BATCH)):
            if tier == 'quick' and n == 6 and i % 2:
                continue  # quick: half of the N=6 core (the complete core is in thorough)
            yield {'kind': 'lm', 'n': n, 'final_nl': (i % 4 != 3), 'exprs': b}
    for n in (0, 1, 3):
        singles = all_ranges(n)
        for i, b in enumerate(_batches(([r] for r in singles), BATCH)):
            yield {'kind': 'ranges', 'n': n, 'final_nl': (i % 3 != 2), 'lists': b}
        short = [r for r in singles if r[2] != 'both' or (abs(r[0]) <= n + 1 and abs(r[1]) <= n + 1)]
        pairs = ([a, b] for a in short for b in short)
        for i, b in enumerate(_batches(pairs, BATCH)):
            if tier == 'quick' and n == 3 and i % 4:
                continue
            yield {'kind': 'ranges', 'n': n, 'final_nl': True, 'lists': b}
    # ---- borrowed workload: the cases of C05 that use `filter` (line matchers over richer contents matchers and texts)
    # are executed here with the M5 contract active; only M5 decides in this check
    import json as _json
    from vf.props import c05 as _c05
    nb = 0
    for k, c in enumerate(_c05.cases(tier, seed)):
        if 'filter' in _json.dumps(c.get('items', '')):
            nb += 1
            if tier == 'thorough' or nb % 6 == 0:
                yield {'kind': 'borrow', 'case': c}
    rng = common.rng_for(seed, ID)
    # ---- one filter (one instruction, one transformer object) applied to SEVERAL texts of different lengths -------
    n_multi = 150 if tier == 'quick' else 2500
    mrng = common.rng_for(0, ID, 'multi-core')
    for i in range(60):
        lens = [mrng.randrange(0, 7) for _ in range(mrng.choice((2, 3, 4, 5)))]
        nmax = max(lens)
        k = mrng.choice((2, 2, 3, 4))
        yield {'kind': 'multi', 'sub': 'ranges', 'spec': [mrng.choice(all_ranges(nmax)) for _ in range(k)], 'lens': lens,
               'final_nl': i % 3 != 0}
    for _ in range(n_multi):
        lens = [rng.randrange(0, 8) for _ in range(rng.choice((2, 3, 4, 5, 6)))]
        nmax = max(lens)
        if rng.random() < 0.6:
            k = rng.randrange(1, 5)
            yield {'kind': 'multi', 'sub': 'ranges', 'spec': [rng.choice(all_ranges(nmax)) for _ in range(k)],
                   'lens': lens, 'final_nl': rng.random() < 0.7}
        else:
            yield {'kind': 'multi', 'sub': 'lm', 'spec': _rand_lm(rng, nmax, rng.choice((1, 2, 3)), multi=True),
                   'lens': lens, 'final_nl': rng.random() < 0.7}
    n_rand = 400 if tier == 'quick' else 6000
    for _ in range(n_rand):
        n = rng.randrange(0, 7)
        if rng.random() < 0.7:
            yield {'kind': 'lm', 'n': n, 'final_nl': rng.random() < 0.7,
                   'exprs': [_rand_lm(rng, n, rng.choice((1, 2, 3))) for _ in range(BATCH)]}
        else:
            lists = []
            for _ in range(BATCH):
                k = rng.randrange(1, 5)
                lists.append([rng.choice(all_ranges(n)) for _ in range(k)])
            yield {'kind': 'ranges', 'n': n, 'final_nl': rng.random() < 0.7, 'lists': lists}


# ---------------------------------------------------------------------------------------------- M5
_M5_STATE = {'violations': [], 'line_evals': 0}
_M5_TEXTS = ('a', 'b', 'c')
_M5_MAX_N = 10


def _m5_post(result, args, kwargs):
    m = args[0]
    for n in range(1, _M5_MAX_N + 1):
        for t in _M5_TEXTS:
            _M5_STATE['line_evals'] += 1
            if m.matches_w_trace((n, t)).value:
                inside = (not result.is_empty) and (result.lower is None or result.lower <= n) and \
                         (result.upper is None or n <= result.upper)
                if not inside:
                    _M5_STATE['violations'].append(
                        'M5: matcher accepts line %d (%r) but interval_of_matcher returned %s' % (n, t, result))
                    return


def setup_worker(ctx):
    from vf import monitor
    common.put_repo_first_on_path()
    from exactly_lib.impls.types.line_matcher import line_nums_interval
    monitor.wrap(line_nums_interval, 'interval_of_matcher', 'm5', post=_m5_post)
    from vf.props import c05 as _c05
    if hasattr(_c05, 'setup_worker'):
        _c05.setup_worker(ctx)


def teardown_worker(ctx):
    from vf import monitor
    return {'m5.calls': monitor.COUNTERS.get('m5.calls', 0),
            'm5.monitor_errors': monitor.COUNTERS.get('m5.monitor_errors', 0),
            'c13.m5_line_evaluations': _M5_STATE['line_evals']}


# ---------------------------------------------------------------------------------------------- execution
def run_multi(case, ctx):
    """One `dir-contents d : every file : contents -transformed-by filter X ( run % PROBE ... )`: the same transformer
    object filters several texts; the probe records each transformed text (its lines name file and line number)."""
    from vf import monitor, probe, driver
    ses = ctx.get_session()
    lens = case['lens']
    files = {}
    texts = []
    for k, n in enumerate(lens):
        lines = ['F%d:%d' % (k, i) for i in range(1, n + 1)]
        t = '\n'.join(lines) + ('\n' if (case['final_nl'] and n > 0) else '')
        texts.append((lines, t))
        files['d/f%d.txt' % k] = t
    if case['sub'] == 'ranges':
        src = '-line-nums ' + ' '.join(render_range(r) for r in case['spec'])
    else:
        src = render_lm(case['spec'])
        if case['spec'][0] in ('and', 'or'):
            src = '( ' + src + ' )'
    d = ses.new_case_dir(files)
    out = os.path.join(d, 'records.jsonl')
    # (-line-nums ranges run to the end of the line: the transformer is parenthesised with ")" on the next line)
    text = ('[setup]\ncopy d\n[act]\n$ true\n[assert]\ndir-contents d : every file : contents -transformed-by ( filter %s\n'
            '  ) ( run %% %s %s %s )\n' % (src, probe.PROBE, out, probe.ctrl(stdin=True)))
    with open(os.path.join(d, 't.case'), 'w') as f:
        f.write(text)
    _M5_STATE['violations'] = []
    r = ses.run([os.path.join(d, 't.case')], cwd=d, mode='normal')
    viol, inconc = [], []
    nev = 0
    if r.timed_out:
        inconc.append('watchdog')
    elif r.exc is not None or r.rc != 0:
        viol.append({'what': 'C13 multi-text filter case did not PASS: rc=%r %s' % (r.rc, r.err[:300]),
                     'detail': {'case_text': text}})
    else:
        recs = probe.read_records(out)
        expected = {}
        for k, (lines, t) in enumerate(texts):
            n = len(lines)
            if case['sub'] == 'ranges':
                ks = set()
                for rg in case['spec']:
                    ks |= range_set(rg, n)
                keep = sorted(ks)
            else:
                keep = [j for j in range(1, n + 1) if eval_lm(case['spec'], j, lines[j - 1])]
            expected[k] = ''.join(lines[j - 1] + ('\n' if (j < n or case['final_nl']) else '') for j in keep)
        if len(recs) != len(lens):
            viol.append({'what': 'C13 multi-text: %d texts filtered, %d transformed texts observed' % (len(lens), len(recs)),
                         'detail': {'case_text': text}})
        else:
            got_by_file = {}
            empties = 0
            for rec in recs:
                g = rec['stdin'].decode('utf-8', 'replace')
                if not g:
                    empties += 1
                    continue
                k = int(g.split(':', 1)[0][1:])
                got_by_file[k] = g
            exp_empty = sum(1 for v in expected.values() if v == '')
            for k in sorted(expected):
                nev += 1
                ctx.count('c13.outputs_compared')
                ctx.count('c13.multi_text_outputs_compared')
                if expected[k] == '':
                    continue
                if got_by_file.get(k) != expected[k]:
                    viol.append({'what': 'C13 filter %s applied (one instruction) to texts of %r lines: text %d gives %r, '
                                         'reference %r' % (src, lens, k, got_by_file.get(k), expected[k]),
                                 'detail': {'filter': src, 'kind': 'multi', 'lens': lens, 'observed': got_by_file.get(k),
                                            'expected': expected[k]}})
            if empties != exp_empty:
                viol.append({'what': 'C13 filter %s applied (one instruction) to texts of %r lines: %d empty outputs, '
                                     'reference %d' % (src, lens, empties, exp_empty),
                             'detail': {'filter': src, 'kind': 'multi', 'lens': lens}})
        for m in _M5_STATE['violations']:
            viol.append({'what': 'C13 ' + m, 'detail': {'case_text': text, 'kind': 'm5'}})
    for mv in monitor.take_violations():
        inconc.append(mv['what'])
    ses.clean_tmp()
    ses.drop(d)
    res = {'classes': [('multi', case['sub'], len(lens), len(set(lens)))], 'viol': viol, 'inconclusive': inconc,
           'evaluations': max(nev, 1)}
    if len(lens) == 4 and case['sub'] == 'ranges':
        res['sample'] = {'case_text': text.replace(probe.PROBE, 'PROBE'), 'line_counts': lens}
    return res


def run_borrowed(case, ctx):
    from vf import monitor
    from vf.props import c05 as _c05
    _M5_STATE['violations'] = []
    calls0 = monitor.COUNTERS.get('m5.calls', 0)
    try:
        r = _c05.run_case(case['case'], ctx)
    except Exception as ex:
        return {'classes': [], 'viol': [], 'inconclusive': ['borrowed C05 case raised %r' % (ex,)]}
    n = monitor.COUNTERS.get('m5.calls', 0) - calls0
    ctx.count('c13.borrowed_cases_run')
    ctx.count('c13.borrowed_m5_calls', n)
    viol = [{'what': 'C13 (workload of C05) ' + m, 'detail': {'kind': 'm5', 'borrowed': True}}
            for m in _M5_STATE['violations'][:3]]
    _M5_STATE['violations'] = []
    inconc = [mv['what'] for mv in monitor.take_violations()]
    return {'classes': [('borrow-c05', 'm5-calls>0' if n else 'm5-calls=0')], 'viol': viol, 'inconclusive': inconc,
            'evaluations': max(1, n)}


def run_case(case, ctx):
    if case['kind'] == 'multi':
        return run_multi(case, ctx)
    if case['kind'] == 'borrow':
        return run_borrowed(case, ctx)
    from vf import monitor
    ses = ctx.get_session()
    n = case['n']
    lines = [LINE_TEXTS[i] for i in range(n)]
    text = '\n'.join(lines) + ('\n' if (case['final_nl'] and n > 0) else '')
    items = case['exprs'] if case['kind'] == 'lm' else case['lists']
    L = ['[setup]']
    expected = []
    for i, it in enumerate(items):
        if case['kind'] == 'lm':
            src = render_lm(it)
            if it[0] in ('and', 'or'):
                src = '( ' + src + ' )'
            keep = [j for j in range(1, n + 1) if eval_lm(it, j, lines[j - 1])]
        else:
            src = '-line-nums ' + ' '.join(render_range(r) for r in it)
            s = set()
            for r in it:
                s |= range_set(r, n)
            keep = sorted(s)
        L.append('file o%d = -contents-of -rel-act in.txt -transformed-by filter %s' % (i, src))
        exp = ''.join(lines[j - 1] + ('\n' if (j < n or case['final_nl']) else '') for j in keep)
        expected.append((src, keep, exp))
    L += ['[act]', '$ true']
    case_text = '\n'.join(L) + '\n'
    d = ses.new_case_dir({'t.case': case_text})
    # in.txt must exist in act/ : create via a home file copied in setup -> simpler: write it with `file` from a home file
    # (a here-document cannot express "no final newline"), so put it in the home dir and copy.
    with open(os.path.join(d, 'in.txt'), 'w', newline='') as f:
        f.write(text)
    with open(os.path.join(d, 't.case'), 'w') as f:
        f.write('[setup]\ncopy in.txt\n' + '\n'.join(L[1:]) + '\n')
    _M5_STATE['violations'] = []
    calls_before = monitor.COUNTERS.get('m5.calls', 0)
    r = ses.run(['--keep', os.path.join(d, 't.case')], cwd=d, mode='keep')
    m5_calls = monitor.COUNTERS.get('m5.calls', 0) - calls_before
    viol = []
    inconc = []
    classes = []
    nev = 0
    if r.timed_out:
        inconc.append('watchdog')
    elif r.exc is not None or r.rc != 0 or not r.out.strip():
        viol.append({'what': 'C13 case with %d filter instructions did not PASS: rc=%r stderr=%s' %
                             (len(items), r.rc, r.err[:300]), 'detail': {'case_text': case_text, 'exc': r.exc}})
    else:
        sds = r.out.strip()
        for i, (src, keep, exp) in enumerate(expected):
            p = os.path.join(sds, 'act', 'o%d' % i)
            try:
                with open(p, 'rb') as f:
                    got = f.read().decode('utf-8', 'replace')
            except OSError as ex:
                viol.append({'what': 'C13 output file missing for filter %s' % src, 'detail': str(ex)})
                continue
            nev += 1
            ctx.count('c13.outputs_compared')
            if got != exp:
                viol.append({'what': 'C13 filter %s on %d lines%s keeps %r, reference (lines %r) %r' %
                                     (src, n, '' if case['final_nl'] else ' (no final newline)', got, keep, exp),
                             'detail': {'filter': src, 'ast': items[i], 'kind': case['kind'], 'input': text,
                                        'expected': exp, 'observed': got, 'expected_lines': keep}})
            sel = 'none' if not keep else 'all' if len(keep) == n else 'some'
            if case['kind'] == 'lm':
                classes.append(('lm', shape(items[i]), n, case['final_nl'], sel))
            else:
                classes.append(('ranges', tuple(r_[2] for r_ in items[i]), n, case['final_nl'], sel))
        if case['kind'] == 'lm' and m5_calls < len(items):
            inconc.append('M5 evaluated %d times for %d filters' % (m5_calls, len(items)))
        for m in _M5_STATE['violations']:
            viol.append({'what': 'C13 ' + m, 'detail': {'case_text': case_text, 'kind': 'm5'}})
    for mv in monitor.take_violations():
        inconc.append(mv['what'])
    ses.clean_tmp()
    ses.drop(d)
    res = {'classes': classes, 'viol': viol, 'inconclusive': inconc, 'evaluations': max(nev, 1)}
    if case['kind'] == 'ranges' and n == 3 and len(items[0]) == 2:
        res['sample'] = {'input': text, 'filters': [(s, k) for s, k, e in expected[:4]], 'verdict': 'compared'}
    elif case['kind'] == 'lm' and n == 6:
        res['sample'] = {'input': text, 'filters': [(s, k) for s, k, e in expected[:4]]}
    return res


# ---------------------------------------------------------------------------------------------- known findings
def known_s4(v):
    """filter drops lines because interval_of_matcher under-approximates the complement of a combination
    (|| / && / !) of line-num comparisons: observed output is a strict subset (fewer lines) of the expected one,
    or the M5 contract fired."""
    d = v.get('detail') or {}
    if d.get('kind') == 'm5':
        return True
    if d.get('kind') != 'lm':
        return False
    exp, got = d.get('expected', ''), d.get('observed', '')
    if got == exp:
        return False
    # the defect only ever LOSES lines: observed must be a subsequence of expected, never contain an extra line
    exp_lines, got_lines = exp.splitlines(True), got.splitlines(True)
    it = iter(exp_lines)
    if not all(any(g == e for e in it) for g in got_lines):
        return False
    # and the expression must contain a negation above a combination of line-num matchers
    return _has_neg_over_combination(d.get('ast'))


def _has_neg_over_combination(a, under_not=False):
    if not isinstance(a, list):
        return False
    t = a[0]
    if t == 'not':
        return _has_neg_over_combination(a[1], True)
    if t in ('and', 'or'):
        if under_not and any(_mentions_lnum(x) for x in a[1]):
            return True
        return any(_has_neg_over_combination(x, under_not) for x in a[1])
    if t == 'lnum':
        return _has_neg_over_combination(a[1], under_not)
    return False


def _mentions_lnum(a):
    if not isinstance(a, list):
        return False
    if a[0] in ('lnum', 'cmp'):
        return True
    if a[0] == 'not':
        return _mentions_lnum(a[1])
    if a[0] in ('and', 'or'):
        return any(_mentions_lnum(x) for x in a[1])
    return False


KNOWN = {'S4-interval-inversion-of-combination': known_s4}
