"""C19 Timeouts on every OS process - boundary monitor (M2) over every place x timeout history, plus real kills (M7).

Part A/R (no waiting): a case holds, per phase, a sequence of items - `timeout = V` instructions, *uses* of a
place (an instruction / action form that starts one or more probe processes that return at once) and sentinels
(a plain `run` of the probe).  A ten-line reference model (timeout starts at 60, `timeout = V` replaces it for
everything that follows, `none` -> no timeout) says which timeout is in force when each process is started;
every `subprocess.call` recorded by M2 for the case must carry exactly that value.
Part B (real kills): `timeout = 1` and a probe that would sleep 30 s, at every place.
The oracle is written from `exactly help concept timeout`, `help setup timeout`, `help case` - not from the source."""
import os
import re
import time

from vf import common, probe

ID = 'C19'
LEVEL = 'fault_enumeration'
RULE = ('place = (phase x kind of program use) or (action x actor/program shape); a place that starts several '
        'processes has one target per process.  Part A: every place x program form {executable path, %, $, @symbol, '
        '-python} x timeout history {default, before, before-early, after, none-then-value, value-then-none} '
        '[x --act for setup/act/cleanup places: all histories in thorough, two in quick], child returns at once, up to 6 places of the same phase and form '
        'share one case (batching only), every M2 record compared with the reference model; evaluations = number of '
        'place uses; class key = (A, place, phase, form, history, mode).  Part R: seeded random sequences of uses and timeout '
        'instructions over all phases; class key = (R, number of timeout changes, set of places).  Part B: real '
        'processes, every (place, target process) x behaviour {sleeps 30 s under timeout 1 -> must be killed, '
        'HARD_ERROR in the phase of use, cleanup ran, sandbox removed, pid gone, no finished-marker; same ignoring '
        'SIGTERM; exits after 0.3 s under timeout 5 -> no error; sleeps 1.5 s after `timeout = 1`,`timeout = none` '
        '-> no error}; class key = (B, place, target, phase, form, behaviour, history, outcome).  A case is '
        'non-trivial when the M2 record / probe record of the process under test was actually observed')
ASSUMPTIONS = [
    'the timeout in force for a process is the one in force when the instruction that STARTS the process is executed: '
    'for a program reached through a symbol that is the referencing instruction, for `stdin = <program>` it is the '
    'act phase (the program is run when stdin of the action is produced); therefore no `timeout` instruction is '
    'generated between a `stdin` instruction and the end of [setup], and an error from it may be attributed to '
    '[setup] or [act]',
    'the preprocessor (--preprocessor / suite [conf] preprocessor) is not a process "of a test case" in the sense '
    'of `help concept timeout` ("OS processes executed from within a test case") and is not checked',
    'only the process Exactly starts itself is checked; shell commands are written `$ exec PROBE ...` so that the '
    'process started by Exactly is the probe (grandchildren of a shell are outside the property)',
    '`timeout = 0` is generated only in part Z, where the M2 record alone decides (whether the process is then seen to '
    'expire depends on scheduling); integer expressions come from a closed vocabulary',
    '`env -of act` after the act phase starts no process (no observable effect), so that place exists in [setup] only',
    'a zombie (killed but not reaped) counts as terminated',
    'actors are selected with `[conf] actor = ...` and with --actor; an actor set by a suite file is not enumerated',
]
EXHAUSTIVE_NOTE = ('place x form x history table of part A and the (place, target) list of part B (behaviour '
                   '"sleeps past timeout") are enumerated completely in both tiers; thorough adds every form x '
                   'behaviour x history for the real kills')
MIN_OBS = {'quick': {'evaluations': 3800, 'c19.m2_records_checked': 5000, 'c19.places_reached': 4500,
                     'c19.kill_decided': 140, 'c19.nokill_decided': 40, 'classes': 3000},
           'thorough': {'evaluations': 12000, 'c19.m2_records_checked': 20000, 'c19.places_reached': 14000,
                        'c19.kill_decided': 1800, 'c19.nokill_decided': 900, 'classes': 8000}}
KNOWN = {}  # no defect of Exactly found by this check

DEFAULT_TIMEOUT = 60  # `help concept timeout`: "Default 60"
SETUP, ACT, BEFORE_ASSERT, ASSERT, CLEANUP = 'setup', 'act', 'before-assert', 'assert', 'cleanup'
PHASE_ORDER = [SETUP, ACT, BEFORE_ASSERT, ASSERT, CLEANUP]
INSTR_PHASES = [SETUP, BEFORE_ASSERT, ASSERT, CLEANUP]
F4 = ['path', 'pct', 'shell', 'sym']


# =============================================================================================
# Places.  build(u) -> lines of the use; u.P(tag, **ctrl) renders one probe invocation (always last on its line)
# =============================================================================================
def _pl(phases, forms, tags, build, deferred=False, kind='instr'):
    return {'phases': phases, 'forms': forms, 'tags': tags, 'build': build, 'deferred': deferred, 'kind': kind}


def _dir_a(u):
    return ['dir %s = {' % u.fn('d'), '  file a = "hi"', '}']


PLACES = {
    # ---- instructions of every phase ------------------------------------------------------------
    'run': _pl(INSTR_PHASES, F4 + ['python'], ['p'], lambda u: ['run ' + u.P()]),
    'run-ignore-exit': _pl(INSTR_PHASES, F4, ['p'], lambda u: ['run -ignore-exit-code ' + u.P(rc=3)]),
    '$': _pl(INSTR_PHASES, ['shell'], ['p'], lambda u: [u.P()]),
    '%': _pl(INSTR_PHASES, ['pct'], ['p'], lambda u: [u.P()]),
    'run+stdin-from-pgm': _pl(INSTR_PHASES, F4, ['main', 'src'],
                              lambda u: ['run ' + u.P('main', stdin=True),
                                         '  -stdin -stdout-from ' + u.P('src', out='hi')]),
    'file=stdout-from': _pl(INSTR_PHASES, F4, ['p'],
                            lambda u: ['file %s = -stdout-from %s' % (u.fn('f'), u.P(out='hi'))]),
    'file=stderr-from': _pl(INSTR_PHASES, F4, ['p'],
                            lambda u: ['file %s = -stderr-from %s' % (u.fn('f'), u.P(err='hi'))]),
    'file=stdout-from-ignore-exit': _pl(INSTR_PHASES, F4, ['p'],
                                        lambda u: ['file %s = -stdout-from -ignore-exit-code %s'
                                                   % (u.fn('f'), u.P(out='hi', rc=3))]),
    'file=stderr-from-ignore-exit': _pl(INSTR_PHASES, F4, ['p'],
                                        lambda u: ['file %s = -stderr-from -ignore-exit-code %s'
                                                   % (u.fn('f'), u.P(err='hi', rc=3))]),
    'file=stdout-from+transformer-run': _pl(INSTR_PHASES, F4, ['src', 'tr'],
                                            lambda u: ['file %s = -stdout-from %s' % (u.fn('f'), u.P('src', out='hi')),
                                                       '  -transformed-by run ' + u.P('tr', cat=True)]),
    'file=string+transformer-run': _pl(INSTR_PHASES, F4, ['p'],
                                       lambda u: ['file %s = "text" -transformed-by run %s'
                                                  % (u.fn('f'), u.P(cat=True))]),
    'file=string+transformer-run-ignore-exit': _pl(INSTR_PHASES, F4, ['p'],
                                                   lambda u: ['file %s = "text" -transformed-by run -ignore-exit-code %s'
                                                              % (u.fn('f'), u.P(cat=True, rc=3))]),
    'file+=stdout-from': _pl(INSTR_PHASES, F4, ['p'],
                             lambda u: ['file %s = "x"' % u.fn('f'),
                                        'file %s += -stdout-from %s' % (u.fn('f'), u.P(out='hi'))]),
    'file=filter-by-text-matcher-run': _pl(INSTR_PHASES, F4, ['p'],
                                           lambda u: ['file %s = "text" -transformed-by filter contents run %s'
                                                      % (u.fn('f'), u.P())]),
    'file=contents-of+transformer-run': _pl(INSTR_PHASES, F4, ['p'],
                                            lambda u: ['file %s = "x"' % u.fn('g'),
                                                       'file %s = -contents-of -rel-cd %s -transformed-by run %s'
                                                       % (u.fn('f'), u.fn('g'), u.P(cat=True))]),
    'dir={file=stdout-from}': _pl(INSTR_PHASES, F4, ['p'],
                                  lambda u: ['dir %s = {' % u.fn('d'),
                                             '  file a = -stdout-from ' + u.P(out='hi'),
                                             '}']),
    'dir={dir={file=transformer-run}}': _pl(INSTR_PHASES, F4, ['p'],
                                            lambda u: ['dir %s = {' % u.fn('d'),
                                                       '  dir sub = {',
                                                       '    file a = "t" -transformed-by run ' + u.P(cat=True),
                                                       '  }',
                                                       '}']),
    'env=stdout-from': _pl(INSTR_PHASES, F4, ['p'],
                           lambda u: ['env C19_%s = -stdout-from %s' % (u.uid.upper(), u.P(out='hi'))]),
    'env-of-non-act=stdout-from': _pl(INSTR_PHASES, F4, ['p'],
                                      lambda u: ['env -of !act C19_%s = -stdout-from %s'
                                                 % (u.uid.upper(), u.P(out='hi'))]),
    'env-of-act=stdout-from': _pl([SETUP], F4, ['p'],
                                  lambda u: ['env -of act C19_%s = -stdout-from %s' % (u.uid.upper(), u.P(out='hi'))]),
    'env=string+transformer-run': _pl(INSTR_PHASES, F4, ['p'],
                                      lambda u: ['env C19_%s = "t" -transformed-by run %s'
                                                 % (u.uid.upper(), u.P(cat=True))]),
    'file=filter-by-equals-stdout-from': _pl(INSTR_PHASES, F4, ['p'],
                                             lambda u: ['file %s = "hi" -transformed-by filter contents equals '
                                                        '-stdout-from %s' % (u.fn('f'), u.P(out='hi'))]),
    # ---- through symbols defined at the top of [setup] ----------------------------------------------
    'symbol:text-source': _pl(INSTR_PHASES, F4, ['p'],
                              lambda u: (u.pre('def text-source %s = -stdout-from %s' % (u.sym('TS'), u.P(out='hi'))),
                                         ['file %s = @[%s]@' % (u.fn('f'), u.sym('TS'))])[1]),
    'symbol:text-transformer': _pl(INSTR_PHASES, F4, ['p'],
                                   lambda u: (u.pre('def text-transformer %s = run %s' % (u.sym('TT'), u.P(cat=True))),
                                              ['file %s = "t" -transformed-by %s' % (u.fn('f'), u.sym('TT'))])[1]),
    'symbol:text-matcher(in filter)': _pl(INSTR_PHASES, F4, ['p'],
                                          lambda u: (u.pre('def text-matcher %s = run %s' % (u.sym('TM'), u.P())),
                                                     ['file %s = "t" -transformed-by filter contents %s'
                                                      % (u.fn('f'), u.sym('TM'))])[1]),
    'symbol:files-source': _pl(INSTR_PHASES, F4, ['p'],
                               lambda u: (u.pre('def files-source %s = {' % u.sym('FS'),
                                                '  file a = -stdout-from ' + u.P(out='hi'),
                                                '}'),
                                          ['dir %s = %s' % (u.fn('d'), u.sym('FS'))])[1]),
    # ---- stdin of the action (process started when the action is run) -----------------------------
    'stdin=stdout-from': _pl([SETUP], F4, ['p'], lambda u: ['stdin = -stdout-from ' + u.P(out='hi')], deferred=True),
    'stdin=string+transformer-run': _pl([SETUP], F4, ['p'],
                                        lambda u: ['stdin = "t" -transformed-by run ' + u.P(cat=True)],
                                        deferred=True),
    # ---- assertions ---------------------------------------------------------------------------------
    'stdout-from': _pl([ASSERT], F4, ['p'], lambda u: ['stdout -from ' + u.P(out='hi'), '  equals "hi"']),
    'stderr-from': _pl([ASSERT], F4, ['p'], lambda u: ['stderr -from ' + u.P(err='hi'), '  equals "hi"']),
    'exit-code-from': _pl([ASSERT], F4, ['p'], lambda u: ['exit-code -from ' + u.P(rc=3), '  == 3']),
    'stdout-from+transformer-run': _pl([ASSERT], F4, ['src', 'tr'],
                                       lambda u: ['stdout -from ' + u.P('src', out='hi'),
                                                  '  -transformed-by run ' + u.P('tr', cat=True),
                                                  '  equals "hi"']),
    'exit-code-from+stdin-from-pgm': _pl([ASSERT], F4, ['main', 'src'],
                                         lambda u: ['exit-code -from ' + u.P('main', stdin=True),
                                                    '  -stdin -stdout-from ' + u.P('src', out='hi'),
                                                    '  == 0']),
    'stdout:text-matcher-run': _pl([ASSERT], F4, ['p'], lambda u: ['stdout run ' + u.P()]),
    'stderr:text-matcher-run': _pl([ASSERT], F4, ['p'], lambda u: ['stderr run ' + u.P()]),
    'stdout:negated-text-matcher-run': _pl([ASSERT], F4, ['p'], lambda u: ['stdout ! run ' + u.P(rc=1)]),
    'stdout:transformer-run': _pl([ASSERT], F4, ['p'],
                                  lambda u: ['stdout -transformed-by run ' + u.P(cat=True), '  equals "hi"']),
    'stdout:equals-stdout-from': _pl([ASSERT], F4, ['p'], lambda u: ['stdout equals -stdout-from ' + u.P(out='hi')]),
    'contents:equals-stderr-from': _pl([ASSERT], F4, ['p'],
                                       lambda u: ['file %s = "hi"' % u.fn('f'),
                                                  'contents %s : equals -stderr-from %s' % (u.fn('f'), u.P(err='hi'))]),
    'contents:text-matcher-run': _pl([ASSERT], F4, ['p'],
                                     lambda u: ['file %s = "hi"' % u.fn('f'),
                                                'contents %s : run %s' % (u.fn('f'), u.P())]),
    'contents:transformer-run': _pl([ASSERT], F4, ['p'],
                                    lambda u: ['file %s = "hi"' % u.fn('f'),
                                               'contents %s : -transformed-by run %s' % (u.fn('f'), u.P(cat=True)),
                                               '  equals "hi"']),
    'exists:file-matcher-run': _pl([ASSERT], F4, ['p'],
                                   lambda u: ['file %s = "hi"' % u.fn('f'),
                                              'exists %s : run %s' % (u.fn('f'), u.P())]),
    # negated forms: a process that cannot be waited for is a HARD_ERROR, not "the matcher does not hold"
    'exists-negated:file-matcher-run': _pl([ASSERT], F4, ['p'],
                                           lambda u: ['file %s = "hi"' % u.fn('f'),
                                                      'exists ! %s : run %s' % (u.fn('f'), u.P(rc=1))]),
    'contents-negated:text-matcher-run': _pl([ASSERT], F4, ['p'],
                                             lambda u: ['file %s = "hi"' % u.fn('f'),
                                                        'contents %s : ! run %s' % (u.fn('f'), u.P(rc=1))]),
    'exists:contents-text-matcher-run': _pl([ASSERT], F4, ['p'],
                                            lambda u: ['file %s = "hi"' % u.fn('f'),
                                                       'exists %s : contents run %s' % (u.fn('f'), u.P())]),
    'dir-contents:every-file-matcher-run': _pl([ASSERT], F4, ['p'],
                                               lambda u: _dir_a(u) + ['dir-contents %s : every file : run %s'
                                                                      % (u.fn('d'), u.P())]),
    'dir-contents:selection-file-matcher-run': _pl([ASSERT], F4, ['p'],
                                                   lambda u: _dir_a(u) + ['dir-contents %s : -selection run %s'
                                                                          % (u.fn('d'), u.P()),
                                                                          '  num-files == 1']),
    'dir-contents:pruned-file-matcher-run': _pl([ASSERT], F4, ['p'],
                                                lambda u: ['dir %s = {' % u.fn('d'), '  dir sub = {', '    file b',
                                                           '  }', '}',
                                                           'dir-contents %s : -recursive -with-pruned run %s'
                                                           % (u.fn('d'), u.P()),
                                                           '  num-files == 1']),
    'dir-contents:files-condition-file-matcher-run': _pl([ASSERT], F4, ['p'],
                                                         lambda u: _dir_a(u) + ['dir-contents %s : matches {'
                                                                                % u.fn('d'),
                                                                                '  a : run ' + u.P(),
                                                                                '}']),
    'symbol:file-matcher': _pl([ASSERT], F4, ['p'],
                               lambda u: (u.pre('def file-matcher %s = run %s' % (u.sym('FM'), u.P())),
                                          ['file %s = "hi"' % u.fn('f'),
                                           'exists %s : %s' % (u.fn('f'), u.sym('FM'))])[1]),
    'symbol:text-matcher': _pl([ASSERT], F4, ['p'],
                               lambda u: (u.pre('def text-matcher %s = run %s' % (u.sym('TM'), u.P())),
                                          ['stdout %s' % u.sym('TM')])[1]),
    'symbol:files-matcher': _pl([ASSERT], F4, ['p'],
                                lambda u: (u.pre('def files-matcher %s = every file : run %s' % (u.sym('FSM'), u.P())),
                                           _dir_a(u) + ['dir-contents %s : %s' % (u.fn('d'), u.sym('FSM'))])[1]),
    # ---- the action, per actor ----------------------------------------------------------------------
    'act:command-line': _pl([ACT], F4 + ['python'], ['p'], lambda u: [u.P(out='hi', stdin=True)], kind='act'),
    'act:command-line+transformation': _pl([ACT], F4, ['p'],
                                           lambda u: [u.P(out='HI'), '-transformed-by char-case -to-lower'],
                                           kind='act'),
    'act:command-line+transformer-run': _pl([ACT], F4, ['main', 'tr'],
                                            lambda u: [u.P('main', out='hi'),
                                                       '-transformed-by run ' + u.P('tr', cat=True)], kind='act'),
    'act:command-line+stdin-from-pgm': _pl([ACT], F4, ['main', 'src'],
                                           lambda u: [u.P('main', out='hi', stdin=True),
                                                      '-stdin -stdout-from ' + u.P('src', out='x')], kind='act'),
    'act:file-interpreter': _pl([ACT], ['path', 'pct'], ['p'],
                                lambda u: (u.conf('actor = file ' + u.P(out='hi')), u.file('c19-src.txt', 'src\n'),
                                           ['c19-src.txt arg1 arg2'])[2], kind='act'),
    'act:source-interpreter': _pl([ACT], ['path', 'pct'], ['p'],
                                  lambda u: (u.conf('actor = source ' + u.P(out='hi')),
                                             ['any source', 'of two lines'])[1], kind='act'),
    'act:source-interpreter(--actor)': _pl([ACT], ['path'], ['p'],
                                           lambda u: (u.argv(['--actor', u.P(out='hi')]),
                                                      ['any source', 'of two lines'])[1], kind='act'),
}
PLACE_NAMES = list(PLACES)

HISTS = ['default', 'before', 'before-early', 'after', 'none-then-value', 'value-then-none']

# closed vocabulary of INTEGER expressions (value computed here, never by Exactly)
TIMEOUT_VOCAB = [('none', None), ('7', 7), ('1000', 1000), ('61', 61), ('59', 59), ('5+2', 7), ('2*4', 8),
                 ('10-1', 9), ('3600', 3600), ('30', 30), ('86400', 86400), ('600', 600), ('"12"', 12), ('(3+4)*2', 14)]


# =============================================================================================
# Generator
# =============================================================================================
def _T(phase, text, val):
    return [phase, 'T', text, val]


def _U(phase, place, form, uid):
    return [phase, 'U', place, form, uid]


def _S(phase, sid):
    return [phase, 'S', sid]


def _F(phase, fid):
    """a program run as an instruction that exits with 1: HARD_ERROR ([assert]: FAIL) - execution goes on with [cleanup]"""
    return [phase, 'F', fid]


def _hist_items(places, phase, form, hist):
    """Items of one part-A case: the uses of `places` (all in `phase`, same program form) under one timeout history.
    -> list of items, or None when the history does not exist there."""
    T7 = lambda ph: _T(ph, '7', 7)
    TN = lambda ph: _T(ph, 'none', None)
    us = [_U(phase, pl, form, 'u%d' % (k + 1)) for k, pl in enumerate(places)]
    p = PLACES[places[0]]
    if p['kind'] == 'act' or p['deferred']:
        # the process is started in the act phase; the timeout instructions live in [setup] / [before-assert]
        # (items are grouped by phase when rendered; a `stdin` use stays the last item of [setup])
        assert len(places) == 1
        if hist == 'default':
            return us
        if hist == 'before':
            return [T7(SETUP)] + us
        if hist == 'before-early':
            return None
        if hist == 'after':
            return us + [T7(BEFORE_ASSERT), _S(BEFORE_ASSERT, 's1'), _S(CLEANUP, 's2')]
        if hist == 'none-then-value':
            return [TN(SETUP), _S(SETUP, 's1'), T7(SETUP)] + us
        if hist == 'value-then-none':
            return [T7(SETUP), _S(SETUP, 's1'), TN(SETUP)] + us
        raise ValueError(hist)
    if hist == 'default':
        return us
    if hist == 'before':
        return [T7(phase)] + us
    if hist == 'before-early':
        if phase == SETUP:
            return None
        return [T7(SETUP)] + us
    if hist == 'after':
        return us + [T7(phase), _S(phase, 's1')]
    if hist == 'none-then-value':
        return [TN(phase), _S(phase, 's1'), T7(phase)] + us
    if hist == 'value-then-none':
        return [T7(phase)] + us + [TN(phase)] + [_U(phase, pl, form, 'v%d' % (k + 1)) for k, pl in enumerate(places)]
    raise ValueError(hist)


A_BATCH = 6  # places per part-A case (every place still meets every form x history x phase)
ALL_FORMS = F4 + ['python']


def _part_a(tier):
    groups = []  # (phase, form, [places])
    for phase in INSTR_PHASES:
        for form in ALL_FORMS:
            pls = [pl for pl in PLACE_NAMES if PLACES[pl]['kind'] != 'act' and not PLACES[pl]['deferred']
                   and phase in PLACES[pl]['phases'] and form in PLACES[pl]['forms']]
            for k in range(0, len(pls), A_BATCH):
                groups.append((phase, form, pls[k:k + A_BATCH]))
    for pl in PLACE_NAMES:
        if PLACES[pl]['kind'] == 'act' or PLACES[pl]['deferred']:
            for form in PLACES[pl]['forms']:
                groups.append((PLACES[pl]['phases'][0], form, [pl]))
    for phase, form, pls in groups:
        for hist in HISTS:
            items = _hist_items(pls, phase, form, hist)
            if items is None:
                continue
            modes = ['normal']
            # --act ("[before-assert] and [assert] are skipped") is an extra on top of the exhaustive table
            if phase in (SETUP, ACT, CLEANUP) and (tier == 'thorough' or hist in ('before', 'value-then-none')):
                modes.append('act')
            for mode in modes:
                yield {'part': 'A', 'mode': mode, 'items': items, 'kill': None,
                       'label': {'phase': phase, 'form': form, 'hist': hist, 'places': pls}}


def _part_f(tier):
    """Timeout histories around a FAILING step: the timeout in force when an instruction fails is the one [cleanup]
    runs under (nothing puts the default back), and nothing after the failure is started."""
    n = 0
    for fphase in INSTR_PHASES:
        for tphase in INSTR_PHASES:
            if PHASE_ORDER.index(tphase) > PHASE_ORDER.index(fphase):
                continue
            for text, val in (('7', 7), ('none', None), ('3600', 3600)):
                n += 1
                items = [_S(tphase, 's0'), _T(tphase, text, val), _S(tphase, 's1')]
                if tphase != fphase:
                    items.append(_S(fphase, 's2'))
                items.append(_F(fphase, 'f1'))
                # none of these is reached (the failing phase halts; later phases except [cleanup] are skipped)
                items.append(_S(fphase, 'n1'))
                for ph in INSTR_PHASES:
                    if PHASE_ORDER.index(ph) > PHASE_ORDER.index(fphase) and ph != CLEANUP:
                        items.append(_S(ph, 'n_' + ph.replace('-', '')))
                if fphase != CLEANUP:
                    items += [_S(CLEANUP, 'c1'), _T(CLEANUP, '11', 11), _S(CLEANUP, 'c2')]
                yield {'part': 'F', 'mode': 'normal', 'items': items, 'kill': None,
                       'label': {'fail_phase': fphase, 'timeout_phase': tphase, 'value': text}}
    # no timeout instruction at all: the default stays in force in [cleanup]
    for fphase in INSTR_PHASES[:-1]:
        yield {'part': 'F', 'mode': 'normal', 'items': [_S(SETUP, 's0'), _F(fphase, 'f1'), _S(CLEANUP, 'c1')],
               'kill': None, 'label': {'fail_phase': fphase, 'timeout_phase': '-', 'value': 'default'}}


def expected_outcome_f(case):
    f = [it for it in case['items'] if it[1] == 'F']
    return ('FAIL', 32) if f[0][0] == ASSERT else ('HARD_ERROR', 128)


_KILL_BEHS = ('sleep', 'igterm')
_PASS_BEHS = ('early', 'none-sleep')


def _b_case(place, phase, form, tag, beh, hist, mode='normal'):
    p = PLACES[place]
    started_in_act = p['kind'] == 'act' or p['deferred']
    tphase = SETUP if started_in_act else phase
    U1 = _U(phase, place, form, 'u1')
    T = lambda ph, n: _T(ph, str(n), n)
    if beh in _KILL_BEHS:
        if hist == 'before':
            pre = [T(tphase, 1)]
        elif hist == 'early-setup':
            pre = [T(SETUP, 1)]
        elif hist == 'none-then-value':
            pre = [_T(tphase, 'none', None), T(tphase, 1)]
        else:
            raise ValueError(hist)
    elif beh == 'early':
        pre = [T(tphase, 5)]
    elif beh == 'none-sleep':
        pre = [T(tphase, 1), _T(tphase, 'none', None)]
    else:
        raise ValueError(beh)
    # the cleanup marker must not depend on the 1 s limit: it gets its own generous timeout
    cl = [T(CLEANUP, 30), [CLEANUP, 'M']]
    if phase == CLEANUP:
        items = cl + pre + [U1]
    else:
        items = pre + [U1] + cl
    return {'part': 'B', 'mode': mode, 'items': items, 'kill': {'uid': 'u1', 'tag': tag, 'beh': beh},
            'label': {'place': place, 'phase': phase, 'form': form, 'hist': hist, 'tag': tag, 'beh': beh}}


def _b_targets():
    for place in PLACE_NAMES:
        p = PLACES[place]
        for phase in p['phases']:
            for tag in p['tags']:
                yield place, phase, tag


def _part_b(tier):
    """Ordered by cost class so that `index % nshards` balances the shards."""
    targets = list(_b_targets())
    by_cost = {'none-sleep': [], 'kill': [], 'early': []}

    def forms_of(place):
        return [f for f in PLACES[place]['forms'] if f != 'python']

    if tier == 'quick':
        for i, (place, phase, tag) in enumerate(targets):
            fs = forms_of(place)
            form = fs[i % len(fs)]
            by_cost['kill'].append(_b_case(place, phase, form, tag, 'sleep', 'before'))
            if i % 4 == 1:
                by_cost['kill'].append(_b_case(place, phase, fs[(i + 1) % len(fs)], tag, 'igterm',
                                               'none-then-value' if i % 8 == 1 else 'early-setup'
                                               if phase != CLEANUP else 'before'))
            if i % 4 == 2:
                by_cost['early'].append(_b_case(place, phase, fs[(i + 2) % len(fs)], tag, 'early', 'before'))
            if i % 6 == 3:
                by_cost['none-sleep'].append(_b_case(place, phase, fs[(i + 3) % len(fs)], tag, 'none-sleep', 'before'))
        for place in ('act:command-line', 'act:source-interpreter', 'run', 'stdin=stdout-from'):
            ph = PLACES[place]['phases'][-1 if place == 'run' else 0]
            by_cost['kill'].append(_b_case(place, ph, 'path', 'p', 'sleep', 'before', mode='act'))
    else:
        for i, (place, phase, tag) in enumerate(targets):
            for form in forms_of(place):
                for hist in ('before', 'early-setup', 'none-then-value'):
                    if hist == 'early-setup' and phase in (SETUP, CLEANUP, ACT):
                        continue
                    by_cost['kill'].append(_b_case(place, phase, form, tag, 'sleep', hist))
                by_cost['kill'].append(_b_case(place, phase, form, tag, 'igterm', 'before'))
                by_cost['early'].append(_b_case(place, phase, form, tag, 'early', 'before'))
                by_cost['none-sleep'].append(_b_case(place, phase, form, tag, 'none-sleep', 'before'))
                if phase in (SETUP, ACT, CLEANUP) and form == 'path':
                    by_cost['kill'].append(_b_case(place, phase, form, tag, 'sleep', 'before', mode='act'))
    for k in ('none-sleep', 'kill', 'early'):
        for c in by_cost[k]:
            yield c


def _part_r(tier, seed):
    rng = common.rng_for(seed, ID, 'R')
    n = 150 if tier == 'quick' else 2500
    instr_places = [pl for pl in PLACE_NAMES if PLACES[pl]['kind'] != 'act']
    act_places = [pl for pl in PLACE_NAMES if PLACES[pl]['kind'] == 'act']
    for _ in range(n):
        items = []
        k = rng.randint(3, 9)
        uid = 0
        sid = 0
        have_stdin = False
        for _j in range(k):
            phase = rng.choice(INSTR_PHASES)
            x = rng.random()
            if x < 0.42:
                text, val = rng.choice(TIMEOUT_VOCAB)
                items.append(_T(phase, text, val))
            elif x < 0.55:
                sid += 1
                items.append(_S(phase, 's%d' % sid))
            else:
                cands = [pl for pl in instr_places if phase in PLACES[pl]['phases']
                         and not (PLACES[pl]['deferred'] and have_stdin)]
                place = rng.choice(cands)
                if PLACES[place]['deferred']:
                    have_stdin = True
                uid += 1
                form = rng.choice(PLACES[place]['forms'])
                items.append(_U(phase, place, form, 'u%d' % uid))
        if rng.random() < 0.4:
            place = rng.choice(act_places)
            uid += 1
            items.append(_U(ACT, place, rng.choice(PLACES[place]['forms']), 'u%d' % uid))
        # `stdin = <program>`: keep it the last item of [setup] (see ASSUMPTIONS)
        st = [it for it in items if it[1] == 'U' and PLACES[it[2]]['deferred']]
        if st:
            items = [it for it in items if it is not st[0]] + st
        mode = 'act' if rng.random() < 0.15 else 'normal'
        yield {'part': 'R', 'mode': mode, 'items': items, 'kill': None, 'label': {}}


def _zero_cases():
    """The boundary value `timeout = 0`: a timeout like any other (every later process is started with timeout 0), not
    "no timeout".  Whether the process is then seen to expire depends on scheduling, so only the M2 record decides
    (the workload and its monitor are those of C11's kind `zero`)."""
    from vf.props import c11
    for c in c11._zero_cases():
        yield dict(c, part='Z')


def cases(tier, seed):
    for c in _zero_cases():
        yield c
    sampled = set()
    i = 0
    for gen in (_part_b(tier), _part_f(tier), _part_a(tier), _part_r(tier, seed)):
        for c in gen:
            kind = (c['part'], (c['kill'] or {}).get('beh'), c['label'].get('hist') if c['part'] == 'A' else None)
            wanted = kind in (('B', 'sleep', None), ('B', 'early', None), ('A', None, 'value-then-none'),
                              ('R', None, None))
            if i % 16 == 0 and wanted and kind not in sampled:
                sampled.add(kind)
                c = dict(c, sample=True)
            yield c
            i += 1


# =============================================================================================
# Reference model: which timeout is in force when each process is started
# =============================================================================================
def model(case):
    """-> (expected {probe id: timeout}, phase of use {probe id: set of phase names}).
    `help concept timeout`: default 60; "A change applies to all following instructions and phases."
    `help case`: with --act "[before-assert] and [assert] are skipped"."""
    exp = {}
    where = {}
    skipped = (BEFORE_ASSERT, ASSERT) if case['mode'] == 'act' else ()
    cur = DEFAULT_TIMEOUT
    deferred = []
    has_action_use = any(it[0] == ACT for it in case['items'])
    halted = False
    for phase in PHASE_ORDER:
        if phase in skipped:
            continue
        if halted and phase != CLEANUP:
            continue
        if phase == ACT:
            for ids in deferred:
                for i in ids:
                    exp[i] = cur
                    where[i] = {SETUP, ACT}
            if not has_action_use:
                exp['act'] = cur
                where['act'] = {ACT}
        for it in case['items']:
            if it[0] != phase:
                continue
            if halted and (phase != CLEANUP or halted == CLEANUP):
                continue
            if it[1] == 'T':
                cur = it[3]
            elif it[1] == 'F':
                exp[it[2]] = cur
                where[it[2]] = {phase}
                halted = phase
            elif it[1] == 'S':
                exp[it[2]] = cur
                where[it[2]] = {phase}
            elif it[1] == 'M':
                exp['m'] = cur
                where['m'] = {phase}
            elif it[1] == 'U':
                ids = ['%s.%s' % (it[4], t) for t in PLACES[it[2]]['tags']]
                if PLACES[it[2]]['deferred']:
                    deferred.append(ids)
                else:
                    for i in ids:
                        exp[i] = cur
                        where[i] = {phase}
    return exp, where


# =============================================================================================
# Rendering of a case
# =============================================================================================
class _Builder:
    def __init__(self, case_dir, case):
        self.dir = case_dir
        self.rec = os.path.join(case_dir, 'rec')
        self.fin = os.path.join(case_dir, 'finished')
        self.cleanup_marker = os.path.join(case_dir, 'cleanup-marker')
        self.case = case
        self.prelude = []
        self.conf_lines = []
        self.extra_argv = []
        self.files = {}

    def pgm(self, form, ctrl, symname):
        base = '%s %s %s' % (probe.PROBE, self.rec, ctrl)
        if form == 'path':
            return base
        if form == 'pct':
            return '% ' + base
        if form == 'shell':
            return '$ exec ' + base
        if form == 'sym':
            self.prelude.append('def program %s = %s' % (symname, base))
            return '@ ' + symname
        if form == 'python':
            return '-python -c "import sys;sys.stdout.write(\'hi\')" ' + ctrl
        raise ValueError(form)


class _Use:
    def __init__(self, b, uid, form, target_tag, target_ctrl):
        self.b, self.uid, self.form = b, uid, form
        self.target_tag, self.target_ctrl = target_tag, target_ctrl

    def P(self, tag='p', **ctrl):
        kw = {'id': '%s.%s' % (self.uid, tag)}
        kw.update(ctrl)
        if tag == self.target_tag:
            kw.update(self.target_ctrl)
        return self.b.pgm(self.form, probe.ctrl(**kw), ('%s_%s_PGM' % (self.uid, tag)).upper())

    def fn(self, name):
        return '%s-%s' % (self.uid, name)

    def sym(self, name):
        return ('%s_%s' % (self.uid, name)).upper()

    def pre(self, *lines):
        self.b.prelude.extend(lines)

    def conf(self, line):
        self.b.conf_lines.append(line)

    def argv(self, args):
        self.b.extra_argv.extend(args)

    def file(self, name, contents):
        self.b.files[name] = contents


def _target_ctrl(b, beh):
    if beh == 'sleep':
        return {'sleepms': 30000, 'fin': b.fin}
    if beh == 'igterm':
        return {'sleepms': 30000, 'fin': b.fin, 'igterm': True}
    if beh == 'early':
        return {'sleepms': 300, 'fin': b.fin}
    if beh == 'none-sleep':
        return {'sleepms': 1500, 'fin': b.fin}
    raise ValueError(beh)


def render(case, case_dir):
    """-> (text, files, extra_argv, builder)"""
    b = _Builder(case_dir, case)
    kill = case.get('kill')
    body = {ph: [] for ph in PHASE_ORDER}
    for it in case['items']:
        phase, kind = it[0], it[1]
        if kind == 'T':
            body[phase].append('timeout = ' + it[2])
        elif kind == 'S':
            body[phase].append('run ' + b.pgm('path', probe.ctrl(id=it[2]), None))
        elif kind == 'F':
            body[phase].append('run ' + b.pgm('path', probe.ctrl(id=it[2], rc=1), None))
        elif kind == 'M':
            body[phase].append('% ' + '%s - %s' % (probe.PROBE, probe.ctrl(id='m', mark=b.cleanup_marker + ':done')))
        elif kind == 'U':
            place, form, uid = it[2], it[3], it[4]
            tt, tc = None, {}
            if kill and kill['uid'] == uid:
                tt, tc = kill['tag'], _target_ctrl(b, kill['beh'])
            body[phase].extend(PLACES[place]['build'](_Use(b, uid, form, tt, tc)))
    if not body[ACT]:
        body[ACT] = [b.pgm('path', probe.ctrl(id='act', out='hi', stdin=True), None)]
    L = []
    if b.conf_lines:
        L += ['[conf]'] + b.conf_lines
    for ph in PHASE_ORDER:
        lines = (b.prelude if ph == SETUP else []) + body[ph]
        if lines:
            L.append('[%s]' % ph)
            L.extend(lines)
    return '\n'.join(L) + '\n', b.files, b.extra_argv, b


# =============================================================================================
# Monitors
# =============================================================================================
_ID_RE = re.compile(r'(?:^|[\s,])id=([A-Za-z0-9_.]+)')


def _id_of_call(rec):
    a = rec['args']
    s = a if isinstance(a, str) else ' '.join(str(x) for x in a)
    m = _ID_RE.search(s)
    return m.group(1) if m else None


def _same_timeout(observed, expected):
    if expected is None or observed is None:
        return observed is None and expected is None
    return (not isinstance(observed, bool)) and isinstance(observed, (int, float)) and observed == expected


def _proc_state(pid, token):
    """'dead' | 'alive' | 'zombie' | 'reused' (pid now belongs to a process that is not our probe)"""
    try:
        os.kill(pid, 0)
    except ProcessLookupError:
        return 'dead'
    except PermissionError:
        return 'reused'
    try:
        with open('/proc/%d/stat' % pid) as f:
            stat = f.read()
        with open('/proc/%d/cmdline' % pid, 'rb') as f:
            cmd = f.read()
    except OSError:
        return 'dead'
    try:
        state = stat.rsplit(')', 1)[1].split()[0]
    except IndexError:
        state = '?'
    if state == 'Z':
        return 'zombie'
    return 'alive' if token.encode() in cmd else 'reused'


def _describe_ids(case):
    d = {'act': 'the action (command line actor)', 'm': 'cleanup marker'}
    for it in case['items']:
        if it[1] == 'S':
            d[it[2]] = 'plain `run` in [%s]' % it[0]
        elif it[1] == 'U':
            for t in PLACES[it[2]]['tags']:
                d['%s.%s' % (it[4], t)] = 'place "%s"%s in [%s], program form %s' % (
                    it[2], '' if len(PLACES[it[2]]['tags']) == 1 else ' process "%s"' % t, it[0], it[3])
    return d


def _check_m2(case, r, exp, ctx, bad, inconc):
    """Every subprocess.call recorded for the case must carry the timeout in force at its instruction."""
    seen = {}
    desc = _describe_ids(case)
    for c in r.calls:
        i = _id_of_call(c)
        if i is not None and i not in exp and case.get('part') == 'F':
            bad('process %s was started although the step before it failed (execution must go on with [cleanup] only)' % i,
                {'m2_record': {k: c[k] for k in ('args', 'shell', 'timeout')}})
            continue
        if i is None or i not in exp:
            ctx.count('c19.unattributed_calls')
            inconc.append('a subprocess.call could not be attributed to a place: %r' % (c['args'],))
            continue
        ctx.count('c19.m2_records_checked')
        seen[i] = seen.get(i, 0) + 1
        if not _same_timeout(c['timeout'], exp[i]):
            bad('process %s = %s: started with timeout=%r, timeout in force at that point is %r'
                % (i, desc.get(i), c['timeout'], exp[i]),
                {'m2_record': {k: c[k] for k in ('args', 'shell', 'timeout')}, 'expected_timeout': exp[i]})
    return seen


def run_case(case, ctx):
    if case.get('part') == 'Z':
        from vf.props import c11
        r = c11._run_zero(case, ctx)
        for v in r['viol']:
            v['what'] = v['what'].replace('C11 timeout boundary', 'C19/Z timeout = 0')
        for k in ('c11.zero_timeout_m2_compared', 'c11.zero_timeout_expired'):
            pass
        r['classes'] = [('Z',) + tuple(c[1:]) for c in r['classes']]
        return r
    ses = ctx.get_session()
    d = ses.new_case_dir()
    text, files, extra_argv, b = render(case, d)
    files = dict(files)
    files['t.case'] = text
    from vf import driver
    driver.write_files(d, files)
    mode = case['mode']
    argv = (['--act'] if mode == 'act' else []) + extra_argv + [os.path.join(d, 't.case')]
    exp, where = model(case)
    lab = case['label']
    viol, inconc = [], []
    head = 'C19/%s %s' % (case['part'], ' '.join('%s=%s' % kv for kv in sorted(lab.items()) if kv[0] != 'places'))

    def bad(msg, detail=None):
        dd = {'case_text': text, 'argv': argv[:-1] + ['<case>'], 'mode': mode, 'observed': r.brief()}
        dd.update(detail or {})
        viol.append({'what': '%s: %s' % (head, msg), 'detail': dd})

    t0 = time.monotonic()
    r = ses.run(argv, cwd=d, mode=mode, watchdog_s=40)
    elapsed = time.monotonic() - t0
    kill = case.get('kill')
    outcome = '-'
    # the M2 records are facts whatever happened afterwards (also when the watchdog interrupted the run)
    seen = _check_m2(case, r, exp, ctx, bad, inconc)
    if r.timed_out:
        inconc.append('watchdog (40 s) fired')
        outcome = 'watchdog'
    elif r.exc is not None:
        inconc.append('exception escaped MainProgram.execute: %s' % r.exc[-300:])
        outcome = 'exception'
    else:
        ident = driver.first_line(r.out) if mode == 'normal' else \
            next((l for l in r.err.split('\n') if l in driver.OUTCOME_TABLE), 'completed')
        outcome = ident
        if kill is None:
            # ---------------- part A / R : nothing waits, everything must have been reached ---------
            ok = (r.rc == 0 and ident == 'PASS') if mode == 'normal' else (r.rc == 0 and ident == 'completed')
            if case['part'] == 'F':
                ok = (ident, r.rc) == expected_outcome_f(case)
                ctx.count('c19.failure_histories')
            if not ok:
                inconc.append('generated case did not pass (rc=%r %s): %s' % (r.rc, ident, r.err[:600]))
            for i in exp:
                if i in seen:
                    ctx.count('c19.places_reached')
                else:
                    ctx.count('c19.places_not_reached')
                    inconc.append('no subprocess.call observed for %s = %s (monitor not reached)'
                                  % (i, _describe_ids(case).get(i)))
            if r.new_tmp_entries:
                bad('sandbox (or other temp entries) left behind: %r' % (r.new_tmp_entries,))
        else:
            outcome = _check_real(case, b, r, ident, elapsed, exp, where, seen, ctx, bad, inconc)
    _hygiene(b)
    ses.clean_tmp()
    ses.drop(d)
    if case['part'] == 'A':
        cls = [('A', pl, lab['phase'], lab['form'], lab['hist'], mode) for pl in lab['places']]
    elif case['part'] == 'F':
        cls = [('F', lab['fail_phase'], lab['timeout_phase'], lab['value'], outcome)]
    elif case['part'] == 'B':
        cls = [('B', lab['place'], lab['tag'], lab['phase'], lab['form'], lab['beh'], lab['hist'], mode, outcome)]
    else:
        places = sorted({it[2] for it in case['items'] if it[1] == 'U'})
        cls = [('R', sum(1 for it in case['items'] if it[1] == 'T'), mode, places)]
    n_uses = sum(1 for it in case['items'] if it[1] == 'U')
    res = {'classes': cls, 'viol': viol, 'inconclusive': inconc, 'evaluations': max(1, n_uses)}
    if case.get('sample'):
        res['sample'] = {'part': case['part'], 'label': lab, 'argv': argv[:-1] + ['<case>'],
                         'case_text': text.replace(d, '<CASE-DIR>'),
                         'expected_timeout_per_process': exp,
                         'observed_m2': [[_id_of_call(c), c['timeout']] for c in r.calls],
                         'observed': {'rc': r.rc, 'stdout': r.out[:60], 'stderr_head': r.err[:160],
                                      'new_tmp_entries': r.new_tmp_entries},
                         'real_process_check': getattr(b, 'real_obs', None)}
    return res


def _hygiene(b):
    """Never leave a sleeping probe behind, whatever happened."""
    for rec in probe.read_records(b.rec):
        if _proc_state(rec['pid'], b.rec) == 'alive':
            try:
                os.kill(rec['pid'], 9)
            except OSError:
                pass


def _check_real(case, b, r, ident, elapsed, exp, where, seen, ctx, bad, inconc):
    """Part B: logical facts only.  Everything below is read immediately after execute() returned."""
    kill = case['kill']
    beh = kill['beh']
    mode = case['mode']
    tid = '%s.%s' % (kill['uid'], kill['tag'])
    fin_at_return = os.path.exists(b.fin)
    recs = [x for x in probe.read_records(b.rec) if x['id'] == tid]
    states = [(x['pid'], _proc_state(x['pid'], b.rec)) for x in recs]
    marker = os.path.exists(b.cleanup_marker)
    obs = {'target': tid, 'behaviour': beh, 'finished_marker_at_return': fin_at_return, 'probe_pids': states,
           'cleanup_marker': marker, 'identifier': ident, 'rc': r.rc}
    b.real_obs = obs
    if not recs:
        inconc.append('the target process %s was never started (no probe record): %s' % (tid, r.err[:400]))
        return ident
    if tid not in seen:
        inconc.append('no subprocess.call observed for the target %s' % tid)
    in_phase = sorted(where[tid])
    phase_lines = ['In [%s]' % p for p in in_phase]
    if beh in _KILL_BEHS:
        ctx.count('c19.kill_decided')
        # 1. reported as HARD_ERROR, attributed to the phase of the use
        if ident != 'HARD_ERROR' or r.rc != 128:
            bad('child exceeding the timeout must give HARD_ERROR/128, got %s/%r' % (ident, r.rc), obs)
        elif not any(l.strip() in phase_lines for l in r.err.split('\n')):
            bad('HARD_ERROR not attributed to the phase of use %s' % in_phase, obs)
        if mode == 'normal' and r.out != 'HARD_ERROR\n' and ident == 'HARD_ERROR':
            bad('stdout must be exactly the identifier line', obs)
        # 2. the child is gone, and never reached its natural end
        if fin_at_return:
            bad('Exactly returned only after the natural end of the child (its finished-marker exists); '
                'the timeout did not terminate it', obs)
        alive = [p for p, s in states if s == 'alive']
        if alive:
            bad('child process %r still alive after Exactly returned' % alive, obs)
        for p, s in states:
            if s == 'zombie':
                ctx.count('c19.zombies_seen')
        # ... also a little later
        time.sleep(0.05)
        later = [(x['pid'], _proc_state(x['pid'], b.rec)) for x in recs]
        obs['probe_pids_later'] = later
        obs['finished_marker_later'] = os.path.exists(b.fin)
        if not alive and [p for p, s in later if s == 'alive']:
            bad('child process alive (again?) 50 ms after Exactly returned', obs)
        if not fin_at_return and obs['finished_marker_later']:
            bad('finished-marker of the child appeared after Exactly returned: the child was not terminated', obs)
    else:
        ctx.count('c19.nokill_decided')
        passed = (ident == 'PASS' and r.rc == 0) if mode == 'normal' else (ident == 'completed' and r.rc == 0)
        limit = {'early': 5, 'none-sleep': None}[beh]
        if not passed:
            if limit is not None and elapsed >= limit:
                inconc.append('machine too slow: a 0.3 s child ran into the %d s timeout (%.1f s elapsed)'
                              % (limit, elapsed))
            else:
                bad('child that ends within the timeout in force (%s) must not be an error, got %s/%r'
                    % ('none' if limit is None else '%d s' % limit, ident, r.rc), obs)
        elif not fin_at_return:
            bad('case passed but the child never reached its end (no finished-marker): it was not waited for', obs)
    # 3. cleanup still runs, sandbox removed
    if not marker:
        bad('[cleanup] did not run (marker file missing)', obs)
    if r.new_tmp_entries:
        bad('sandbox not removed: %r' % (r.new_tmp_entries,), obs)
    return ident
