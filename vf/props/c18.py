"""C18 Mistakes in a test case are reported as such, never as internal errors.
Grammar-based fuzzing through the real CLI (D1) with an exception monitor and the outcome-table monitor (M3)."""
import os
import re

from vf import common
from vf.models import c18_grammar as G

ID = 'C18'
LEVEL = 'exploration'
RULE = ('cases = valid test cases derived from a grammar written from the reference manual (every instruction of every '
        'phase, every form of every type; each valid use is itself executed and must PASS), each subjected to one '
        'labelled mutation (token deletion / duplication / transposition / replacement from a closed vocabulary / '
        'splitting / halving, quote imbalance, end of file at every character, wrong-type symbol, unknown instruction, '
        'unknown or malformed phase header, ill-formed or extreme INTEGER / REGEX / replacement / GLOB / STRING), plus '
        'seeded cases of several instructions per phase with 1-3 such mutations; class key = (phase, instruction, '
        'mutation label, kind of the mutated token, observed exit identifier); a case is non-trivial when '
        'MainProgram.execute returned or raised and its (exit code, stdout, stderr) went through the C18 oracle')
ASSUMPTIONS = [
    'a mutated case may still be valid: PASS/FAIL/HARD_ERROR are accepted for every label except those whose input is '
    'ill-formed by construction (bad-int, bad-regex, bad-repl, unknown-instruction, unknown-phase, definitely wrong '
    'symbol type) - for these the outcome must be exit 65 or HARD_ERROR, as the statement says',
    'that demand is not made for `def` (the manual does not say that the value of an unreferenced definition is '
    'evaluated; observed: it is not), for mutants of the [act] phase and of the actor-specific [conf] uses',
    'location rule for exit 65: stderr names `line N` of the case file and shows the text of that line; for an error in '
    'the [act] phase (which Exactly reports by phase and actor, without a line number) stderr must name [act] and show '
    'a source line of the act phase',
    'INTEGER is evaluated by Python eval inside Exactly: integer tokens come from a closed vocabulary (digits, + - * // % '
    '( ), names a/None/True, quotes); ** only in three fixed bounded powers, no shifts, no calls, no attribute access',
    'programs are true/echo/cat/sh/the python interpreter with `-c pass`/a two-line home-made script; shell lines use '
    'echo/cat/exit with relative redirections; no absolute path and no `.`/`..` occurs in the vocabulary; all files a '
    'valid use needs exist - so nothing in a generated case can fail for a non-textual reason',
    '[cleanup] never gets a mutation that inserts a reference to a symbol defined in the case (DESIGN section 6: a '
    'skipped def referenced from [cleanup] is outside the quantifier)',
    'no generated `copy` / `dir-contents-of` names a directory that contains its own destination (copying the act '
    'directory into itself recurses until RecursionError -> INTERNAL_ERROR; not one of the classes of the statement) '
    'and no chain of symbol definitions is deeper than 300 (a 2000-deep chain ends in RecursionError)',
    'only `exactly FILE` (no --act/--keep, no suites, no preprocessor); case files are valid UTF-8',
]
EXHAUSTIVE_NOTE = ('deterministic core (both tiers, seed independent): every template (valid use) x every token x every '
                   'labelled mutation, and end-of-file at every character of every minimal use')
MIN_OBS = {'quick': {'evaluations': 25000, 'c18.judged': 25000, 'c18.valid_base_pass': 400, 'c18.exit65_located': 15000,
                     'c18.must_report_checked': 3000, 'classes': 2000},
           'thorough': {'evaluations': 100000, 'c18.judged': 100000, 'c18.valid_base_pass': 3000,
                        'c18.exit65_located': 60000, 'c18.must_report_checked': 4000, 'classes': 5000}}

MUST_REPORT_LABELS = ('bad-int', 'bad-regex', 'bad-repl', 'unknown-instruction', 'unknown-phase', 'wrong-type!')


# ---------------------------------------------------------------------------------------------
# generation
# ---------------------------------------------------------------------------------------------
def _blocks(tp, phase, target_text):
    blocks = {phase: [target_text]}
    if tp.conf:
        blocks['conf'] = list(tp.conf) + blocks.get('conf', [])
    if tp.act and phase != 'act':
        blocks['act'] = ['\n'.join(tp.act)]
    return blocks


def _case(tp, phase, label, detail, k, kind, text, must=False, target=None):
    return {'tpl': tp.key, 'instr': tp.instr, 'group': tp.group, 'phase': phase, 'label': label, 'detail': detail[:60],
            'tok': k, 'kind': kind, 'text': text, 'must_report': bool(must), 'target': target}


def _phases_of(tp, ti):
    if tp.phases == G.MULTI_PHASES:
        if tp.minimal:
            return list(tp.phases)
        ph = G.MULTI_PHASES[ti % 4]
        if ph == 'cleanup' and 'S_' in tp.text:
            ph = 'assert'
        return [ph]
    return list(tp.phases)


def _rot(values, k, salt, n):
    """n of the values, rotating with (salt, k) so that across templates and tokens every value is used."""
    if n >= len(values):
        return list(values)
    start = (salt * 5 + k * n) % len(values)
    return [values[(start + j) % len(values)] for j in range(n)]


def _needs_fixture(tp):
    return any(w in tp.text for w in ('f.txt', 'p:d`', 'p:md`', 'm.txt', 'EXACTLY_ACT]@/md'))


def template_cases(tp, ti, phase, n, full=False):
    """The valid use and its deterministic mutants.  full=False: the core (vocabularies of hostile values that are
    not decisive for the statement are rotated over tokens); full=True: additionally everything the core left out."""
    base, toks = G.render(tp.text, n)
    fixture = _needs_fixture(tp)
    in_cleanup = phase == 'cleanup'

    def asm(target_text, rename=None):
        text, spans = G.assemble(_blocks(tp, phase, target_text), target_text + ' ' + base, need_fixture=fixture)
        if rename:
            text = text.replace('[%s]\n' % phase, rename + '\n', 1)
        return text, spans

    text0, spans0 = asm(base)
    first_line = spans0[phase][0][0]
    tgt = [first_line, spans0[phase][0][1]]
    out = []

    def emit(label, detail, k, kind, target_text, must=False, rename=None, whole=None):
        if in_cleanup and 'S_' in detail:
            return  # guard: no inserted reference to a case-defined symbol in [cleanup]
        out.append(_case(tp, phase, label, detail, k, kind, whole if whole is not None else asm(target_text, rename)[0],
                         must=must, target=tgt))

    if not full:
        emit('valid', '', -1, '-', base)
    can_demand = tp.uses_value and (phase != 'act') and not tp.conf
    n_repl = 6 if tp.minimal else 2
    for k, t in enumerate(toks):
        if not full:
            for label, detail, new in G.generic_token_mutations(base, toks, k, ti, n_repl):
                emit(label, detail, k, t.kind, new)
        else:
            for j, rep in enumerate(G.REPLACEMENTS):
                if (j + ti + k) % 4 == 0 and rep != t.text:
                    emit('replace', rep, k, t.kind, G._sub(base, t.start, t.end, rep))
        wt = G.wrong_type_symbols(t, allow_case_symbols=not in_cleanup)
        core_wt = wt if (t.kind == 'sym' or in_cleanup) else _rot(wt, k, ti, 4)
        for rep, typ, wrong in (core_wt if not full else [w for w in wt if w not in core_wt]):
            lab = 'wrong-type!' if (wrong and can_demand) else 'wrong-type'
            emit(lab, typ, k, t.kind, G._sub(base, t.start, t.end, rep), must=(lab == 'wrong-type!'))
        kv = G.kind_values(t.kind)
        always = [x for x in kv if x[0].startswith('bad-') or x[0] == 'nul-char']
        core_kv = always + _rot([x for x in kv if x not in always], k, ti, 6)
        for label, val in (core_kv if not full else [x for x in kv if x not in core_kv]):
            must = label.startswith('bad-') and can_demand
            emit(label, val, k, t.kind, G._sub(base, t.start, t.end, val), must=must)
        if t.kind == 'name' and phase != 'act' and k == 0 and not full:
            names = ['no-such-instruction', 'no-such-{0}-{x}', '%s']
            if tp.minimal:
                names += [t.text + 'x', t.text.upper() if t.text.upper() != t.text else 'Xx']
            for nm in names:
                emit('unknown-instruction', nm, k, t.kind, G._sub(base, t.start, t.end, nm), must=True)
    # end of file at every character of the instruction
    off = _offset_of_line(text0, first_line)
    if not full:
        every = 1 if tp.minimal else 3
        for label, detail, cut in G.char_truncations(base, every):
            emit(label, detail, -1, '-', None, whole=text0[:off] + cut)
    elif not tp.minimal:
        for label, detail, cut in G.char_truncations(base, 1):
            if label == 'truncate' and detail.startswith('at-char-') and int(detail[8:]) % 3:
                emit(label, detail, -1, '-', None, whole=text0[:off] + cut)
    # the whole file in another form
    if tp.minimal and not full:
        for form, whole in G.file_forms(text0):
            emit('file-form', form, -1, 'file', None, whole=whole)
    # phase header mutations
    if tp.minimal and not full:
        for hdr, must in (('[no-such-phase]', True), ('[%s' % phase, False), ('%s]' % phase, False),
                          ('[ %s ]' % phase, False), ('[%s] x' % phase, False), ('[%s]' % phase.upper(), True),
                          ('[]', False), ('[[%s]]' % phase, False), ('\\[%s]' % phase, False)):
            emit('unknown-phase' if must else 'phase-header', hdr, -1, 'header', base, must=must, rename=hdr)
    return out


def _offset_of_line(text, line_no):
    off = 0
    for _ in range(line_no - 1):
        off = text.index('\n', off) + 1
    return off


def cases(tier, seed):
    n = 0
    for ti, tp in enumerate(G.TEMPLATES):
        for phase in _phases_of(tp, ti):
            n += 1
            for c in template_cases(tp, ti, phase, n):
                yield c
            if tier == 'thorough':
                for c in template_cases(tp, ti, phase, n, full=True):
                    yield c
    for name, text in G.extreme_structures():
        yield {'tpl': 'extreme', 'instr': 'extreme', 'group': 'extreme', 'phase': 'all', 'label': 'extreme-structure',
               'detail': name, 'tok': -1, 'kind': 'file', 'text': text, 'must_report': False, 'target': None}
    n_seeded = 160 if tier == 'quick' else 4000
    rng = common.rng_for(seed, ID, 'seeded')
    for j in range(n_seeded):
        for c in seeded_cases(rng, j, 12 if tier == 'quick' else 15):
            yield c


# ----- seeded: larger cases, 1-3 mutations -----------------------------------------------------------
def _pool(phase):
    out = []
    for tp in G.TEMPLATES:
        if phase in tp.phases and not tp.conf and tp.instr != 'including':
            if phase == 'cleanup' and 'S_' in tp.text:
                continue
            out.append(tp)
    return out


_POOLS = {}


def seeded_cases(rng, j, n_mut):
    """One larger valid case (several instructions per phase, drawn from the templates) and n_mut mutants of it."""
    if not _POOLS:
        for ph in G.PHASE_ORDER:
            _POOLS[ph] = _pool(ph)
    counter = [1000 + j * 40]
    chosen = []  # (phase, tp, base text, toks)
    blocks = {}
    act_tp = rng.choice(_POOLS['act'])
    conf_lines = []
    if rng.random() < 0.3:
        conf_lines.append(rng.choice(['status = PASS', 'actor = command']))
    used = set()
    for ph in ('setup', 'act', 'before-assert', 'assert', 'cleanup'):
        tps = [act_tp] if ph == 'act' else [rng.choice(_POOLS[ph]) for _ in range(rng.randint(1, 4))]
        for tp in tps:
            if tp.act and tp.act != G.ACT_DEFAULT:
                continue
            if tp.key in used:
                continue  # a use may create a file with a fixed name: at most once per case
            used.add(tp.key)
            counter[0] += 1
            base, toks = G.render(tp.text, counter[0])
            chosen.append((ph, tp, base, toks))
    # [assert] instructions that look at the action's output assume `% echo hello`; keep only if that is the action
    act_is_default = chosen and any(ph == 'act' and base == '% echo hello' for ph, tp, base, toks in chosen)
    chosen = [c for c in chosen if not (c[1].act == G.ACT_DEFAULT and c[0] != 'act' and not act_is_default)]

    def build(replaced):
        blocks = {}
        if conf_lines:
            blocks['conf'] = list(conf_lines)
        mention = []
        for idx, (ph, tp, base, toks) in enumerate(chosen):
            txt = replaced.get(idx, base)
            blocks.setdefault(ph, []).append(txt)
            mention.append(base)
            mention.append(txt)
        return G.assemble(blocks, ' '.join(mention))[0]

    ident = 'seeded%d' % j
    text0 = build({})
    yield {'tpl': ident, 'instr': 'several', 'group': 'seeded', 'phase': 'all', 'label': 'valid', 'detail': '', 'tok': -1,
           'kind': '-', 'text': text0, 'must_report': False, 'target': None}
    for m in range(n_mut):
        replaced = {}
        labels = []
        kinds = []
        instrs = []
        for _ in range(rng.choice((1, 1, 1, 2, 3))):
            idx = rng.randrange(len(chosen))
            ph, tp, base, toks = chosen[idx]
            if idx in replaced or not toks:
                continue
            k = rng.randrange(len(toks))
            t = toks[k]
            cands = list(G.generic_token_mutations(base, toks, k, rng.randrange(1000), 2))
            for label, val in G.kind_values(t.kind):
                cands.append((label, val, G._sub(base, t.start, t.end, val)))
            for rep, typ, wrong in G.wrong_type_symbols(t, allow_case_symbols=(ph != 'cleanup')):
                cands.append(('wrong-type', typ, G._sub(base, t.start, t.end, rep)))
            if ph == 'cleanup':
                cands = [c for c in cands if 'S_' not in c[1]]
            label, detail, new = rng.choice(cands)
            replaced[idx] = new
            labels.append(label)
            kinds.append(t.kind)
            instrs.append('%s/%s' % (ph, tp.instr))
        text = build(replaced)
        if rng.random() < 0.15:
            cut = rng.randrange(len(text))
            text = text[:cut]
            labels.append('truncate')
        yield {'tpl': ident, 'instr': '+'.join(sorted(set(instrs)))[:80], 'group': 'seeded', 'phase': 'all',
               'label': '+'.join(sorted(labels)), 'detail': '', 'tok': -1, 'kind': '+'.join(sorted(set(kinds))),
               'text': text, 'must_report': False, 'target': None}


# ---------------------------------------------------------------------------------------------
# oracle
# ---------------------------------------------------------------------------------------------
_LINE_RE = re.compile(r'\bline (\d+)\b')
_UNIVERSAL_NL = re.compile(r'\r\n|\r|\n')
_TB = 'Traceback (most recent call last)'
_FRAME_RE = re.compile(r'File "([^"]+)", line \d+, in (\S+)')
ERR65 = ('SYNTAX_ERROR', 'VALIDATION_ERROR', 'FILE_ACCESS_ERROR')


def traceback_info(err: str) -> dict:
    """Summary of a Python traceback printed on stderr (used by the KNOWN predicates)."""
    i = err.find(_TB)
    if i < 0:
        return {}
    tb = err[i:]
    frames = _FRAME_RE.findall(tb)
    lib = [(f.split('exactly_lib/')[-1], fn) for f, fn in frames if 'exactly_lib/' in f]
    last = [l for l in tb.strip().split('\n') if l.strip()]
    exc_line = last[-1] if last else ''
    return {'exception': exc_line.split(':')[0].strip(), 'exception_line': exc_line[:200],
            'last_lib_frame': list(lib[-1]) if lib else None,
            'lib_frames': [list(x) for x in lib[-12:]],
            'step': next((s for s in ('validate_pre_sds', 'validate_post_setup', 'validate_post_sds', 'main', 'parse')
                          if any(fn == s for _, fn in lib)), None)}


def located(text: str, err: str):
    """The location rule for a 65 outcome.  -> None if satisfied, else a message."""
    lines = text.split('\n')
    nums = [int(x) for x in _LINE_RE.findall(err)]
    # the manual does not say which characters end a line: accept '\n' only, universal newlines (what reading a text
    # file gives: a lone CR also ends a line), or str.splitlines (FF, NEL, LS, ... too)
    shown = set(l.strip() for l in err.split('\n')) | set(l.strip() for l in _UNIVERSAL_NL.split(err)) \
        | set(l.strip() for l in err.splitlines())
    for view in (lines, _UNIVERSAL_NL.split(text), text.splitlines()):
        for n in nums:
            if 1 <= n <= len(view):
                src = view[n - 1].strip()
                if src and src in shown:  # the whole line, as a line of its own
                    return None
                if not src and view is lines:
                    # the named line consists of white space only (e.g. a lone form feed): there is no visible text
                    # that could be shown; naming the line is all that can be demanded
                    return None
    # act phase: reported by phase and actor, without line numbers
    if '[act]' in err:
        act = [l.strip() for l in _act_source_lines(lines) if l.strip()]
        if not act:
            return None  # nothing to show: the act phase is empty (e.g. `actor = command` without an action)
        for view in (lines, _UNIVERSAL_NL.split(text), text.splitlines()):
            if any(l.strip() in shown for l in _act_source_lines(view) if l.strip()):
                return None
        if 'actor' in text and re.search(r'\nActor "[^"\n]*"\n\n\n\n', err):
            # Exactly shows an EMPTY act phase.  With an explicitly configured actor that is possible although the
            # file has lines after an [act] header: an instruction with an unbalanced quote / missing last argument
            # may have absorbed the header (DESIGN section 6, outside the quantifier)
            return None
        if not nums:
            return 'error in [act] reported without any source line of the act phase'
    if not nums:
        return 'no `line N` on stderr'
    return '`line N` present but the text of that line of the case file is not shown'


def _act_source_lines(lines):
    """Lines of the act phase as Exactly shows them: [act] is the default phase; `\\[` and `\\\\` at the start of a
    line are escapes (help: phase [act])."""
    out, inside = [], True
    for l in lines:
        s = l.strip()
        if s.startswith('['):
            inside = (s[1:].split(']')[0].strip() == 'act')
            continue
        if inside:
            if s.startswith('\\[') or s.startswith('\\\\'):
                l = s[1:]
            out.append(l)
    return out


def judge(case, r, count):
    """-> (violations, inconclusive, ident)"""
    from vf.driver import OUTCOME_TABLE, check_outcome_table, first_line
    viol = []

    def bad(kind, msg, **extra):
        d = {'kind': kind, 'label': case['label'], 'mutation_detail': case['detail'],
             'observed': {'rc': r.rc, 'stdout': r.out[:200], 'stderr_head': r.err[:700], 'stderr_tail': r.err[-900:]},
             'case_text': case['text'][-3000:]}
        d.update(extra)
        viol.append({'what': 'C18 %s [%s/%s %s %s]: %s' % (kind, case['phase'], case['instr'], case['label'],
                                                           case['detail'][:30], msg), 'detail': d})

    if r.timed_out:
        return [], ['watchdog expired (input saved in the evidence)'], '-'
    if r.exc is not None:
        count('c18.escaped_exception')
        bad('escaped-exception', 'exception escaped MainProgram.execute: %s' % r.exc.strip().split('\n')[-1][:200],
            traceback=r.exc[-1500:])
        return viol, [], 'EXCEPTION'
    count('c18.judged')
    ident = first_line(r.out)
    for p in check_outcome_table('normal', r.rc, r.out, r.err):
        bad('outcome-table', p)
    if r.rc == 64:
        bad('outcome-table', 'exit 64 (invalid usage) for an existing case file given correctly on the command line')
    if ident not in OUTCOME_TABLE:
        ident = 'rc=%s' % r.rc
    tbi = traceback_info(r.err)
    if r.rc == 129 or ident == 'INTERNAL_ERROR':
        count('c18.internal_error')
        why = tbi.get('exception_line', '')[:120] if tbi else \
            'no traceback; stderr: ' + ' / '.join(l.strip() for l in r.err.split('\n') if l.strip())[:120]
        bad('internal-error', 'INTERNAL_ERROR for an input whose only defects are textual (%s)' % why, traceback=tbi)
    elif tbi.get('last_lib_frame'):  # a traceback of Exactly itself (a child python's own traceback is data)
        bad('traceback', 'Python traceback on stderr (%s)' % tbi.get('exception_line', '')[:120], traceback=tbi)
    if r.rc == 65 and ident in ERR65:
        msg = located(case['text'], r.err)
        if msg is None:
            count('c18.exit65_located')
        else:
            bad('location', '%s without the offending source: %s' % (ident, msg))
    if case['must_report']:
        count('c18.must_report_checked')
        if r.rc not in (65, 128, 129):
            bad('not-reported', 'ill-formed by construction (%s %s) but the outcome is %s/%s'
                % (case['label'], case['detail'][:40], ident, r.rc))
    return viol, [], ident


_HDR = re.compile(r'^\[(conf|setup|act|before-assert|assert|cleanup)\]$')
_SUITE_CASE_LINE = re.compile(r'^case\s+(\S+): \([^)]*\) (\S+)\s*$', re.M)
_SUITE_SAMPLE_LABELS = ('valid', 'bad-int', 'bad-regex', 'bad-repl', 'wrong-type!', 'wrong-type', 'unknown-instruction')


def _as_suite(text):
    """The instructions of the case moved into a suite file that lists three cases holding only the action: the same
    text, contributed to each case by the suite.  -> (suite text, case text) or None if the case does not split."""
    blocks = []
    cur = None
    for line in text.split('\n'):
        m = _HDR.match(line)
        if m:
            cur = [m.group(1), []]
            blocks.append(cur)
        elif line.lstrip().startswith('[') or cur is None:
            return None
        else:
            cur[1].append(line)
    if any(b[0] == 'conf' for b in blocks) or not any(b[0] != 'act' and any(l.strip() for l in b[1]) for b in blocks):
        return None
    act = '\n'.join(l for b in blocks if b[0] == 'act' for l in b[1])
    suite = '[cases]\nk1.case\nk2.case\nk3.case\n' + ''.join('[%s]\n%s\n' % (b[0], '\n'.join(b[1]))
                                                                for b in blocks if b[0] != 'act')
    return suite, '[act]\n' + act + '\n'


def _run_as_suite(case, ctx, ses, standalone_ident):
    """The statement speaks of whatever text a test case contains - also text a suite file contributes to it, where one
    parsed instruction serves every case of the run: every case is reported as the case alone is."""
    sp = _as_suite(case['text'])
    if sp is None:
        return []
    suite, ctext = sp
    files = dict(G.FILES)
    files.update({'s.suite': suite, 'k1.case': ctext, 'k2.case': ctext, 'k3.case': ctext})
    d = ses.new_case_dir(files)
    r = ses.run(['suite', os.path.join(d, 's.suite')], cwd=d, mode=None, m3=False)
    ctx.count('c18.suite_runs')
    viol = []
    if not r.timed_out:
        idents = [m.group(2) for m in _SUITE_CASE_LINE.finditer(r.out)]
        tb = traceback_info(r.err)
        detail = {'suite_text': suite[-2500:], 'case_text': ctext, 'observed': {'rc': r.rc, 'stdout': r.out[-600:],
                                                                               'stderr_tail': r.err[-900:]}}
        if r.exc is not None:
            viol.append({'what': 'C18 escaped-exception [suite run of %s/%s %s]: %s' % (
                case['phase'], case['instr'], case['label'], r.exc.strip().split('\n')[-1][:200]), 'detail': detail})
        elif r.rc == 3:
            ctx.count('c18.suite_invalid')  # the mistake is found when the suite file is read: reported as such
            if tb.get('last_lib_frame'):
                viol.append({'what': 'C18 traceback [suite run of %s/%s %s]: %s' % (
                    case['phase'], case['instr'], case['label'], tb.get('exception_line', '')[:120]), 'detail': detail})
        elif len(idents) == 3:
            ctx.count('c18.suite_cases_judged', 3)
            if standalone_ident != 'INTERNAL_ERROR' and 'INTERNAL_ERROR' in idents:
                viol.append({'what': 'C18 internal-error [suite run of %s/%s %s %s]: the same text contributed by a suite '
                                     'file to three cases is reported as %r (alone: %s)' % (
                                         case['phase'], case['instr'], case['label'], case['detail'][:30], idents,
                                         standalone_ident), 'detail': detail})
            elif len(set(idents)) != 1 and 'INTERNAL_ERROR' in idents:
                viol.append({'what': 'C18 internal-error [suite run of %s/%s %s]: cases with the same text are reported '
                                     'differently: %r' % (case['phase'], case['instr'], case['label'], idents),
                             'detail': detail})
    ses.clean_tmp()
    ses.drop(d)
    return viol


def run_case(case, ctx):
    ses = ctx.get_session()
    r, d = ses.run_case_text(case['text'], files=G.FILES, mode='normal')
    viol, inconc, ident = judge(case, r, ctx.count)
    if case['label'].split('+')[0] in _SUITE_SAMPLE_LABELS and not inconc and case['phase'] != 'act' and \
            (len(case['text']) + case['tok']) % 5 == 0:
        viol = viol + _run_as_suite(case, ctx, ses, ident)
    if case['label'] == 'valid' and not inconc and not viol:
        if r.rc == 0 and r.out == 'PASS\n':
            ctx.count('c18.valid_base_pass')
        else:
            inconc.append('valid use %s in [%s] is not accepted (%s): its mutants are not classified reliably'
                          % (case['tpl'], case['phase'], (r.out + r.err)[:300]))
    ses.clean_tmp()
    ses.drop(d)
    viol = _thin_out_known(viol, case, ctx)
    res = {'classes': [(case['phase'], case['instr'] if case['group'] != 'seeded' else 'seeded', case['label'],
                        case['kind'], ident)],
           'viol': viol, 'inconclusive': inconc}
    if case['label'] in _SAMPLE_LABELS and case['label'] not in _SAMPLED and (r.rc in (65, 129)):
        _SAMPLED.add(case['label'])
        res['sample'] = {'label': case['label'], 'mutation': case['detail'], 'case_text': case['text'][-1500:],
                         'expected': 'documented outcome; no INTERNAL_ERROR/traceback; exit 65 names line N and shows it'
                                     + ('; must be reported (65 or HARD_ERROR)' if case['must_report'] else ''),
                         'observed': {'rc': r.rc, 'stdout': r.out, 'stderr': r.err[:500]},
                         'violations': [v['what'] for v in viol]}
    return res


_SAMPLE_LABELS = ('bad-int', 'wrong-type!', 'quote', 'bad-regex', 'truncate', 'unknown-phase')
_SAMPLED = set()
_KNOWN_EMITTED = {}
_KNOWN_CAP = 6


def _thin_out_known(viol, case, ctx):
    """vf.worker stores at most 200 violations per worker.  Witnesses of a mechanism that is listed as an open known
    finding are therefore all counted (`c18.known.<key>`) but only the first few per worker are passed on, so that
    the store stays free for violations that no predicate explains."""
    if not viol:
        return viol
    from vf import known
    open_keys = [k for k in known.open_keys(ID) if k in KNOWN]
    out = []
    for v in viol:
        vv = common.jsonable({'case': case, 'what': v['what'], 'detail': v['detail']})
        key = next((k for k in open_keys if KNOWN[k](vv)), None)
        if key is None:
            out.append(v)
            continue
        ctx.count('c18.known.' + key)
        _KNOWN_EMITTED[key] = _KNOWN_EMITTED.get(key, 0) + 1
        if _KNOWN_EMITTED[key] <= _KNOWN_CAP:
            out.append(v)
    return out


def setup_worker(ctx):
    """Re-check, with this interpreter and independently of Exactly, that the 'ill-formed by construction'
    vocabularies are ill-formed (a harness error otherwise)."""
    import shlex
    for s in G.BAD_INTS:
        py = ''.join(shlex.split(s)) if ("'" in s or '"' in s) else s
        try:
            v = eval(py, {'__builtins__': {}}, {})
            ok = not isinstance(v, int)
        except Exception:
            ok = True
        assert ok, 'BAD_INTS entry evaluates to an int: %r' % s
    for s in G.BAD_REGEXES:
        try:
            re.compile(s[1:-1])
            ok = False
        except Exception:
            ok = True
        assert ok, 'BAD_REGEXES entry compiles: %r' % s
    for s in G.BAD_REPLS:
        for rx in ('x', 'X', '(h)(e)', '(?P<n>h)'):
            try:
                re.sub(rx, s[1:-1], 'hello\n')
                ok = False
            except Exception:
                ok = True
            assert ok, 'BAD_REPLS entry is accepted by re.sub: %r with %r' % (s, rx)


# ---------------------------------------------------------------------------------------------
# known findings: one predicate per MECHANISM
# ---------------------------------------------------------------------------------------------
def _tb(v):
    return (v.get('detail') or {}).get('traceback') or {}


def _internal(v, last_frame, exceptions, through=None, message=None):
    d = v.get('detail') or {}
    tb = _tb(v)
    if d.get('kind') != 'internal-error' or not isinstance(tb, dict):
        return False
    if tb.get('last_lib_frame') != list(last_frame) or tb.get('exception') not in exceptions:
        return False
    if through is not None and list(through) not in (tb.get('lib_frames') or []):
        return False
    if message is not None and message not in tb.get('exception_line', ''):
        return False
    return True


def _k_int_eval(v):
    """integer expression whose evaluation raises an exception type python_evaluate does not catch (it catches
    SyntaxError, ValueError, TypeError, NameError) -> INTERNAL_ERROR during validation"""
    return _internal(v, ('impls/types/integer/evaluate_integer.py', 'python_evaluate'),
                     ('ZeroDivisionError', 'OverflowError', 'MemoryError', 'RecursionError'))


def _k_replace_template(v):
    """replacement string that re.sub rejects -> INTERNAL_ERROR when the `replace` transformer is applied"""
    return _internal(v, ('impls/types/string_transformer/impl/replace/impl.py', 'process'),
                     ('re.error', 'error', 'IndexError'))


def _k_act_empty_path(v):
    """[act], command-line actor: empty string as the program PATH -> IndexError in parse_path, not translated by
    the act-phase parser (the same text in an instruction phase is a SYNTAX_ERROR)"""
    return _internal(v, ('impls/types/path/parse_path.py', '_first_fragment_is_symbol_that_can_act_as_path'),
                     ('IndexError',)) and 'In [act]' in _stderr(v)


def _k_act_lexer_whitespace(v):
    """[act], command-line actor: a character the tokenizer treats as white space but str.isspace-based scanning does
    not skip (form feed, U+0085, U+2028) -> IndexError in TokenStream.consume, not translated in the act phase"""
    return _internal(v, ('section_document/element_parsers/token_stream.py', 'consume'),
                     ('IndexError',)) and 'In [act]' in _stderr(v)


def _k_regex_home_path(v):
    """REGEX containing a reference to a path symbol relative to the home directory structure -> the regex
    validator resolves it post-sds with hds=None -> TypeError -> INTERNAL_ERROR"""
    return _internal(v, ('tcfs/hds.py', 'case_dir'), ('TypeError',),
                     through=('impls/types/regex/parse_regex.py', 'validate_post_sds_if_applicable'))


def _k_glob_empty(v):
    """`path ''`: empty GLOB-PATTERN -> ValueError('empty pattern') from pathlib -> INTERNAL_ERROR"""
    return _internal(v, ('impls/types/matcher/impls/matches_glob_pattern.py', '_match_path'), ('ValueError',),
                     message='empty pattern')


def _k_nul_char(v):
    """NUL character in a file name: ValueError('embedded null byte') from os / pathlib is not handled (instructions:
    INTERNAL_ERROR with traceback; `including`: processing-level INTERNAL_ERROR through the last-resort catch)"""
    d = v.get('detail') or {}
    tb = _tb(v)
    if d.get('kind') != 'internal-error' or '\x00' not in ((v.get('case') or {}).get('text') or ''):
        return False
    if isinstance(tb, dict) and tb:
        return tb.get('exception') == 'ValueError' and 'embedded null byte' in tb.get('exception_line', '')
    return 'Exception:\nembedded null byte' in _stderr(v)


def _k_timeout_overflow(v):
    """`timeout = N` with N beyond the float range (accepted by the instruction) -> OverflowError in
    subprocess when the next process is run -> INTERNAL_ERROR at that instruction"""
    return _internal(v, ('util/process_execution/process_executor.py', 'execute'), ('OverflowError',),
                     message='int too large to convert to float')


def _k_name_too_long(v):
    """file name longer than the file system allows (> 255 bytes): OSError(ENAMETOOLONG) is not translated to
    HARD_ERROR / VALIDATION_ERROR (seen in `copy`, `cd`, the PROGRAM path validator)"""
    d = v.get('detail') or {}
    tb = _tb(v)
    return (d.get('kind') == 'internal-error' and isinstance(tb, dict) and tb.get('exception') == 'OSError'
            and '[Errno 36] File name too long' in tb.get('exception_line', ''))


def _stderr(v):
    return ((v.get('detail') or {}).get('observed') or {}).get('stderr_head', '')


KNOWN = {
    'int-expr-uncaught-exception-type': _k_int_eval,
    'replace-invalid-replacement-template': _k_replace_template,
    'act-empty-program-path-indexerror': _k_act_empty_path,
    'act-lexer-whitespace-indexerror': _k_act_lexer_whitespace,
    'regex-home-path-symbol-hds-none': _k_regex_home_path,
    'glob-empty-pattern-valueerror': _k_glob_empty,
    'file-name-too-long-oserror': _k_name_too_long,
    'nul-char-in-file-name-valueerror': _k_nul_char,
    'timeout-beyond-float-range-overflowerror': _k_timeout_overflow,
}
