"""C20 Built-in help agrees with what the program accepts; the manual has no dead links (D1) - complete enumeration.

Three independently obtained sets are compared, name by name, over a candidate universe:
  (1) what the *parser* accepts    - observed by running one-instruction test cases / suite files through the real
                                     CLI and looking for the line "Unknown instruction: ..." (and, for names that the
                                     manual documents, by running a minimal valid use written from the manual),
  (2) what the *help listing* prints (`help PHASE instructions`, `help instructions`, `help PHASE`, `help suite SECTION`,
                                     `help ENTITY-TYPE`),
  (3) for which names the *help page* renders (`help PHASE NAME`, `help NAME`, `help suite SECTION NAME`,
                                     `help ENTITY-TYPE NAME`): exit 0, non-empty stdout, empty stderr, and it is the page
                                     of that very name (not the page of a sub-string match),
plus (4) the anchors of the generated HTML manual (`help htmldoc`).
Every verdict comes from output of `MainProgram.execute([...])`; exactly_lib data structures are imported only to
*enumerate candidate names* (so that something registered for parsing but hidden from the help is looked at)."""
import html.parser
import os
import re

ID = 'C20'
LEVEL = 'exploration'
EXHAUSTIVE = True
EXHAUSTIVE_NOTE = ('complete enumeration, identical in both tiers and independent of the seed: every (phase, candidate '
                   'instruction name), every (suite section, candidate name), every candidate entity of the 8 entity '
                   'types, every builtin symbol, every internal href and every id of `help htmldoc`, every `(>help ...)` '
                   'cross-reference printed on any rendered text page')
RULE = ('one case per (kind, scope, name): kind in instr (phase x name), instr-any (`help NAME`), suite-instr (section x '
        'name), entity (type x name), plus listing-level cases per phase / section / entity type, fixed pages of the '
        '`help help` synopsis, negative controls and the HTML document; candidate names = union of the names printed by '
        'the help listings, the keys of the instruction dictionaries / builtin-symbol table / definitions.entity modules, '
        'and control names; class key = (kind, scope, name, membership in each of the sets parser/listing/page/html); '
        'a case is non-trivial when at least two independently obtained membership observations were compared; thorough '
        'additionally renders every page a second time in a fresh interpreter (other hash seed) and compares')
ASSUMPTIONS = [
    'instruction and entity names are single-spaced words; listing tables are `NAME  description` rows with >= 2 blanks '
    'between the columns (format of the pinned tree)',
    'the discriminator for "parser does not know this name" is a stderr line starting with "Unknown instruction: " '
    '(validated in every run by control names and by minimal valid uses that must PASS)',
    'a name that is also a documented keyword of the help command (phase name, entity type, help/htmldoc/case/suite/'
    'symbol/instructions) is not required to work as `help NAME`: the synopsis of `help help` is ambiguous there',
    'a suite section whose page says it corresponds to test case phase [P] documents P\'s instructions plus the rows '
    'under "Additional instructions"',
    'a configuration parameter NAME is what the [conf] instruction NAME sets (names agree in `help concept '
    'configuration parameter`, `help confparam` and `help conf instructions`)',
    'HTML anchor naming scheme test-case.instruction.PHASE.NAME / test-suite.instruction.SECTION.NAME / entity.TYPE.NAME '
    '(blanks as "-") as observed on the pinned tree; if no id with such a prefix exists at all the HTML membership '
    'observation is left out instead of being reported',
    'behavioural acceptance is not observable for concepts and syntax elements (listing, page, HTML, definitions only)',
    'texts of error messages for invalid help requests are not judged',
]
_MIN_COMMON = {'evaluations': 2500, 'classes': 400, 'c20.parser_probes': 230, 'c20.parser_accepted': 95,
               'c20.parser_rejected': 110, 'c20.valid_use_runs': 110, 'c20.listing_lookups': 380,
               'c20.page_requests': 340, 'c20.pages_rendered': 160, 'c20.membership_compared': 300,
               'c20.html_hrefs_checked': 700, 'c20.html_ids_seen': 200, 'c20.html_id_lookups': 170,
               'c20.see_also_checked': 600, 'c20.builtin_reference_runs': 18, 'c20.negative_controls': 28}
MIN_OBS = {
    'quick': dict(_MIN_COMMON, **{'c20.subprocess_crosschecks': 6}),
    'thorough': dict(_MIN_COMMON, **{'c20.subprocess_crosschecks': 160, 'c20.rerendered': 160}),
}

# ---------------------------------------------------------------------------------------------------------------
# Hard-coded from the manual (`help help`, `help case spec`, `help suite spec`) - NOT read from exactly_lib
# ---------------------------------------------------------------------------------------------------------------
PHASES = ['conf', 'setup', 'act', 'before-assert', 'assert', 'cleanup']
PHASES_WITH_INSTRUCTIONS = ['conf', 'setup', 'before-assert', 'assert', 'cleanup']
SUITE_SECTIONS = ['cases', 'suites', 'conf', 'setup', 'act', 'before-assert', 'assert', 'cleanup']
ENTITY_TYPES = ['concept', 'directive', 'confparam', 'actor', 'type', 'syntax', 'builtin', 'reporter']
HELP_KEYWORDS = set(PHASES) | set(ENTITY_TYPES) | {'help', 'htmldoc', 'case', 'suite', 'symbol', 'instructions'}
DATA_TYPES = ('string', 'list', 'path')

CONTROL_INSTRUCTION = 'c20-no-such-instruction'
CONTROL_ENTITY = 'c20 no such entity'
CONTROL_SYMBOL = 'C20_NO_SUCH_BUILTIN'

# Minimal valid uses, written from the SYNOPSIS of `help PHASE NAME`.  name -> (preparation lines for [setup], line)
VALID_USE = {
    '$': ([], '$ true'),
    '%': ([], '% true'),
    'cd': (['dir c20-d'], 'cd c20-d'),
    'copy': ([], 'copy c20-src.txt'),
    'def': ([], 'def string C20_S = value'),
    'dir': ([], 'dir c20-new-dir'),
    'env': ([], 'env C20_VAR = value'),
    'file': ([], 'file c20-new-file.txt'),
    'run': ([], 'run % true'),
    'stdin': ([], 'stdin = "text"'),
    'timeout': ([], 'timeout = 10'),
    'contents': (['file c20-f.txt'], 'contents c20-f.txt : is-empty'),
    'dir-contents': (['dir c20-d'], 'dir-contents c20-d : is-empty'),
    'exists': (['file c20-f.txt'], 'exists c20-f.txt'),
    'exit-code': ([], 'exit-code == 0'),
    'stdout': ([], 'stdout is-empty'),
    'stderr': ([], 'stderr is-empty'),
}
VALID_USE_CONF = {
    'act-home': 'act-home = .',
    'home': 'home = .',
    'actor': 'actor = null',
    'status': 'status = PASS',
    'preprocessor': 'preprocessor = cat',  # suite only
}
CASE_FILES = {'c20-src.txt': 'source file\n'}
# `def TYPE NAME = VALUE`, VALUE written from `help syntax <ELEMENT>`
VALID_TYPE_DEF = {
    'string': 'x',
    'list': 'a b',
    'path': '-rel-act f',
    'integer-matcher': '== 1',
    'line-matcher': 'contents matches a',
    'file-matcher': 'type file',
    'files-matcher': 'is-empty',
    'files-condition': '{ a }',
    'files-source': '{ file a }',
    'text-source': '"abc"',
    'text-matcher': 'is-empty',
    'text-transformer': 'char-case -to-upper',
    'program': '% true',
}
# actor (entity name) -> complete test case that uses it, from `help conf actor` + `help actor NAME`
VALID_ACTOR_CASE = {
    'command line': '[conf]\nactor = command\n[act]\n% true\n[assert]\nexit-code == 0\n',
    'file interpreter': "[conf]\nactor = file % sh\n[setup]\nfile f.sh = 'exit 0'\n[act]\n-rel-act f.sh\n"
                        "[assert]\nexit-code == 0\n",
    'source interpreter': '[conf]\nactor = source % sh\n[act]\nexit 0\n[assert]\nexit-code == 0\n',
    'null': '[conf]\nactor = null\n[assert]\nexit-code == 0\n',
}

# requests of the `help help` synopsis that take no generated name
FIXED_PAGES = ([[], ['help'], ['case'], ['case', 'spec'], ['suite'], ['suite', 'spec'], ['symbol'], ['instructions']]
               + [[p] for p in PHASES]
               + [[p, 'instructions'] for p in PHASES_WITH_INSTRUCTIONS]
               + [['suite', s] for s in SUITE_SECTIONS]
               + [[t] for t in ENTITY_TYPES])
# requests that must be refused (validates that the "page renders" observer can say no)
NEGATIVE_REQUESTS = ([['c20-no-such-thing'], ['suite', 'c20-no-such-section'], ['case', 'c20-no-such'],
                      ['htmldoc', 'c20-extra-argument'], ['symbol', 'c20-extra-argument'],
                      ['setup', CONTROL_INSTRUCTION, 'c20-extra']]
                     + [[p, CONTROL_INSTRUCTION] for p in PHASES]
                     + [['suite', s, CONTROL_INSTRUCTION] for s in SUITE_SECTIONS]
                     + [[t] + CONTROL_ENTITY.split() for t in ENTITY_TYPES])


# ---------------------------------------------------------------------------------------------------------------
# Text parsing of help output (independent re-reading of what the user sees)
# ---------------------------------------------------------------------------------------------------------------
_ROW = re.compile(r'^( *)(\S+(?: \S+)*) {2,}(\S.*?) *$')
_PHASE_HDR = re.compile(r'^\[([a-z][a-z-]*)\]$')
_SEE = re.compile(r'\(>help ([^()]*(?:\([^()]*\)[^()]*)*)\)')


def norm(s):
    return ' '.join(s.split())


def squash(s):
    """comparison key for texts that may be wrapped differently (the renderer also breaks lines after '-')"""
    return ''.join(s.split())


def parse_rows(lines):
    """-> [(name, description)] for consecutive two-column rows (with wrapped description lines)."""
    rows = []
    cur = None  # [name, desc, row_indent, desc_col]
    for ln in lines:
        if not ln.strip():
            cur = None
            continue
        indent = len(ln) - len(ln.lstrip(' '))
        if cur is not None and indent == cur[3]:
            cur[1] += ' ' + ln.strip()
            continue
        m = _ROW.match(ln)
        if m:
            cur = [m.group(2), m.group(3), len(m.group(1)), m.start(3)]
            rows.append(cur)
        else:
            cur = None
    return [(r[0], norm(r[1])) for r in rows]


def parse_grouped_by_phase(text):
    """`help instructions` -> {phase: [(name, description)]}"""
    res = {}
    cur = None
    block = []
    for ln in text.split('\n') + ['[end]']:
        m = _PHASE_HDR.match(ln)
        if m:
            if cur is not None:
                res[cur] = parse_rows(block)
            cur = m.group(1)
            block = []
        else:
            block.append(ln)
    return res


def section_after_header(text, header):
    """lines following the top-level line HEADER up to the next top-level (unindented, non-empty) line"""
    lines = text.split('\n')
    out = []
    on = False
    for ln in lines:
        if ln == header:
            on = True
            continue
        if on:
            if ln and not ln.startswith(' '):
                break
            out.append(ln)
    return out if on else None


def first_paragraph(text):
    lines = []
    for ln in text.split('\n'):
        if not ln.strip():
            if lines:
                break
            continue
        lines.append(ln)
    return norm(' '.join(lines))


def see_also_targets(text):
    """-> list of list-of-variants; each variant is an argv (after `help`).  Line wrapping is undone: a break after a
    blank is a blank; a break after '-' may or may not have had a blank (both variants are returned)."""
    joined_sp = re.sub(r'\s*\n\s*', ' ', text)
    joined_hy = re.sub(r'-\n\s*', '-', text)
    joined_hy = re.sub(r'\s*\n\s*', ' ', joined_hy)
    res = []
    a = _SEE.findall(joined_sp)
    b = _SEE.findall(joined_hy)
    if len(a) != len(b):
        b = a
    for x, y in zip(a, b):
        variants = [y.split()]
        if x.split() != y.split():
            variants.append(x.split())
        res.append(variants)
    return res


class _Html(html.parser.HTMLParser):
    VOID = {'br', 'hr', 'img', 'meta', 'link', 'input', 'col', 'area', 'base', 'embed', 'source', 'wbr'}

    def __init__(self):
        super().__init__(convert_charrefs=True)
        self.ids = {}
        self.hrefs = []
        self.external = []
        self.stack = []
        self.balance_errors = []
        self.n_tags = 0

    def handle_starttag(self, tag, attrs):
        self.n_tags += 1
        self._attrs(tag, attrs)
        if tag not in self.VOID:
            self.stack.append(tag)

    def handle_startendtag(self, tag, attrs):
        self.n_tags += 1
        self._attrs(tag, attrs)

    def _attrs(self, tag, attrs):
        for k, v in attrs:
            if k == 'id' or (k == 'name' and tag == 'a'):
                self.ids[v] = self.ids.get(v, 0) + 1
            elif k == 'href' and v is not None:
                if v.startswith('#'):
                    self.hrefs.append(v[1:])
                else:
                    self.external.append(v)

    def handle_endtag(self, tag):
        if tag in self.VOID:
            return
        if self.stack and self.stack[-1] == tag:
            self.stack.pop()
        else:
            if len(self.balance_errors) < 5:
                self.balance_errors.append('</%s> at %s closes %r' % (tag, self.getpos(), self.stack[-3:]))
            if tag in self.stack:
                while self.stack and self.stack.pop() != tag:
                    pass


def parse_html(text):
    p = _Html()
    p.feed(text)
    p.close()
    return p


# ---------------------------------------------------------------------------------------------------------------
# Candidate universe (enumeration only; never a verdict)
# ---------------------------------------------------------------------------------------------------------------
_UNIVERSE = None


def _light_help(mp, args):
    import io
    from exactly_lib.util.file_utils.std import StdOutputFiles
    out, err = io.StringIO(), io.StringIO()
    try:
        rc = mp.execute(['help'] + list(args), StdOutputFiles(out, err))
    except BaseException:
        return None, '', ''
    return rc, out.getvalue(), err.getvalue()


def universe():
    """-> {'instr': [names], 'entity': {type: [names]}, 'sources': {...}, 'errors': [...]}  (deterministic)"""
    global _UNIVERSE
    if _UNIVERSE is not None:
        return _UNIVERSE
    from vf import common
    common.put_repo_first_on_path()
    instr = {}
    entity = {t: {} for t in ENTITY_TYPES}
    errors = []

    def add_i(name, src):
        if isinstance(name, str) and name and name == norm(name):
            instr.setdefault(name, set()).add(src)

    def add_e(t, name, src):
        if t in entity and isinstance(name, str) and name and name == norm(name):
            entity[t].setdefault(name, set()).add(src)

    # (a) registries of the program
    try:
        from exactly_lib.cli_default.program_modes.test_case.default_instructions_setup import INSTRUCTIONS_SETUP as IS
        for attr in ('config_instruction_set', 'setup_instruction_set', 'before_assert_instruction_set',
                     'assert_instruction_set', 'cleanup_instruction_set'):
            for k in getattr(IS, attr).keys():
                add_i(k, 'dict')
    except Exception as ex:
        errors.append('INSTRUCTIONS_SETUP: %r' % ex)
    try:
        from exactly_lib.cli_default.program_modes import test_suite
        for k in test_suite.test_suite_definition().configuration_section_instructions.keys():
            add_i(k, 'dict')
    except Exception as ex:
        errors.append('test_suite_definition: %r' % ex)
    try:
        from exactly_lib.cli_default.program_modes.test_case import builtin_symbols
        for b in builtin_symbols.ALL:
            add_e('builtin', b.name, 'table')
    except Exception as ex:
        errors.append('builtin_symbols: %r' % ex)
    try:
        import importlib
        for modname in ('actors', 'builtins', 'concepts', 'conf_params', 'directives', 'suite_reporters',
                        'syntax_elements', 'types'):
            m = importlib.import_module('exactly_lib.definitions.entity.' + modname)
            for a in sorted(dir(m)):
                v = getattr(m, a)
                t = getattr(v, 'cross_reference_target', None)
                if t is None or isinstance(v, type):
                    continue
                et = getattr(t, 'entity_type_identifier', None)
                en = getattr(t, 'entity_name', None)
                if isinstance(et, str) and isinstance(en, str):
                    add_e(et, en, 'definitions')
    except Exception as ex:
        errors.append('definitions.entity: %r' % ex)
    # (b) what the help listings print
    try:
        from exactly_lib.cli_default.default_main_program_setup import default_main_program
        mp = default_main_program()
        rc, out, _ = _light_help(mp, ['instructions'])
        for ph, rows in parse_grouped_by_phase(out).items():
            for n, _d in rows:
                add_i(n, 'listing')
        for ph in PHASES:
            rc, out, _ = _light_help(mp, [ph, 'instructions'])
            if rc == 0:
                for n, _d in parse_rows(out.split('\n')):
                    add_i(n, 'listing')
        for s in SUITE_SECTIONS:
            rc, out, _ = _light_help(mp, ['suite', s])
            sec = section_after_header(out, 'Additional instructions') if rc == 0 else None
            for n, _d in parse_rows(sec or []):
                add_i(n, 'listing')
        for t in ENTITY_TYPES:
            rc, out, _ = _light_help(mp, [t])
            if rc == 0:
                for n, _d in parse_rows(out.split('\n')):
                    add_e(t, n, 'listing')
    except Exception as ex:
        errors.append('help listings: %r' % ex)
    # (c) names the manual documents (tables above) and controls
    for n in list(VALID_USE) + list(VALID_USE_CONF):
        add_i(n, 'manual')
    add_i(CONTROL_INSTRUCTION, 'control')
    for n in VALID_TYPE_DEF:
        add_e('type', n, 'manual')
    for n in VALID_ACTOR_CASE:
        add_e('actor', n, 'manual')
    for n in ('progress', 'junit'):
        add_e('reporter', n, 'manual')
    add_e('directive', 'including', 'manual')
    for n in ('act-home', 'actor', 'home', 'status'):
        add_e('confparam', n, 'manual')
    for t in ENTITY_TYPES:
        add_e(t, CONTROL_SYMBOL if t == 'builtin' else CONTROL_ENTITY, 'control')
    _UNIVERSE = {'instr': sorted(instr), 'instr_src': {k: sorted(v) for k, v in instr.items()},
                 'entity': {t: sorted(entity[t]) for t in ENTITY_TYPES},
                 'entity_src': {t: {k: sorted(v) for k, v in entity[t].items()} for t in ENTITY_TYPES},
                 'errors': errors}
    return _UNIVERSE


def cases(tier, seed):
    u = universe()
    yield {'kind': 'html'}
    yield {'kind': 'meta'}
    for ph in PHASES:
        yield {'kind': 'phase-listing', 'phase': ph}
    for s in SUITE_SECTIONS:
        yield {'kind': 'suite-listing', 'section': s}
    for t in ENTITY_TYPES:
        yield {'kind': 'entity-listing', 'type': t}
    for a in FIXED_PAGES:
        yield {'kind': 'fixed', 'args': a}
    for a in NEGATIVE_REQUESTS:
        yield {'kind': 'negative', 'args': a}
    # the same pages under every state of the terminal-width variables of the environment (widths below 20 columns are
    # left out: nothing fits there)
    for cols in (None, '', '0', 'abc', '-1', '20', '80', '250', '99999'):
        for a in ([], ['help'], ['case'], ['setup'], ['instructions'], ['type'], ['concept'], ['actor'], ['reporter'],
                  ['setup', 'file'], ['type', 'string'], ['concept', 'sandbox'], ['suite', 'cases']):
            yield {'kind': 'width', 'args': a, 'columns': cols}
    for n in u['instr']:
        yield {'kind': 'instr-any', 'name': n}
        for ph in PHASES_WITH_INSTRUCTIONS:
            yield {'kind': 'instr', 'phase': ph, 'name': n}
        for s in PHASES_WITH_INSTRUCTIONS:
            yield {'kind': 'suite-instr', 'section': s, 'name': n}
    for t in ENTITY_TYPES:
        for n in u['entity'][t]:
            yield {'kind': 'entity', 'type': t, 'name': n}


# ---------------------------------------------------------------------------------------------------------------
# Observers (all through the real CLI entry)
# ---------------------------------------------------------------------------------------------------------------
class W:
    """per worker state"""

    def __init__(self, ctx):
        self.ctx = ctx
        self.ses = ctx.get_session()
        self.help_cache = {}
        self.accept_cache = {}
        self.html = None
        self.html_raw = None
        self.see_cache = {}
        self.inconclusive = []
        self.n_rendered = 0

    # -- help ------------------------------------------------------------------------------------
    def help(self, args):
        key = tuple(args)
        if key not in self.help_cache:
            r = self.ses.run(['help'] + list(args), mode=None)
            self.ctx.count('c20.page_requests')
            if r.timed_out:
                self.inconclusive.append('watchdog during help %r' % (args,))
            self.help_cache[key] = r
        return self.help_cache[key]

    def renders(self, args):
        """-> (ok, reason)"""
        r = self.help(args)
        if r.exc is not None:
            return False, 'exception escaped: %s' % r.exc[-300:]
        if r.rc != 0:
            return False, 'exit code %r, stderr %r' % (r.rc, r.err[:200])
        if not r.out.strip():
            return False, 'exit code 0 but stdout is empty'
        if r.err != '':
            return False, 'exit code 0 but stderr is not empty: %r' % r.err[:200]
        return True, ''

    def listing(self, args, header=None):
        """rows of a listing page -> dict name -> description, or None if the page is refused"""
        ok, _ = self.renders(args)
        if not ok:
            return None
        text = self.help(args).out
        if header is not None:
            sec = section_after_header(text, header)
            if sec is None:
                return {}
            return dict(parse_rows(sec))
        return dict(parse_rows(text.split('\n')))

    # -- html ------------------------------------------------------------------------------------
    def html_doc(self):
        if self.html is None:
            r = self.help(['htmldoc'])
            self.html_raw = r
            self.html = parse_html(r.out) if (r.rc == 0 and r.exc is None) else parse_html('')
        return self.html

    def html_has(self, prefix, rest):
        """-> True/False, or None if the naming scheme is not present at all"""
        h = self.html_doc()
        self.ctx.count('c20.html_id_lookups')
        if not any(i.startswith(prefix) for i in h.ids):
            return None
        return (prefix + rest) in h.ids

    # -- parser ----------------------------------------------------------------------------------
    def run_text(self, text, files=None, argv_prefix=(), name='t.case'):
        fs = dict(files or {})
        fs[name] = text
        d = self.ses.new_case_dir(fs)
        try:
            r = self.ses.run(list(argv_prefix) + [os.path.join(d, name)], cwd=d,
                             mode='normal' if not argv_prefix else None)
        finally:
            self.ses.clean_tmp()
            self.ses.drop(d)
        if r.timed_out:
            self.inconclusive.append('watchdog')
        return r

    def accepts(self, scope, section, name):
        """scope 'case' | 'suite'.  Bare one-instruction file.  -> (accepted: bool | None, RunResult)"""
        key = (scope, section, name)
        if key not in self.accept_cache:
            text = '[%s]\n%s\n' % (section, name)
            if scope == 'case':
                r = self.run_text(text)
            else:
                r = self.run_text(text, argv_prefix=['suite'], name='t.suite')
            self.ctx.count('c20.parser_probes')
            if r.timed_out or r.exc is not None or r.rc is None:
                acc = None
            else:
                unknown = any(l.startswith('Unknown instruction: ') for l in r.err.split('\n'))
                acc = not unknown
                self.ctx.count('c20.parser_accepted' if acc else 'c20.parser_rejected')
            self.accept_cache[key] = (acc, r)
        return self.accept_cache[key]


_W = None


def setup_worker(ctx):
    global _W
    _W = W(ctx)


def _w(ctx):
    global _W
    if _W is None or _W.ctx is not ctx:
        _W = W(ctx)
    return _W


def _brief(r):
    return {'rc': r.rc, 'out': r.out[:300], 'err': r.err[:500], 'exc': (r.exc or '')[-400:] or None}


class Res:
    def __init__(self, case):
        self.case = case
        self.viol = []
        self.classes = []
        self.evals = 0
        self.sample = None

    def bad(self, what, **detail):
        self.viol.append({'what': 'C20 %s' % what, 'detail': detail})

    def result(self, w):
        res = {'classes': self.classes, 'viol': self.viol, 'inconclusive': list(w.inconclusive),
               'evaluations': max(1, self.evals)}
        del w.inconclusive[:]
        if self.sample is not None:
            res['sample'] = self.sample
        return res


def _yn(b):
    return '?' if b is None else ('in' if b else 'out')


# ---------------------------------------------------------------------------------------------------------------
# page identity + cross references
# ---------------------------------------------------------------------------------------------------------------
def check_page_identity(w, res, args, name, description, all_names, body_must_mention=None):
    """`help ... NAME` rendered: is it NAME's page?  (A sub-string match renders another entry under a header line.)"""
    text = w.help(args).out
    lines = text.split('\n')
    first = lines[0].strip() if lines else ''
    if first != name and first in all_names and len(lines) > 2 and lines[1].strip() == '' and lines[2].startswith(' '):
        res.bad('`help %s` shows the entry of %r instead of %r' % (' '.join(args), first, name),
                observed=text[:300])
        return False
    if first == name and len(lines) > 2 and lines[1].strip() == '' and lines[2].startswith(' ') \
            and description is not None and squash(first_paragraph('\n'.join(lines[2:]))) == squash(description):
        res.bad('`help %s` treats the exact name %r as an inexact match (entry printed under a name header)'
                % (' '.join(args), name), observed=text[:300])
        return False
    if description is not None and squash(first_paragraph(text)) != squash(description):
        res.bad('`help %s`: the page does not start with the description the listing prints for %r'
                % (' '.join(args), name), listing_description=description, page_starts=first_paragraph(text)[:300])
        return False
    if body_must_mention is not None and body_must_mention not in text:
        res.bad('`help %s`: the page never mentions %r' % (' '.join(args), body_must_mention), observed=text[:300])
        return False
    return True


def check_see_also(w, res, args):
    """every `(>help ...)` printed on the page `help ARGS` must be a help request that succeeds (exactly)."""
    text = w.help(args).out
    for variants in see_also_targets(text):
        key = tuple(variants[0])
        if key in w.see_cache:
            ok, why = w.see_cache[key]
        else:
            ok, why = False, ''
            for v in variants:
                ok, why = _resolve(w, v)
                if ok:
                    break
            w.see_cache[key] = (ok, why)
        w.ctx.count('c20.see_also_checked')
        res.evals += 1
        if not ok:
            res.bad('dead cross-reference on `help %s`: (>help %s): %s' % (' '.join(args), ' '.join(variants[0]), why),
                    page=args, target=variants[0])


def _resolve(w, argv):
    if not argv:
        return False, 'empty target'
    ok, why = w.renders(argv)
    if not ok:
        return False, why
    head = argv[0]
    if head in ENTITY_TYPES and len(argv) > 1:
        name = ' '.join(argv[1:])
        names = w.listing([head])
        if names is None or name not in names:
            return False, 'the request renders, but %r is not an entry of `help %s`' % (name, head)
        if squash(first_paragraph(w.help(argv).out)) != squash(names[name]):
            return False, 'the request does not render the entry %r' % name
    elif head in PHASES and len(argv) == 2 and argv[1] != 'instructions':
        names = w.listing([head, 'instructions'])
        if names is None or argv[1] not in names:
            return False, 'the request renders, but %r is not listed by `help %s instructions`' % (argv[1], head)
        acc, _ = w.accepts('case', head, argv[1])
        if acc is False:
            return False, 'instruction %r is not accepted in [%s]' % (argv[1], head)
    return True, ''


def rerender(w, res, args, tier, force=False):
    """fresh interpreter, different hash seed: must print the same."""
    if tier != 'thorough' and not force:
        return
    from vf import driver
    r1 = w.help(args)
    saved = {k: os.environ.get(k) for k in ('PYTHONHASHSEED', 'PYTHONWARNINGS')}
    os.environ['PYTHONHASHSEED'] = '12345'
    os.environ['PYTHONWARNINGS'] = 'ignore'
    try:
        rc2, out2, err2 = driver.run_in_subprocess(['help'] + list(args), w.ses.scratch, w.ses.tmpdir)
    except Exception as ex:  # e.g. subprocess.TimeoutExpired: not a verdict
        w.inconclusive.append('fresh interpreter for `help %s`: %r' % (' '.join(args), ex))
        return
    finally:
        for k, v in saved.items():
            if v is None:
                os.environ.pop(k, None)
            else:
                os.environ[k] = v
    w.ctx.count('c20.subprocess_crosschecks')
    if tier == 'thorough':
        w.ctx.count('c20.rerendered')
    res.evals += 1
    if rc2 != r1.rc or out2 != r1.out or err2 != r1.err:
        res.bad('`help %s` rendered a second time (fresh interpreter) differs from the first rendering'
                % ' '.join(args), first={'rc': r1.rc, 'out_len': len(r1.out), 'err': r1.err[:200]},
                second={'rc': rc2, 'out_len': len(out2), 'err': err2[:200]},
                first_difference=_first_diff(r1.out, out2))


def _first_diff(a, b):
    for i, (x, y) in enumerate(zip(a, b)):
        if x != y:
            return {'at': i, 'first': a[max(0, i - 40):i + 40], 'second': b[max(0, i - 40):i + 40]}
    return {'at': min(len(a), len(b)), 'first': a[-40:], 'second': b[-40:]}


# ---------------------------------------------------------------------------------------------------------------
# run_case
# ---------------------------------------------------------------------------------------------------------------
def run_case(case, ctx):
    w = _w(ctx)
    res = Res(case)
    kind = case['kind']
    {'html': _html_case, 'meta': _meta_case, 'phase-listing': _phase_listing, 'suite-listing': _suite_listing,
     'entity-listing': _entity_listing, 'fixed': _fixed, 'negative': _negative, 'instr': _instr, 'width': _width,
     'instr-any': _instr_any, 'suite-instr': _suite_instr, 'entity': _entity}[kind](w, res, case, ctx.tier)
    return res.result(w)


# -- HTML ---------------------------------------------------------------------------------------------------------
def _html_case(w, res, case, tier):
    h = w.html_doc()
    r = w.html_raw
    ok, why = w.renders(['htmldoc'])
    if not ok:
        res.bad('`help htmldoc` is not rendered: %s' % why, observed=_brief(r))
        res.classes.append(('html', 'not-rendered'))
        return
    if '<html' not in r.out[:400].lower() or '</html>' not in r.out[-200:].lower():
        res.bad('`help htmldoc` does not print a complete HTML document', head=r.out[:200], tail=r.out[-100:])
    dangling = {}
    multiple = {}
    for t in h.hrefs:
        w.ctx.count('c20.html_hrefs_checked')
        res.evals += 1
        n = h.ids.get(t, 0)
        if n == 0:
            dangling[t] = dangling.get(t, 0) + 1
        elif n > 1:
            multiple[t] = n
    for t, n in sorted(dangling.items()):
        res.bad('HTML manual: href="#%s" (%d times) has no element with that id' % (t, n), target=t,
                similar_ids=sorted(i for i in h.ids if i.lower() == t.lower() or i.split('.')[-1] == t.split('.')[-1])[:5])
    dup = sorted(i for i, n in h.ids.items() if n > 1)
    for i in h.ids:
        w.ctx.count('c20.html_ids_seen')
        res.evals += 1
    for i in dup:
        res.bad('HTML manual: id="%s" is carried by %d elements' % (i, h.ids[i]), id=i,
                referenced=i in multiple)
    if h.balance_errors or h.stack:
        res.bad('HTML manual: element nesting is not balanced', errors=h.balance_errors, unclosed=h.stack[-5:])
    if '' in h.ids:
        res.bad('HTML manual: empty id attribute')
    res.classes.append(('html', 'hrefs>0' if h.hrefs else 'hrefs=0', 'ids>0' if h.ids else 'ids=0'))
    for pref in sorted({'.'.join(i.split('.')[:2]) for i in h.ids}):
        res.classes.append(('html-id-family', pref))
    res.sample = {'request': 'help htmldoc', 'bytes': len(r.out_b), 'elements': h.n_tags, 'distinct_ids': len(h.ids),
                  'internal_hrefs': len(h.hrefs), 'distinct_href_targets': len(set(h.hrefs)),
                  'external_hrefs': len(h.external), 'dangling': sorted(dangling), 'duplicate_ids': dup,
                  'expected': 'every href="#x" has exactly one element with id="x"; no id twice'}
    rerender(w, res, ['htmldoc'], tier, force=True)


# -- meta: the hard-coded vocabularies against `help help` ----------------------------------------------------------
def _meta_case(w, res, case, tier):
    u = universe()
    if u['errors']:
        w.inconclusive.append('candidate enumeration incomplete: %s' % '; '.join(u['errors']))
    ok, why = w.renders(['help'])
    if not ok:
        res.bad('`help help` is not rendered: %s' % why)
        return
    text = w.help(['help']).out
    # the entity type table is the last block of `help help`
    idx = text.find('help ENTITY-TYPE')
    rows = dict(parse_rows(text[idx:].split('\n'))) if idx >= 0 else {}
    res.evals += 1
    if set(rows) != set(ENTITY_TYPES):
        res.bad('`help help` lists entity types %r, the manual/this check knows %r' % (sorted(rows), sorted(ENTITY_TYPES)))
    for t in sorted(set(rows) | set(ENTITY_TYPES)):
        ok, why = w.renders([t])
        res.evals += 1
        if not ok:
            res.bad('entity type %r of `help help`: `help %s` fails: %s' % (t, t, why))
    # phases: `help instructions` has a block per phase with instructions, in execution order, and only those
    ok, why = w.renders(['instructions'])
    if ok:
        txt = w.help(['instructions']).out
        hdrs = [m.group(1) for m in (_PHASE_HDR.match(l) for l in txt.split('\n')) if m]
        res.evals += 1
        if hdrs != PHASES_WITH_INSTRUCTIONS:
            res.bad('`help instructions` has the blocks %r, expected %r' % (hdrs, PHASES_WITH_INSTRUCTIONS))
    else:
        res.bad('`help instructions` is not rendered: %s' % why)
    res.classes.append(('meta', 'entity-types=%d' % len(rows)))
    rerender(w, res, ['help'], tier, force=True)
    rerender(w, res, ['instructions'], tier, force=True)


# -- fixed pages / negative controls -----------------------------------------------------------------------------
def _fixed(w, res, case, tier):
    args = case['args']
    ok, why = w.renders(args)
    res.evals += 1
    if ok:
        w.ctx.count('c20.pages_rendered')
        check_see_also(w, res, args)
        rerender(w, res, args, tier, force=args in ([], ['case', 'spec'], ['type']))
    else:
        res.bad('`help %s` (a request of the `help help` synopsis) is not rendered: %s' % (' '.join(args), why),
                observed=_brief(w.help(args)))
    res.classes.append(('fixed', ' '.join(args), 'rendered' if ok else 'refused'))


def _width(w, res, case, tier):
    args, cols = case['args'], case['columns']
    saved = {k: os.environ.get(k) for k in ('COLUMNS', 'LINES')}
    try:
        if cols is None:
            os.environ.pop('COLUMNS', None)
        else:
            os.environ['COLUMNS'] = cols
            os.environ['LINES'] = cols
        r = w.ses.run(['help'] + list(args), mode=None)
    finally:
        for k, v in saved.items():
            if v is None:
                os.environ.pop(k, None)
            else:
                os.environ[k] = v
    w.ctx.count('c20.page_requests')
    w.ctx.count('c20.width_variants_rendered')
    res.evals += 1
    ok = r.exc is None and r.rc == 0 and r.out.strip() != '' and r.err == ''
    if r.timed_out:
        w.inconclusive.append('watchdog during help %r' % (args,))
    elif not ok:
        res.bad('`help %s` with COLUMNS=%r in the environment is not rendered: exit code %r, stdout %d characters, stderr %r%s'
                % (' '.join(args), cols, r.rc, len(r.out), r.err[-200:], (' exception ' + r.exc[-200:]) if r.exc else ''))
    res.classes.append(('width', ' '.join(args), repr(cols), 'rendered' if ok else 'refused'))


def _negative(w, res, case, tier):
    args = case['args']
    r = w.help(args)
    res.evals += 1
    w.ctx.count('c20.negative_controls')
    if r.exc is not None:
        res.bad('`help %s`: exception escaped' % ' '.join(args), observed=_brief(r))
    elif r.rc == 0 or r.out != '' or not r.err.strip():
        res.bad('`help %s` (no such thing) must be refused: exit code != 0, empty stdout, a message on stderr'
                % ' '.join(args), observed=_brief(r))
    res.classes.append(('negative', ' '.join(args[:2]), 'rc=%s' % r.rc))


# -- listings ------------------------------------------------------------------------------------------------------
def _phase_listing(w, res, case, tier):
    ph = case['phase']
    ok, why = w.renders([ph])
    if not ok:
        res.bad('`help %s` is not rendered: %s' % (ph, why))
        res.classes.append(('phase-listing', ph, 'no-page'))
        return
    in_page = w.listing([ph], header='Instructions')
    a = w.listing([ph, 'instructions'])
    ok_all, _ = w.renders(['instructions'])
    grouped = parse_grouped_by_phase(w.help(['instructions']).out) if ok_all else {}
    b = dict(grouped[ph]) if ph in grouped else None
    h = w.html_doc()
    pref = 'test-case.instruction.%s.' % ph
    hid = {i[len(pref):] for i in h.ids if i.startswith(pref)}
    scheme = any(i.startswith('test-case.instruction.') for i in h.ids)
    res.evals += 3
    if ph not in PHASES_WITH_INSTRUCTIONS:
        if a or b or in_page or hid:
            res.bad('phase [%s] has no instructions according to the manual, but a listing prints some' % ph,
                    phase_instructions=a, help_instructions=b, phase_page=in_page, html=sorted(hid))
        res.classes.append(('phase-listing', ph, 'no-instructions'))
        return
    if a is None:
        res.bad('`help %s instructions` is not rendered: %s' % (ph, w.renders([ph, 'instructions'])[1]))
        a = {}
    sets = {'help %s instructions' % ph: a, 'help instructions [%s]' % ph: b or {}, 'help %s (Instructions)' % ph: in_page}
    names = sorted(set().union(*[set(s) for s in sets.values()]) | (hid if scheme else set()))
    for n in names:
        w.ctx.count('c20.listing_lookups')
        res.evals += 1
        member = {k: (n in s) for k, s in sets.items()}
        if scheme:
            member['htmldoc ids'] = n in hid
        if len(set(member.values())) != 1:
            res.bad('instruction %r of [%s] is listed by some renderings of the instruction list but not by others'
                    % (n, ph), membership=member)
        descs = {k: s[n] for k, s in sets.items() if n in s}
        if len(set(squash(d) for d in descs.values())) > 1:
            res.bad('instruction %r of [%s]: the listings print different descriptions' % (n, ph), descriptions=descs)
    if not names:
        res.bad('no instruction is listed for phase [%s]' % ph)
    res.classes.append(('phase-listing', ph, 'n=%d' % len(names)))
    if ph == 'assert':
        res.sample = {'requests': sorted(sets), 'names': names,
                      'expected': 'the same names and descriptions in all of them'}


def suite_section_facts(w, s):
    """-> (page_ok, corresponds_to_phase | None, additional {name: desc})"""
    ok, _ = w.renders(['suite', s])
    if not ok:
        return False, None, {}
    text = w.help(['suite', s]).out
    m = re.search(r'Corresponds to the \[([a-z-]+)\] test case phase', norm(text))
    add = w.listing(['suite', s], header='Additional instructions') or {}
    return True, (m.group(1) if m else None), add


def _suite_listing(w, res, case, tier):
    s = case['section']
    ok, ph, add = suite_section_facts(w, s)
    res.evals += 1
    if not ok:
        res.bad('`help suite %s` is not rendered: %s' % (s, w.renders(['suite', s])[1]))
        res.classes.append(('suite-listing', s, 'no-page'))
        return
    expect_phase = s if s in PHASES else None
    if ph != expect_phase:
        res.bad('`help suite %s` says the section corresponds to test case phase %r; `help suite spec` documents %r'
                % (s, ph, expect_phase))
    h = w.html_doc()
    pref = 'test-suite.instruction.%s.' % s
    hid = {i[len(pref):] for i in h.ids if i.startswith(pref)}
    if any(i.startswith('test-suite.instruction.') for i in h.ids) and hid != set(add):
        res.bad('suite section [%s]: additional instructions in `help suite %s` are %r, anchors in the HTML manual %r'
                % (s, s, sorted(add), sorted(hid)))
    if s not in PHASES_WITH_INSTRUCTIONS and add:
        res.bad('suite section [%s] takes no instructions according to the manual, but `help suite %s` lists %r'
                % (s, s, sorted(add)))
    if ('test-suite.section.' + s) not in h.ids and any(i.startswith('test-suite.section.') for i in h.ids):
        res.bad('suite section [%s] has no anchor in the HTML manual' % s)
    res.classes.append(('suite-listing', s, 'phase=%s' % ph, 'additional=%d' % len(add)))


def _entity_listing(w, res, case, tier):
    t = case['type']
    names = w.listing([t])
    res.evals += 1
    if names is None:
        res.bad('`help %s` is not rendered: %s' % (t, w.renders([t])[1]))
        res.classes.append(('entity-listing', t, 'no-page'))
        return
    h = w.html_doc()
    pref = 'entity.%s.' % t
    hid = {i[len(pref):] for i in h.ids if i.startswith(pref)}
    scheme = any(i.startswith('entity.') for i in h.ids)
    if scheme:
        listed = {n.replace(' ', '-'): n for n in names}
        for i in sorted(hid | set(listed)):
            w.ctx.count('c20.listing_lookups')
            res.evals += 1
            if (i in hid) != (i in listed):
                res.bad('%s %r: %s' % (t, listed.get(i, i),
                                       'listed by `help %s` but without anchor in the HTML manual' % t if i in listed
                                       else 'has an anchor in the HTML manual but is not listed by `help %s`' % t))
    if not names:
        res.bad('`help %s` lists nothing' % t)
    if t == 'confparam':
        # the concept page enumerates the parameters as well
        ok, _ = w.renders(['concept', 'configuration', 'parameter'])
        if ok:
            txt = w.help(['concept', 'configuration', 'parameter']).out
            sec = section_after_header(txt, 'Description') or []
            heads = {l.strip() for l in sec if l.startswith('   ') and not l.startswith('    ') and l.strip()}
            res.evals += 1
            if heads != set(names):
                res.bad('`help concept configuration parameter` describes %r, `help confparam` lists %r'
                        % (sorted(heads), sorted(names)))
    res.classes.append(('entity-listing', t, 'n=%d' % len(names)))


# -- instructions of test case phases -----------------------------------------------------------------------------
def _valid_case_text(ph, name):
    if ph == 'conf':
        line = VALID_USE_CONF.get(name)
        if line is None or name == 'preprocessor':
            return None
        return '[conf]\n%s\n' % line
    if name not in VALID_USE:
        return None
    prep, line = VALID_USE[name]
    if ph == 'setup':
        return '[setup]\n' + ''.join(l + '\n' for l in prep) + line + '\n'
    return ('[setup]\n' + ''.join(l + '\n' for l in prep) if prep else '') + '[%s]\n%s\n' % (ph, line)


def _instr(w, res, case, tier):
    ph, name = case['phase'], case['name']
    acc, pr = w.accepts('case', ph, name)
    listing = w.listing([ph, 'instructions'])
    w.ctx.count('c20.listing_lookups')
    listed = None if listing is None else (name in listing)
    page_ok, page_why = w.renders([ph, name])
    in_html = w.html_has('test-case.instruction.', '%s.%s' % (ph, name))
    if acc is None:
        w.inconclusive.append('parser probe for %r in [%s] did not finish' % (name, ph))
        return
    res.evals += 3
    w.ctx.count('c20.membership_compared')
    obs = {'parser accepts `%s` in [%s]' % (name, ph): acc, '`help %s instructions` lists it' % ph: listed,
           '`help %s %s` renders' % (ph, name): page_ok}
    if in_html is not None:
        obs['htmldoc has id test-case.instruction.%s.%s' % (ph, name)] = in_html
    if listing is None:
        res.bad('`help %s instructions` is not rendered: %s' % (ph, w.renders([ph, 'instructions'])[1]))
    values = [v for v in obs.values() if v is not None]
    if len(set(values)) > 1:
        if acc and not listed:
            msg = 'instruction %r is accepted in [%s] but missing from the help' % (name, ph)
        elif listed and not acc:
            msg = 'instruction %r is listed for [%s] but the parser answers "Unknown instruction"' % (name, ph)
        elif (acc or listed) and not page_ok:
            msg = 'instruction %r of [%s]: `help %s %s` fails: %s' % (name, ph, ph, name, page_why)
        else:
            msg = 'instruction %r / [%s]: parser, help listing, help page and HTML manual disagree' % (name, ph)
        res.bad(msg, observations=obs, parser_probe=_brief(pr), page=_brief(w.help([ph, name])))
    if page_ok:
        w.ctx.count('c20.pages_rendered')
        desc = listing.get(name) if listing else None
        check_page_identity(w, res, [ph, name], name, desc, set(listing or ()) | set(universe()['instr']),
                            body_must_mention=name)
        check_see_also(w, res, [ph, name])
        rerender(w, res, [ph, name], tier)
    # minimal valid use from the manual
    vt = _valid_case_text(ph, name)
    vres = None
    if vt is not None and (acc or listed):
        r = w.run_text(vt, files=CASE_FILES)
        w.ctx.count('c20.valid_use_runs')
        res.evals += 1
        vres = (r.rc, r.out.strip())
        if r.exc is None and not r.timed_out and not (r.rc == 0 and r.out == 'PASS\n'):
            res.bad('the minimal use of %r in [%s] written from its SYNOPSIS does not PASS' % (name, ph),
                    case_text=vt, observed=_brief(r))
    res.classes.append(('instr', ph, name, 'parser=' + _yn(acc), 'listing=' + _yn(listed),
                        'page=' + _yn(page_ok), 'html=' + _yn(in_html)))
    if name == 'stdin' and ph in ('setup', 'assert'):
        res.sample = {'case_text': '[%s]\n%s\n' % (ph, name), 'parser_probe': {'rc': pr.rc, 'stderr_tail': pr.err[-80:]},
                      'valid_use': vt, 'valid_use_observed': vres, 'observations': obs,
                      'expected': 'all observations equal'}


def _instr_any(w, res, case, tier):
    name = case['name']
    accepted_in = []
    for ph in PHASES_WITH_INSTRUCTIONS:
        acc, _ = w.accepts('case', ph, name)
        if acc is None:
            w.inconclusive.append('parser probe did not finish')
            return
        if acc:
            accepted_in.append(ph)
    r = w.help([name])
    page_ok, why = w.renders([name])
    res.evals += 1
    if name in HELP_KEYWORDS:
        res.classes.append(('instr-any', name, 'shadowed-by-keyword', 'accepted-in=%d' % len(accepted_in)))
        return
    w.ctx.count('c20.membership_compared')
    if accepted_in and not page_ok:
        res.bad('`help %s` fails although the instruction is accepted in %r: %s' % (name, accepted_in, why),
                observed=_brief(r))
    elif not accepted_in and page_ok:
        res.bad('`help %s` renders although no phase accepts such an instruction' % name, observed=_brief(r))
    elif page_ok:
        w.ctx.count('c20.pages_rendered')
        shown = [m.group(1) for m in (_PHASE_HDR.match(l) for l in r.out.split('\n')) if m]
        if shown != accepted_in:
            res.bad('`help %s` describes the instruction for the phases %r, the parser accepts it in %r'
                    % (name, shown, accepted_in))
        check_see_also(w, res, [name])
        rerender(w, res, [name], tier)
    res.classes.append(('instr-any', name, 'phases=' + ','.join(accepted_in), 'page=' + _yn(page_ok)))


# -- instructions of suite sections ------------------------------------------------------------------------------
def _valid_suite_text(s, name):
    if s == 'conf':
        line = VALID_USE_CONF.get(name)
        return None if line is None else '[conf]\n%s\n[cases]\nc20.case\n' % line
    if name not in VALID_USE:
        return None
    prep, line = VALID_USE[name]
    if s == 'setup':
        body = '[setup]\n' + ''.join(l + '\n' for l in prep) + line + '\n'
    else:
        body = ('[setup]\n' + ''.join(l + '\n' for l in prep) if prep else '') + '[%s]\n%s\n' % (s, line)
    return body + '[cases]\nc20.case\n'


def _suite_instr(w, res, case, tier):
    s, name = case['section'], case['name']
    acc, pr = w.accepts('suite', s, name)
    if acc is None:
        w.inconclusive.append('parser probe (suite) for %r in [%s] did not finish' % (name, s))
        return
    sec_ok, ph, add = suite_section_facts(w, s)
    w.ctx.count('c20.listing_lookups')
    inherited_listing = w.listing([ph, 'instructions']) if ph in PHASES_WITH_INSTRUCTIONS else {}
    additional = name in add
    inherited = bool(inherited_listing) and name in inherited_listing
    listed = additional or inherited
    page_ok, page_why = w.renders(['suite', s, name])
    res.evals += 3
    w.ctx.count('c20.membership_compared')
    obs = {'suite parser accepts `%s` in [%s]' % (name, s): acc,
           'documented for the section (additional=%s, via phase [%s]=%s)' % (additional, ph, inherited): listed,
           '`help suite %s %s` renders' % (s, name): page_ok}
    if acc != listed:
        res.bad('suite section [%s], instruction %r: %s' %
                (s, name, 'accepted by the suite parser but not documented for the section' if acc
                 else 'documented for the section but the suite parser answers "Unknown instruction"'),
                observations=obs, parser_probe=_brief(pr))
    elif listed and not page_ok and inherited and not additional and w.renders([ph, name])[0]:
        # The section's manual page says its contents are "identical to the [PHASE] test case phase": the help entry
        # of an instruction taken over from the phase is the phase's page, which renders.  The property asks for *a*
        # help entry that `exactly help ...` displays; demanding `help suite SECTION NAME` too would demand more than
        # it states (recorded in DESIGN.md as a corrected false alarm).
        w.ctx.count('c20.suite_instr_help_via_phase_page')
    elif listed and not page_ok:
        phase_page_ok = inherited and w.renders([ph, name])[0]
        res.bad('suite section [%s] accepts and documents %r, but `help suite %s %s` fails: %s'
                % (s, name, s, name, page_why),
                mechanism='suite-section-instruction-without-suite-help', additional=additional, inherited=inherited,
                accepted=acc, phase_page_ok=bool(phase_page_ok), observed=_brief(w.help(['suite', s, name])))
    elif page_ok and not listed:
        res.bad('`help suite %s %s` renders although the section neither accepts nor documents it' % (s, name),
                observations=obs, observed=_brief(w.help(['suite', s, name])))
    if page_ok:
        w.ctx.count('c20.pages_rendered')
        check_page_identity(w, res, ['suite', s, name], name, add.get(name), set(add) | set(universe()['instr']),
                            body_must_mention=name)
        check_see_also(w, res, ['suite', s, name])
        rerender(w, res, ['suite', s, name], tier)
    vt = _valid_suite_text(s, name)
    if vt is not None and (acc or listed):
        files = dict(CASE_FILES)
        files['c20.case'] = '[assert]\nexit-code == 0\n'
        r = w.run_text(vt, files=files, argv_prefix=['suite'], name='t.suite')
        w.ctx.count('c20.valid_use_runs')
        res.evals += 1
        if r.exc is None and not r.timed_out and not (r.rc == 0 and re.search(r'c20\.case: .*PASS', r.out)):
            res.bad('the minimal use of %r in suite section [%s] written from its SYNOPSIS does not make the suite pass'
                    % (name, s), suite_text=vt, observed=_brief(r))
    res.classes.append(('suite-instr', s, name, 'parser=' + _yn(acc),
                        'doc=' + ('additional' if additional else 'phase' if inherited else 'out'),
                        'page=' + _yn(page_ok)))
    if name == 'preprocessor' and s == 'conf':
        res.sample = {'suite_text': '[%s]\n%s\n' % (s, name), 'parser_probe': {'rc': pr.rc, 'stderr_tail': pr.err[-80:]},
                      'observations': obs, 'expected': 'all observations equal'}


# -- entities -------------------------------------------------------------------------------------------------------
def _symbol_behaviour(w, res, name, type_from_page):
    """-> is the symbol defined by the program? (two independent behavioural observations that must agree)"""
    w.ctx.count('c20.builtin_reference_runs', 2)
    if type_from_page in DATA_TYPES or type_from_page is None:
        ref = 'def %s C20_X = @[%s]@' % (type_from_page or 'string', name)
    else:
        ref = 'def %s C20_X = %s' % (type_from_page, name)
    r1 = w.run_text('[conf]\nactor = null\n[setup]\n%s\n' % ref)
    r2 = w.run_text('[conf]\nactor = null\n[setup]\ndef string %s = redefined\n' % name)
    res.evals += 2
    if r1.exc is not None or r2.exc is not None or r1.rc is None or r2.rc is None:
        return None
    undefined = r1.out == 'VALIDATION_ERROR\n' and 'is undefined' in r1.err
    referenceable = r1.rc == 0 and r1.out == 'PASS\n'
    redefinition_refused = r2.out == 'VALIDATION_ERROR\n' and 'already been defined' in r2.err
    redefinition_ok = r2.rc == 0 and r2.out == 'PASS\n'
    if referenceable and redefinition_refused:
        return True
    if undefined and redefinition_ok:
        return False
    res.bad('builtin symbol %r: a reference and a redefinition do not tell the same story' % name,
            reference={'line': ref, 'observed': _brief(r1)}, redefinition=_brief(r2))
    return referenceable


def _entity_behaviour(w, res, t, name):
    """-> True / False / None (not observable)"""
    if t == 'builtin':
        ok, _ = w.renders(['builtin', name])
        ty = None
        if ok:
            m = re.search(r'^Type: (\S+)$', w.help(['builtin', name]).out, re.M)
            ty = m.group(1) if m else None
        return _symbol_behaviour(w, res, name, ty)
    if t == 'type':
        if ' ' in name:
            return False
        r = w.run_text('[setup]\ndef %s C20_X\n' % name)
        w.ctx.count('c20.parser_probes')
        res.evals += 1
        if r.rc is None:
            return None
        acc = not any(l.startswith('Invalid type') for l in r.err.split('\n')) and r.out == 'SYNTAX_ERROR\n'
        if acc and name in VALID_TYPE_DEF:
            r = w.run_text('[conf]\nactor = null\n[setup]\ndef %s C20_X = %s\n' % (name, VALID_TYPE_DEF[name]))
            w.ctx.count('c20.valid_use_runs')
            res.evals += 1
            if r.rc is not None and not (r.rc == 0 and r.out == 'PASS\n'):
                res.bad('a minimal definition of a %s symbol written from the manual does not PASS' % name,
                        line='def %s C20_X = %s' % (name, VALID_TYPE_DEF[name]), observed=_brief(r))
        return acc
    if t == 'reporter':
        if ' ' in name:
            return False
        r = w.run_text('[cases]\n', argv_prefix=['suite', '--reporter', name], name='e.suite')
        w.ctx.count('c20.parser_probes')
        res.evals += 1
        if r.rc is None:
            return None
        return r.rc == 0
    if t == 'directive':
        if ' ' in name:
            return False
        accs = [w.accepts('case', ph, name)[0] for ph in PHASES_WITH_INSTRUCTIONS]
        if any(a is None for a in accs):
            return None
        res.evals += len(accs)
        return all(accs)
    if t == 'confparam':
        if ' ' in name:
            return False
        acc, _ = w.accepts('case', 'conf', name)
        res.evals += 1
        if acc and name in VALID_USE_CONF:
            r = w.run_text('[conf]\n%s\n' % VALID_USE_CONF[name])
            w.ctx.count('c20.valid_use_runs')
            if r.rc is not None and not (r.rc == 0 and r.out == 'PASS\n'):
                res.bad('setting configuration parameter %r as documented does not PASS' % name,
                        observed=_brief(r))
        return acc
    if t == 'actor':
        if name in VALID_ACTOR_CASE:
            r = w.run_text(VALID_ACTOR_CASE[name])
            w.ctx.count('c20.valid_use_runs')
            res.evals += 1
            if r.rc is None:
                return None
            return r.rc == 0 and r.out == 'PASS\n'
        if name == CONTROL_ENTITY:
            r = w.run_text('[conf]\nactor = %s\n' % name)
            res.evals += 1
            return not (r.out == 'SYNTAX_ERROR\n')
        return None
    return None


def _entity(w, res, case, tier):
    t, name = case['type'], case['name']
    src = universe()['entity_src'].get(t, {}).get(name, [])
    listing = w.listing([t])
    w.ctx.count('c20.listing_lookups')
    listed = None if listing is None else (name in listing)
    args = [t] + name.split(' ')
    page_ok, page_why = w.renders(args)
    in_html = w.html_has('entity.', '%s.%s' % (t, name.replace(' ', '-')))
    behaviour = _entity_behaviour(w, res, t, name)
    defined = True if 'definitions' in src else None  # only a positive observation
    res.evals += 2
    w.ctx.count('c20.membership_compared')
    obs = {'`help %s` lists it' % t: listed, '`help %s` renders' % ' '.join(args): page_ok}
    if in_html is not None:
        obs['htmldoc has id entity.%s.%s' % (t, name.replace(' ', '-'))] = in_html
    if behaviour is not None:
        obs['the program accepts it (behavioural probe)'] = behaviour
    if defined:
        obs['defined in exactly_lib.definitions.entity'] = True
    if listing is None:
        res.bad('`help %s` is not rendered: %s' % (t, w.renders([t])[1]))
    exact_ok = True
    if page_ok:
        w.ctx.count('c20.pages_rendered')
        exact_ok = check_page_identity(w, res, args, name, (listing or {}).get(name),
                                       set(listing or ()) | set(universe()['entity'][t]))
        if not listed and exact_ok:
            # a page rendered for a name that is not listed: only wrong if it is not a sub-string match of a listed one
            first = w.help(args).out.split('\n')[0].strip()
            if first in (listing or {}):
                page_ok = False  # inexact match of another entry: NAME itself has no page
                obs['`help %s` renders' % ' '.join(args)] = False
    values = [v for v in obs.values() if v is not None]
    if len(set(values)) > 1:
        if behaviour and not listed:
            msg = '%s %r is accepted by the program but missing from `help %s`' % (t, name, t)
        elif listed and behaviour is False:
            msg = '%s %r is listed by `help %s` but the program does not accept it' % (t, name, t)
        elif listed and not page_ok:
            msg = '%s %r is listed but `help %s` fails: %s' % (t, name, ' '.join(args), page_why)
        elif defined and not listed:
            msg = '%s %r is defined by the program (definitions.entity) but missing from `help %s`' % (t, name, t)
        else:
            msg = '%s %r: help listing, help page, HTML manual and program disagree' % (t, name)
        res.bad(msg, observations=obs, page=_brief(w.help(args)))
    if page_ok and exact_ok:
        check_see_also(w, res, args)
        rerender(w, res, args, tier)
    res.classes.append(('entity', t, name, 'listing=' + _yn(listed), 'page=' + _yn(page_ok), 'html=' + _yn(in_html),
                        'program=' + _yn(behaviour)))
    if (t, name) in (('builtin', 'EXACTLY_ACT'), ('type', 'text-matcher')):
        res.sample = {'entity': [t, name], 'observations': obs, 'expected': 'all observations equal'}


# ---------------------------------------------------------------------------------------------------------------
# Known findings (keyed by mechanism; active only for keys listed as open in known_findings.json)
# ---------------------------------------------------------------------------------------------------------------
def _known_suite_inherited(v):
    c, d = v.get('case') or {}, v.get('detail') or {}
    o = d.get('observed') or {}
    return (c.get('kind') == 'suite-instr'
            and d.get('mechanism') == 'suite-section-instruction-without-suite-help'
            and d.get('inherited') is True and d.get('additional') is False and d.get('accepted') is True
            and d.get('phase_page_ok') is True
            and o.get('rc') == 64 and o.get('out') == '' and not o.get('exc')
            and (o.get('err') or '').strip() in ('No matching instruction',
                                                 'Section "%s" does not have instructions.'))


KNOWN = {
    'suite_help_lacks_phase_instructions': _known_suite_inherited,
}
