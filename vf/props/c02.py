"""C02 Outcome table: scenario x status x mode x action exit code, through the real CLI (D1, M3)."""
import itertools
import os

from vf import common, probe
from vf.driver import OUTCOME_TABLE, first_line

ID = 'C02'
LEVEL = 'exploration'
RULE = ('cases = (ending scenario x configured status x output mode) enumerated exhaustively, the status configured in '
        'the case, in the suite that applies to it (exactly.suite beside it / --suite) or in both (the case wins), '
        'each with several action '
        'exit codes / outputs (core fixed list, plus seeded others); class key = (ending, status, mode, identifier, '
        'exit-code bucket); a case is non-trivial when the CLI returned and its (identifier, code, stream) triple was '
        'compared with the hard-coded documented table')
ASSUMPTIONS = ['the documented table is the one hard-coded in vf/driver.py (from `exactly help case spec`/README), '
               'not read from exit_values.py',
               'under --act an error after the action (hard error in [cleanup]) is an error: reported on stderr after the '
               'action\'s output with the table code (`help case`, --act)']
EXHAUSTIVE_NOTE = 'ending x status x mode table is enumerated completely in both tiers'
MIN_OBS = {'quick': {'evaluations': 400, 'c02.table_compared': 400, 'c02.subprocess_crosschecks': 3},
           'thorough': {'evaluations': 3000, 'c02.table_compared': 3000, 'c02.subprocess_crosschecks': 10}}

STATUSES = [None, 'PASS', 'FAIL', 'SKIP']
MODES = ['normal', 'keep', 'act']
VIAS = ['case', 'suite-beside', 'case', 'both-beside', 'suite-option', 'both-option']
ENDINGS = [
    'pass', 'fail_first', 'fail_last', 'fail_only',
    'syntax_instr', 'syntax_unknown_instr', 'unknown_phase', 'act_syntax',
    'undefined_symbol', 'missing_home_file',
    'hard_setup', 'hard_before_assert', 'hard_assert', 'hard_cleanup', 'hard_act',
    # a failing assertion FOLLOWED by an error in [cleanup] (`help case spec`, outcome: an error that occurs during the
    # execution "will ... be reported as an error, and not as a failed test")
    'fail_then_hard_cleanup',
    # the OS refuses to start a program for another reason than "not found" / "permission denied" (an executable text
    # file without #! line: ENOEXEC), in each phase
    'hard_exec_setup', 'hard_exec_act', 'hard_exec_before_assert', 'hard_exec_assert', 'hard_exec_cleanup',
    'missing_include', 'preproc_fail', 'preproc_nonexec', 'preproc_killed', 'preproc_exit_255', 'preproc_stderr_only',
    'no_case_file', 'unknown_option', 'bad_utf8', 'case_symlink_loop', 'case_below_regular_file',
    'suite_syntax_error', 'suite_missing_include',
]
CORE_RCS = [0, 1, 2, 32, 33, 64, 65, 127, 128, 129, 255]
OUTPUTS = [('', ''), ('out text\n', 'err text\n'), ('no final newline', 'e'), ('l1\nl2\n', '')]

# where the ending takes effect:  parse < conf < validation < execution
_PARSE_TIME = {'syntax_instr', 'syntax_unknown_instr', 'unknown_phase', 'missing_include', 'suite_syntax_error',
               'suite_missing_include'}
_BEFORE_PARSE = {'preproc_fail', 'preproc_nonexec', 'preproc_killed', 'preproc_exit_255', 'preproc_stderr_only',
                 'no_case_file', 'unknown_option', 'bad_utf8', 'case_symlink_loop', 'case_below_regular_file'}


def cases(tier, seed):
    rng = common.rng_for(seed, ID)
    n_extra = 3 if tier == 'quick' else 8
    for ending, status, mode in itertools.product(ENDINGS, STATUSES, MODES):
        rcs = []
        # deterministic: rotate through the core list so that every core rc meets every mode & several scenarios
        idx = (ENDINGS.index(ending) * 12 + STATUSES.index(status) * 3 + MODES.index(mode))
        rcs.append(CORE_RCS[idx % len(CORE_RCS)])
        if ending in ('pass', 'fail_first', 'fail_last', 'fail_only', 'hard_cleanup', 'fail_then_hard_cleanup',
                      'hard_before_assert',
                      'hard_assert'):
            rcs.extend(CORE_RCS if (tier == 'thorough' or mode == 'act') else CORE_RCS[::3])
        for _ in range(n_extra):
            rcs.append(rng.randrange(256))
        for j, rc in enumerate(rcs):
            out, err = OUTPUTS[(idx + j) % len(OUTPUTS)]
            # where the status is configured: the case's own [conf]; the [conf] of the suite that applies to the case
            # (exactly.suite beside it, or --suite FILE); or both, where the case's own setting comes last and wins
            via = 'case'
            if status is not None and ending not in ('suite_syntax_error', 'suite_missing_include', 'unknown_option',
                                                     'no_case_file', 'case_symlink_loop',
                                                     'case_below_regular_file'):
                via = VIAS[(idx + j) % len(VIAS)]
            yield {'ending': ending, 'status': status, 'mode': mode, 'act_rc': rc, 'act_out': out, 'act_err': err,
                   'k': 1 + (idx + j) % 3, 'via': via,
                   'xcheck': (idx % (97 if tier == 'quick' else 19) == 0 and j == 0)}


# ---------------------------------------------------------------------------------------------
def build(case, probe_path):
    """-> (files, argv_before_file, case_file_name)"""
    e = case['ending']
    L = []
    via = case.get('via', 'case')
    suite_conf = None
    if case['status'] is not None:
        if via in ('case', 'both-beside', 'both-option'):
            L += ['[conf]', 'status = ' + case['status']]
        if via.startswith('suite'):
            suite_conf = case['status']
        elif via.startswith('both'):
            others = [x for x in ('PASS', 'FAIL', 'SKIP') if x != case['status']]
            suite_conf = others[case['act_rc'] % 2]
    act_line = '%s - %s' % (probe_path, probe.ctrl(rc=case['act_rc'], out=case['act_out'], err=case['act_err']))
    setup, act, ba, as_, cl = [], [act_line], [], [], []
    files = {}
    argv = []
    rc = case['act_rc']
    k = case['k']
    good = 'exit-code == %d' % rc
    bad = 'exit-code == %d' % ((rc + 1) % 256)
    if e == 'pass':
        as_ = [good] * k
    elif e == 'fail_first':
        as_ = [bad] + [good] * k
    elif e == 'fail_last':
        as_ = [good] * k + [bad]
    elif e == 'fail_only':
        as_ = [bad]
    elif e == 'syntax_instr':
        as_ = [good, 'exit-code == == 1', good]
    elif e == 'syntax_unknown_instr':
        cl = ['no-such-instruction arg']
        as_ = [good]
    elif e == 'unknown_phase':
        as_ = [good]
    elif e == 'act_syntax':
        act = [act_line, act_line]
        as_ = [good]
    elif e == 'undefined_symbol':
        as_ = [good]
        cl = ['file x.txt = @[UNDEFINED_SYMBOL]@']
    elif e == 'missing_home_file':
        setup = ['copy this-file-does-not-exist.txt']
        as_ = [good]
    elif e == 'hard_setup':
        setup = ['$ exit 1']
        as_ = [good]
    elif e == 'hard_before_assert':
        ba = ['$ exit 1']
        as_ = [good]
    elif e == 'hard_assert':
        as_ = [good, 'contents this-file-does-not-exist.txt : is-empty']
    elif e == 'hard_cleanup':
        as_ = [good]
        cl = ['$ exit 1']
    elif e == 'fail_then_hard_cleanup':
        as_ = [good] * (k - 1) + [bad]
        cl = ['$ exit 1']
    elif e.startswith('hard_exec_'):
        files['not-a-program'] = ('exe', 'echo this file has no interpreter line\n')
        as_ = [good]
        ph = e[len('hard_exec_'):]
        if ph == 'setup':
            setup = ['run not-a-program']
        elif ph == 'act':
            act = ['not-a-program']
        elif ph == 'before_assert':
            ba = ['run not-a-program']
        elif ph == 'assert':
            as_ = [good, 'run not-a-program']
        else:
            cl = ['run not-a-program']
    elif e == 'hard_act':
        setup = ['file not-executable.txt = "x"']
        act = ['-rel-act not-executable.txt']
        as_ = [good]
    elif e == 'missing_include':
        setup = ['including this-file-does-not-exist.xly']
        as_ = [good]
    elif e == 'preproc_fail':
        as_ = [good]
        argv = ['--preprocessor', 'false']
    elif e == 'preproc_nonexec':
        as_ = [good]
        argv = ['--preprocessor', './no-such-preprocessor']
    elif e == 'preproc_killed':
        # the preprocessor dies from a signal (it has printed nothing, or a part of a valid case, before that)
        as_ = [good]
        files['pp-killed.sh'] = ('exe', '#!/bin/sh\n%skill -9 $$\n' % ('' if case['act_rc'] % 2 else 'head -2 "$1"\n'))
        argv = ['--preprocessor', './pp-killed.sh']
    elif e == 'preproc_exit_255':
        as_ = [good]
        files['pp-255.sh'] = ('exe', '#!/bin/sh\ncat "$1"\nexit 255\n')
        argv = ['--preprocessor', './pp-255.sh']
    elif e == 'preproc_stderr_only':
        as_ = [good]
        files['pp-err.sh'] = ('exe', '#!/bin/sh\necho oops >&2\nexit 2\n')
        argv = ['--preprocessor', './pp-err.sh']
    elif e in ('no_case_file', 'unknown_option', 'bad_utf8', 'case_symlink_loop', 'case_below_regular_file'):
        as_ = [good]
    elif e == 'suite_syntax_error':
        # the suite file found beside the case (exactly.suite) cannot be parsed
        as_ = [good]
        files['exactly.suite'] = '[setup]\nno-such-instruction-in-suite x\n'
    elif e == 'suite_missing_include':
        as_ = [good]
        files['exactly.suite'] = '[setup]\nincluding this-file-does-not-exist.xly\n'
    else:
        raise ValueError(e)
    for name, lines in (('setup', setup), ('act', act), ('before-assert', ba), ('assert', as_), ('cleanup', cl)):
        if lines:
            L.append('[%s]' % name)
            L.extend(lines)
    if e == 'unknown_phase':
        L += ['[no-such-phase]', 'x']
    text = '\n'.join(L) + '\n'
    name = 't.case'
    if e == 'bad_utf8':
        files[name] = text.encode() + b'# \xff\xfe\xc3\x28\n'
    else:
        files[name] = text
    if e == 'unknown_option':
        argv = ['--no-such-option']
    if suite_conf is not None:
        suite_text = '[conf]\nstatus = %s\n' % suite_conf
        if via.endswith('beside'):
            files['exactly.suite'] = suite_text
        else:
            files['conf.suite'] = suite_text
            argv = argv + ['--suite', 'conf.suite']
    return files, argv, name


_ALIAS = {'fail_then_hard_cleanup': 'hard_cleanup', 'hard_exec_setup': 'hard_setup', 'hard_exec_act': 'hard_act', 'hard_exec_before_assert': 'hard_before_assert',
          'hard_exec_assert': 'hard_assert', 'hard_exec_cleanup': 'hard_cleanup'}


def expected(case):
    """-> dict(kind=..., ident=..., sandbox=bool) ; kind in
       'table' (identifier+code from the table), 'usage' (64, no identifier), 'passthrough' (--act completed),
       'any_error_row' (bad utf-8: only a consistent error row is demanded), 'act_cleanup' (see ASSUMPTIONS)"""
    e, st, mode = case['ending'], case['status'], case['mode']
    e = _ALIAS.get(e, e)
    if e in ('no_case_file', 'unknown_option'):
        return {'kind': 'usage'}
    if e in ('case_symlink_loop', 'case_below_regular_file'):
        # a name that cannot be a readable file: invalid usage like a missing file, or a consistent error row
        return {'kind': 'usage_or_error_row'}
    if e == 'bad_utf8':
        return {'kind': 'any_error_row'}
    if e in ('preproc_fail', 'preproc_nonexec', 'preproc_killed', 'preproc_exit_255', 'preproc_stderr_only'):
        return {'kind': 'table', 'ident': 'PRE_PROCESS_ERROR', 'sandbox': False}
    if e in ('syntax_instr', 'syntax_unknown_instr', 'unknown_phase'):
        return {'kind': 'table', 'ident': 'SYNTAX_ERROR', 'sandbox': False}
    if e in ('missing_include', 'suite_missing_include'):
        return {'kind': 'table', 'ident': 'FILE_ACCESS_ERROR', 'sandbox': False}
    if e == 'suite_syntax_error':
        return {'kind': 'table', 'ident': 'SYNTAX_ERROR', 'sandbox': False}
    # from here the conf phase has run
    if st == 'SKIP':
        return {'kind': 'table', 'ident': 'SKIPPED', 'sandbox': False}
    if e == 'act_syntax':
        return {'kind': 'table', 'ident': 'SYNTAX_ERROR', 'sandbox': False}
    if e in ('undefined_symbol', 'missing_home_file'):
        return {'kind': 'table', 'ident': 'VALIDATION_ERROR', 'sandbox': False}
    if e in ('hard_setup', 'hard_act'):
        return {'kind': 'table', 'ident': 'HARD_ERROR', 'sandbox': True}
    if mode == 'act':
        if e == 'hard_cleanup':
            return {'kind': 'act_cleanup', 'sandbox': True}
        return {'kind': 'passthrough', 'sandbox': True}
    if e in ('hard_before_assert', 'hard_assert', 'hard_cleanup'):
        return {'kind': 'table', 'ident': 'HARD_ERROR', 'sandbox': True}
    if e == 'pass':
        return {'kind': 'table', 'ident': 'XPASS' if st == 'FAIL' else 'PASS', 'sandbox': True}
    if e in ('fail_first', 'fail_last', 'fail_only'):
        return {'kind': 'table', 'ident': 'XFAIL' if st == 'FAIL' else 'FAIL', 'sandbox': True}
    raise ValueError(e)


_SDS_LAYOUT = ['act', 'tmp', 'result', 'internal']


def run_case(case, ctx):
    ses = ctx.get_session()
    files, argv, name = build(case, probe.PROBE)
    d = ses.new_case_dir(files)
    mode = case['mode']
    margv = {'normal': [], 'keep': ['--keep'], 'act': ['--act']}[mode]
    target = os.path.join(d, name)
    if case['ending'] == 'no_case_file':
        target = os.path.join(d, 'does-not-exist.case')
    elif case['ending'] == 'case_symlink_loop':
        os.symlink('loop-b.case', os.path.join(d, 'loop-a.case'))
        os.symlink('loop-a.case', os.path.join(d, 'loop-b.case'))
        target = os.path.join(d, 'loop-a.case')
    elif case['ending'] == 'case_below_regular_file':
        target = os.path.join(d, name, 'x.case')
    full_argv = margv + argv + [target]
    # every third case: started from a directory that is not an ancestor of the (absolute) case file
    run_cwd = d
    if (len(name) + case['act_rc'] + len(case['ending'])) % 3 == 0 and case['ending'] not in ('unknown_option',) \
            and not any(a.startswith('./') for a in argv):
        run_cwd = os.path.join(ctx.scratch, 'c02-elsewhere')
        os.makedirs(run_cwd, exist_ok=True)
        ctx.count('c02.started_from_another_directory')
        full_argv = margv + [os.path.join(d, a) if (a.endswith('.suite') and not os.path.isabs(a)) else a for a in argv] \
            + [target]
    r = ses.run(full_argv, cwd=run_cwd, mode=mode)
    exp = expected(case)
    viol = []

    def bad(msg):
        viol.append({'what': 'C02 %s/%s%s/%s: %s' % (case['ending'], case['status'],
                                                      '' if case.get('via', 'case') == 'case' else '(status via %s)' % case['via'],
                                                      mode, msg),
                     'detail': {'expected': exp, 'observed': r.brief()}})

    inconc = []
    if r.timed_out:
        inconc.append('watchdog')
    elif r.exc is not None:
        bad('exception escaped MainProgram.execute')
    else:
        ctx.count('c02.table_compared')
        act_out, act_err = case['act_out'], case['act_err']
        kind = exp['kind']
        if kind == 'usage':
            if r.rc != 64:
                bad('invalid usage must exit 64, got %r' % r.rc)
            if r.out != '':
                bad('invalid usage must leave stdout empty')
            if any(l in OUTCOME_TABLE for l in r.err.split('\n')):
                bad('invalid usage must print no exit identifier')
        elif kind == 'usage_or_error_row':
            ident = first_line(r.out) if mode == 'normal' else first_line(r.err)
            usage = r.rc == 64 and r.out == '' and not any(l in OUTCOME_TABLE for l in r.err.split('\n'))
            row = ident in OUTCOME_TABLE and OUTCOME_TABLE[ident] == r.rc and r.rc not in (0, 32, 33)
            if not (usage or row):
                bad('a case file name that cannot be read must give invalid usage (64, no identifier) or a consistent '
                    'error row, got ident=%r rc=%r stderr %r' % (ident, r.rc, r.err[-200:]))
        elif kind == 'any_error_row':
            ident = first_line(r.out) if mode == 'normal' else first_line(r.err)
            if ident not in OUTCOME_TABLE or OUTCOME_TABLE[ident] != r.rc or r.rc in (0, 32, 33):
                bad('undecodable case file must give a consistent error row, got ident=%r rc=%r' % (ident, r.rc))
        elif kind == 'table':
            ident = exp['ident']
            code = OUTCOME_TABLE[ident]
            if r.rc != code:
                bad('exit code %r, documented %d for %s' % (r.rc, code, ident))
            if mode == 'normal':
                if r.out != ident + '\n':
                    bad('stdout must be exactly the identifier line %r, got %r' % (ident, r.out[:200]))
                if any(l in OUTCOME_TABLE for l in r.err.split('\n')):
                    bad('identifier repeated on stderr in normal mode')
            elif mode == 'keep':
                if first_line(r.err) != ident:
                    bad('--keep: first stderr line must be the identifier %r, got %r' % (ident, first_line(r.err)))
                if sum(1 for l in r.err.split('\n') if l in OUTCOME_TABLE) != 1:
                    bad('--keep: identifier line must appear exactly once on stderr')
                if exp['sandbox']:
                    if not (r.out.endswith('\n') and r.out.count('\n') == 1):
                        bad('--keep: stdout must be exactly the sandbox path line, got %r' % r.out[:200])
                    else:
                        sds = r.out[:-1]
                        if not os.path.isdir(sds):
                            bad('--keep: reported sandbox %r does not exist' % sds)
                        elif sorted(os.listdir(sds)) != sorted(_SDS_LAYOUT):
                            bad('--keep: sandbox layout %r' % sorted(os.listdir(sds)))
                        elif os.path.basename(sds) not in r.new_tmp_entries:
                            bad('--keep: reported sandbox is not the directory created by this run')
                else:
                    if r.out != '':
                        bad('--keep: no sandbox was created, stdout must be empty, got %r' % r.out[:200])
            else:  # act mode, not completed
                lines = r.err.split('\n')
                if lines.count(ident) != 1:
                    bad('--act (not completed): identifier %r must be on stderr exactly once' % ident)
                if any(l in OUTCOME_TABLE for l in r.out.split('\n')):
                    bad('--act: identifier on stdout')
        elif kind == 'passthrough':
            if r.rc != case['act_rc']:
                bad('--act: exit code %r is not the action\'s %d' % (r.rc, case['act_rc']))
            if r.out_b != act_out.encode():
                bad('--act: stdout %r is not the action\'s %r' % (r.out[:200], act_out))
            if r.err_b != act_err.encode():
                bad('--act: stderr %r is not the action\'s %r' % (r.err[:200], act_err))
        elif kind == 'act_cleanup':
            # `help case`, --act: "If an error occurs, the normal error information is emitted to stderr (following the
            # output from [act])": a hard error in [cleanup] is an error, not a completed execution
            if not r.err.startswith(act_err):
                bad('--act with failing cleanup: action stderr lost')
            err_rest = r.err[len(act_err):] if r.err.startswith(act_err) else r.err
            idents = [l for l in err_rest.split('\n') if l in OUTCOME_TABLE]
            if idents != ['HARD_ERROR']:
                bad('--act with a hard error in [cleanup]: the error must be reported on stderr after the action\'s output '
                    '(identifier HARD_ERROR exactly once), found %r' % idents)
            if r.rc != 128:
                bad('--act with a hard error in [cleanup]: exit code %r, documented 128 for HARD_ERROR' % r.rc)
            if r.out_b != act_out.encode():
                bad('--act with failing cleanup: stdout %r is not the action\'s %r' % (r.out[:100], act_out))
        # sandbox removal / leak: without --keep nothing may be left
        if mode != 'keep' and r.new_tmp_entries:
            bad('sandbox (or other temp entries) left behind without --keep: %r' % r.new_tmp_entries)
        if mode == 'keep' and not exp.get('sandbox', False) and kind in ('table', 'usage') and r.new_tmp_entries:
            bad('temp entries left behind although no sandbox is expected: %r' % r.new_tmp_entries)
        # driver cross-check through a fresh interpreter
        if case.get('xcheck'):
            from vf import driver
            rc2, out2, err2 = driver.run_in_subprocess(full_argv, d, ses.tmpdir)
            ctx.count('c02.subprocess_crosschecks')

            def norm(s):
                return s.replace(ses.tmpdir, '<TMP>')
            if rc2 != r.rc or (mode != 'keep' and out2 != r.out) or first_line(err2) != first_line(r.err):
                bad('in-process driver and `python -c main()` disagree: %r vs %r' % ((rc2, out2[:100]),
                                                                                    (r.rc, r.out[:100])))
    ses.clean_tmp()
    ses.drop(d)
    ident_seen = first_line(r.out) if mode == 'normal' else first_line(r.err)
    if ident_seen not in OUTCOME_TABLE:
        ident_seen = '-'
    rc_bucket = 'rc=act' if (exp['kind'] == 'passthrough') else 'rc=%s' % r.rc
    res = {'classes': [(case['ending'], str(case['status']), case.get('via', 'case'), mode, ident_seen, rc_bucket)],
           'viol': viol,
           'inconclusive': inconc}
    if case['ending'] in ('fail_last', 'hard_cleanup') and case['status'] == 'FAIL':
        res['sample'] = {'case': case, 'argv': full_argv[:-1] + ['<case>'], 'case_text': files[name]
                         if isinstance(files[name], str) else '<bytes>',
                         'expected': exp, 'observed': {'rc': r.rc, 'stdout': r.out[:100], 'stderr_first_line':
                                                       first_line(r.err)}}
    return res
