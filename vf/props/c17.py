"""C17 Cases are independent; suite contents apply alike standalone and in a suite run (D1, M1, M2, M7).

Two kinds of case descriptor:

* ``indep``   – a list of <= 4 test cases drawn from *setters* (env in both sets, cd, timeout, def, files in act/ and
  tmp/; in any phase; ending PASS / FAIL / HARD_ERROR / VALIDATION_ERROR) and *observers* (probe records of the
  environment, the current directory, the timeout handed to ``subprocess.call``, a reference to a symbol that must be
  undefined, assertions that act/ and tmp/ are empty).  Every case is first run alone, then the list is run as a suite
  in every order.  Oracles: (i) absolute for the observers (documented defaults: environment of the Exactly process,
  cwd = act/ of a fresh sandbox, timeout 60, symbol undefined => VALIDATION_ERROR, empty act/ and tmp/);
  (ii) order invariance and equality with the run alone for every case (identifier, probe records modulo sandbox
  path / pid, timeouts).

* ``contents`` – a root suite with contents for a subset of {[conf] actor, [conf] preprocessor, [conf] status, setup,
  act, before-assert, assert, cleanup}, cases listed directly in it, and (usually) a sub-suite with other contents and
  its own case; every case with own contents in a subset of phases.  Each case is run (a) inside ``exactly suite ROOT``,
  (b) ``exactly --suite SUITE CASE`` (optionally with a *decoy* ``exactly.suite`` beside the case that must be
  overridden), (c) ``exactly CASE`` beside an ``exactly.suite`` with the suite's contents, (d) ``exactly CASE`` beside
  the decoy.  Oracle: a reference model written from ``help suite spec`` / ``help suite SECTION``: the contents of the
  suite that lists the case directly come before the case's own in every phase except cleanup where they come after;
  nothing from the parent of a sub-suite; later [conf] settings override earlier ones; the three ways agree.

* ``shared`` – a suite whose [before-assert] / [assert] / [cleanup] hold instructions with references to symbols that
  each of three cases defines differently in its [setup] (integers, ranges, regexes, paths, globs, lists, matcher /
  transformer / program / text-source symbols).  The instruction objects are parsed once from the suite file and
  serve every case of the run.  Every case is built to PASS exactly when the instruction is evaluated with its own
  values: PASS alone with ``--suite`` (absolute), PASS at every position of ``exactly suite`` in two listing orders.

Every probe of a ``contents`` case writes to ``@[EXACTLY_HOME]@/rec.jsonl`` (each case lives in its own directory), so
records are attributed to cases independently of what they contain.
"""
import itertools
import os
import re

from vf import common, probe

ID = 'C17'
LEVEL = 'exploration'
RULE = ('two generators: (1) indep = list of <=4 cases (setters of env[all|act|!act|unset|override], cd, timeout, def, '
        'files x phase x ending; observers of env/cwd/timeout/files, undefined symbol, own definition), each case run '
        'alone and the list run as a suite in ALL permutations; (2) contents = root suite + sub-suite with contents in a '
        'subset of {conf actor, conf preprocessor, conf status, 5 phases} x cases with own contents in a subset, each '
        'case run in-suite, with --suite (against a decoy exactly.suite), beside exactly.suite and beside the decoy. '
        'class key = (indep, setter kinds@phase/ending, observer kinds, n) resp. (contents, suite subset, case subset, '
        'direct|sub, identifier). An evaluation = one (case, run) pair whose identifier and probe records were compared '
        'with the reference (absolute oracle / model / run alone); non-trivial when at least one probe record or a '
        'no-execution identifier had to be explained')
ASSUMPTIONS = [
    'order of execution between the cases of one suite = listing order (C16 owns enumeration); C17 attributes results '
    'by case name and by per-case record files, never by position',
    'a FAIL in [assert] is only injected at the last assertion of the phase (the manual does not say whether '
    'assertions after a failing one are executed)',
    'status SKIP together with an invalid two-line [act] for the command-line actor: SKIPPED or SYNTAX_ERROR are both '
    'accepted (manual silent on precedence); only agreement of the ways of running is demanded there',
    'an exactly.suite beside a case is not consulted by `exactly suite OTHER.suite` (help suite spec: contents come '
    'from the suite that lists the case)',
    'an EXPLICITLY configured actor (actor = command / actor = source) together with an empty [act]: `help act` says '
    'the null actor is used, `help actor command line` demands a PROGRAM; both PASS-like execution without an action '
    'and SYNTAX_ERROR are accepted, the ways of running must still agree (observed on the pinned tree: command => '
    'SYNTAX_ERROR, source => executes)',
    'preprocessor and act-interpreter are given as absolute programs; relative preprocessor paths are not generated',
    'junit reporter, --actor/--preprocessor command line options and `including` in suites are left to C16/C07',
]
EXHAUSTIVE_NOTE = ('core: every setter kind x phase with both observers in all 6 orders; 6 four-case lists in all 24 '
                   'orders; all 128 subsets of {actor, preprocessor, setup, act, before-assert, assert, cleanup} as '
                   'root-suite contents, each in the 3(+1) ways of running')
MIN_OBS = {
    'quick': {'evaluations': 2400, 'classes': 300, 'c17.suite_runs': 450, 'c17.standalone_runs': 900,
              'c17.observer_absolute_checks': 700, 'c17.order_invariance_checks': 1100,
              'c17.m2_timeouts_compared': 3500, 'c17.threeway_checks': 300, 'c17.model_sequence_checks': 1000,
              'c17.subsuite_case_checks': 350, 'c17.decoy_override_checks': 120, 'c17.sandbox_distinct_checks': 1300,
              'c17.preprocessor_log_checks': 1000, 'c17.shared_in_suite_checks': 200,
              'c17.shared_standalone_checks': 200},
    'thorough': {'evaluations': 10000, 'classes': 1500, 'c17.suite_runs': 2000, 'c17.standalone_runs': 4500,
                 'c17.observer_absolute_checks': 2400, 'c17.order_invariance_checks': 4500,
                 'c17.m2_timeouts_compared': 16000, 'c17.threeway_checks': 1500, 'c17.model_sequence_checks': 5000,
                 'c17.subsuite_case_checks': 1800, 'c17.decoy_override_checks': 700,
                 'c17.sandbox_distinct_checks': 5500, 'c17.preprocessor_log_checks': 5000,
                 'c17.shared_in_suite_checks': 300, 'c17.shared_standalone_checks': 300},
}
KNOWN = {}

PHASES = ['setup', 'act', 'before-assert', 'assert', 'cleanup']
INSTR_PHASES = ['setup', 'before-assert', 'assert', 'cleanup']
PH_LETTER = {'setup': 's', 'act': 'a', 'before-assert': 'b', 'assert': 'A', 'cleanup': 'c'}

# ---------------------------------------------------------------------------------------------------------------
# generator
# ---------------------------------------------------------------------------------------------------------------
SETTERS = ['env_all', 'env_act', 'env_non', 'env_unset', 'env_over', 'cd_tmp', 'cd_act', 'timeout_int',
           'timeout_none', 'def_str', 'def_path', 'files', 'mix']
ENDINGS = ['pass', 'bad', 'fail', 'validation']
OBSERVERS = ['all', 'sym', 'symdef']

ENV_NAMES = ['C17_ALL', 'C17_ACT', 'C17_NON', 'C17_BASE']
BASE_VALUE = 'base-value-of-the-exactly-process'
DEFAULT_TIMEOUT = 60  # `help concept timeout`: Default 60
PP_TOKEN = '__C17PPTOKEN__'


def _setter(what, phase, ending):
    return {'role': 'set', 'what': what, 'phase': phase, 'ending': ending}


def _obs(what):
    return {'role': 'obs', 'what': what}


def _subset(bits, names):
    return [n for i, n in enumerate(names) if bits >> i & 1]


def cases(tier, seed):
    # ---- deterministic core -------------------------------------------------------------------------------
    # (1) every setter kind x phase, with an all-observer and a symbol observer, all 6 orders
    i = 0
    for what in SETTERS:
        for phase in INSTR_PHASES:
            ending = ENDINGS[i % len(ENDINGS)]
            third = _obs('sym') if i % 3 != 2 else _obs('symdef')
            yield {'kind': 'indep', 'cases': [_setter(what, phase, ending), _obs('all'), third], 'slice': [0, 1]}
            i += 1
    # (2) two conflicting "mix" setters + two observers, all 24 orders (split in 4 slices of 6 orders)
    for p1, ending in (('setup', 'pass'), ('setup', 'validation'), ('before-assert', 'bad'), ('assert', 'pass'),
                       ('cleanup', 'validation'), ('cleanup', 'bad')):
        p2 = INSTR_PHASES[(INSTR_PHASES.index(p1) + 1) % len(INSTR_PHASES)]
        for sl in range(4):
            yield {'kind': 'indep',
                   'cases': [_setter('mix', p1, ending), _setter('mix', p2, 'pass'), _obs('all'),
                             _obs('sym') if ending != 'bad' else _obs('symdef')],
                   'slice': [sl, 4]}
    # (3) every subset of {actor, preprocessor, 5 phases} as root-suite contents
    names7 = ['actor', 'pre'] + PHASES
    for bits in range(128):
        sub = _subset(bits, names7)
        root = {'actor': 'source' if 'actor' in sub else None, 'pre': 'pre' in sub,
                'status': [None, 'FAIL', None, 'PASS'][bits % 4] if bits % 3 == 0 else None,
                'phases': [p for p in PHASES if p in sub], 'fail': None}
        # rotate so that all 64 case subsets (5 phases + status) are met, twice
        cb0 = (bits * 5 + 3) % 64
        cb1 = (63 - bits // 2) % 64
        cb2 = (bits * 11 + 17) % 64
        sb = (bits * 37 + 64) % 128

        def case_of(name, cb, k):
            return {'name': name, 'actor': None, 'status': (['FAIL', 'PASS'][k % 2] if cb >> 5 & 1 else None),
                    'phases': _subset(cb & 31, PHASES), 'fail': None}

        ssub = _subset(sb, names7)
        subsuite = {'actor': 'source' if 'actor' in ssub else None, 'pre': 'pre' in ssub, 'status': None,
                    'phases': [p for p in PHASES if p in ssub], 'fail': None}
        yield {'kind': 'contents', 'root': root, 'sub': subsuite,
               'direct': ([case_of('k0', cb0, bits), case_of('k1', cb1, bits + 1)] if bits % 2 == 0
                          else [case_of('k0', cb0, bits)]),
               'subcases': [case_of('k2', cb2, bits)],
               'decoy': ({'actor': None, 'pre': bits % 4 == 1, 'status': None, 'phases': list(PHASES), 'fail': None}
                         if bits % 2 else None),
               'rel': bits % 3 != 0, 'shuffle': None,
               # every fifth tree: the listed case files are symbolic links to files kept in another directory
               'linked': bits % 5 == 2,
               # every seventh tree: the actor is given on the command line of every way of running
               'cli_actor': bits % 7 == 3}
    # (4) shared suite contents: every single instruction kind in two listing orders; combinations
    for j, nm in enumerate(sorted(_SHARED)):
        yield {'kind': 'shared', 'names': [nm], 'order': [0, 1, 2]}
        yield {'kind': 'shared', 'names': [nm], 'order': [[2, 1, 0], [1, 2, 0], [2, 0, 1]][j % 3]}
    # one case of the three gives a symbol a value that is ill-formed where the suite's instruction uses it
    jj = 0
    for sym in sorted(_INVALIDATORS):
        for nm in _INVALIDATORS[sym][1]:
            for kbad, order in ((1, [0, 1, 2]), (0, [0, 1, 2]), (2, [1, 2, 0]), ('all', [2, 0, 1])):
                jj += 1
                if tier == 'quick' and jj % 3 == 0 and kbad != 'all':
                    continue
                yield {'kind': 'shared', 'names': [nm], 'order': order, 'invalid': {'k': kbad, 'sym': sym}}
    all_names = sorted(_SHARED)
    for j in range(8 if tier == 'quick' else 40):
        r2 = common.rng_for(seed, ID, 'shared', j)
        names = r2.sample(all_names, r2.choice([2, 3, 5, 8]))
        # at most one instruction that changes a setting later suite instructions depend on
        if 'cd' in names:
            names = [n for n in names if n == 'cd' or _SHARED[n][0] == 'before-assert'] or ['cd']
            names = [n for n in names if n in ('cd', 'env', 'timeout', 'def-in-suite')]
        order = [0, 1, 2]
        r2.shuffle(order)
        yield {'kind': 'shared', 'names': sorted(set(names)), 'order': order}
    # ---- seeded part ----------------------------------------------------------------------------------------
    rng = common.rng_for(seed, ID)
    n_indep, n_cont = (12, 90) if tier == 'quick' else (200, 1000)
    kinds = ['indep'] * n_indep + ['contents'] * n_cont
    rng.shuffle(kinds)
    for kind in kinds:
        if kind == 'indep':
            for dsc in _random_indep(rng):
                yield dsc
        else:
            yield _random_contents(rng)


def _random_indep(rng):
    n = rng.choice([2, 3, 3, 3, 4])
    n_obs = rng.randint(1, min(2, n - 1))
    cs = []
    for _ in range(n - n_obs):
        cs.append(_setter(rng.choice(SETTERS), rng.choice(INSTR_PHASES),
                          rng.choice(['pass', 'pass', 'bad', 'fail', 'validation'])))
    for _ in range(n_obs):
        cs.append(_obs(rng.choice(['all', 'all', 'sym', 'symdef'])))
    nsl = 4 if n == 4 else 1  # 24 orders are spread over 4 descriptors (shard balance)
    return [{'kind': 'indep', 'cases': cs, 'slice': [sl, nsl]} for sl in range(nsl)]


def _random_suite_spec(rng, allow_fail=True):
    s = {'actor': rng.choice([None, 'source']), 'pre': rng.random() < 0.4,
         'status': rng.choice([None, None, None, 'FAIL', 'PASS', 'SKIP']),
         'phases': [p for p in PHASES if rng.random() < 0.55], 'fail': None}
    if allow_fail and rng.random() < 0.15:
        cand = [p for p in ('setup', 'before-assert') if p in s['phases']]
        if cand:
            s['fail'] = rng.choice(cand)
    return s


def _random_case_spec(rng, name):
    c = {'name': name, 'actor': rng.choice([None, None, None, 'command', 'source']),
         'status': rng.choice([None, None, None, 'PASS', 'FAIL', 'SKIP']),
         'phases': [p for p in PHASES if rng.random() < 0.55], 'fail': None}
    if rng.random() < 0.25:
        cand = [p for p in ('setup', 'before-assert', 'assert') if p in c['phases']]
        if cand:
            c['fail'] = rng.choice(cand)
    return c


def _random_contents(rng):
    has_sub = rng.random() < 0.75
    return {'kind': 'contents', 'root': _random_suite_spec(rng),
            'sub': _random_suite_spec(rng) if has_sub else None,
            'direct': [_random_case_spec(rng, 'k%d' % i) for i in range(rng.choice([1, 1, 2]))],
            'subcases': [_random_case_spec(rng, 'k2')] if has_sub else [],
            'decoy': _random_suite_spec(rng, allow_fail=False) if rng.random() < 0.5 else None,
            'rel': rng.random() < 0.6, 'shuffle': rng.randrange(1 << 30) if rng.random() < 0.6 else None,
            'linked': rng.random() < 0.2, 'cli_actor': rng.random() < 0.15}


# ---------------------------------------------------------------------------------------------------------------
# worker set-up
# ---------------------------------------------------------------------------------------------------------------
def setup_worker(ctx):
    # a variable of "the OS environment when Exactly is started", for `env unset` / override setters
    os.environ['C17_BASE'] = BASE_VALUE
    for n in ('C17_ALL', 'C17_ACT', 'C17_NON'):
        os.environ.pop(n, None)


# ---------------------------------------------------------------------------------------------------------------
# shared observation helpers
# ---------------------------------------------------------------------------------------------------------------
_CASE_LINE = re.compile(r'^case\s+(\S+): \([^)]*\) (\S+)\s*$', re.M)
_SUITE_FINAL = ('OK', 'ERROR', 'INVALID_SUITE')


def _sds_root(path, tmpdirs):
    """-> sandbox root directory containing `path`, or None when `path` is not inside a directory of TMPDIR."""
    if not path:
        return None
    for t in tmpdirs:
        pre = t + '/'
        if path.startswith(pre):
            return pre + path[len(pre):].split('/', 1)[0]
    return None


def _norm_path(path, tmpdirs):
    root = _sds_root(path, tmpdirs)
    if root is None:
        return path
    return '<SDS>' + path[len(root):]


def _norm_records(recs, tmpdirs):
    return [{'id': r['id'], 'argv': list(r['argv']), 'cwd': _norm_path(r['cwd'], tmpdirs),
             'env': dict(r['env'])} for r in recs]


def _timeouts_by_probe_id(calls):
    """M2: probe id -> list of timeouts handed to subprocess.call for that probe."""
    ret = {}
    for c in calls:
        args = c.get('args')
        if not isinstance(args, list):
            continue
        for a in args:
            if isinstance(a, str) and a.startswith('id='):
                ret.setdefault(a[3:].split(',')[0], []).append(c.get('timeout'))
                break
    return ret


def _suite_idents(out):
    """progress reporter stdout -> ({case file base name: [identifier, ...]}, final line)"""
    by_name = {}
    for m in _CASE_LINE.finditer(out):
        by_name.setdefault(os.path.basename(m.group(1)), []).append(m.group(2))
    lines = [l for l in out.split('\n') if l]
    return by_name, (lines[-1] if lines else '')


class _Runner:
    """Wraps ses.run with the process-level observations every C17 run is subject to."""

    def __init__(self, ctx, ses, viol, inconc):
        self.ctx, self.ses, self.viol, self.inconc = ctx, ses, viol, inconc
        self.tmpdirs = sorted({ses.tmpdir, os.path.realpath(ses.tmpdir)})
        self.files = None  # set by caller: the texts, for witnesses

    def bad(self, what, **detail):
        self.viol.append({'what': 'C17 ' + what, 'detail': detail})

    def run(self, argv, cwd, is_suite):
        r = self.ses.run(argv, cwd=cwd, mode=None if is_suite else 'normal')
        self.ctx.count('c17.suite_runs' if is_suite else 'c17.standalone_runs')
        ok = True
        if r.timed_out:
            self.inconc.append('watchdog fired for %r' % (argv,))
            ok = False
        elif r.exc is not None:
            self.bad('exception escaped MainProgram.execute', argv=argv, observed=r.brief())
            ok = False
        else:
            if r.cwd_after != r.cwd_before:
                self.bad('the current directory of the Exactly process is not restored after the run '
                         '(it is what the next case starts from): %r -> %r' % (r.cwd_before, r.cwd_after), argv=argv)
            if r.env_after != r.env_before:
                diff = {k: (r.env_before.get(k), r.env_after.get(k))
                        for k in set(r.env_before) | set(r.env_after) if r.env_before.get(k) != r.env_after.get(k)}
                self.bad('the environment of the Exactly process was modified by the run '
                         '(it is the default environment of the next case): %r' % (diff,), argv=argv)
        return r, ok


# ---------------------------------------------------------------------------------------------------------------
# (1) independence
# ---------------------------------------------------------------------------------------------------------------
def _probe_line(out, pid, env=True, rc=None, args=''):
    c = probe.ctrl(id=pid, env=ENV_NAMES if env else None, rc=rc)
    return '%s %s %s%s' % (probe.PROBE, out, c, (' ' + args) if args else '')


def _setter_instructions(what, tag):
    v = str(tag)
    table = {
        'env_all': ['env C17_ALL = all-' + v],
        'env_act': ['env -of act C17_ACT = act-' + v],
        'env_non': ['env -of !act C17_NON = non-' + v],
        'env_unset': ['env unset C17_BASE'],
        'env_over': ['env C17_BASE = over-' + v],
        'cd_tmp': ['dir -rel-tmp cd-target-' + v, 'cd -rel-tmp cd-target-' + v],
        'cd_act': ['dir -rel-act cd-target-' + v, 'cd -rel-act cd-target-' + v],
        'timeout_int': ['timeout = %d' % (7 + int(tag))],
        'timeout_none': ['timeout = none'],
        'def_str': ["def string C17_SYM = 'leak-%s'" % v],
        'def_path': ['def path C17_SYM = -rel-tmp leak-' + v],
        'files': ["file -rel-act leak-act.txt = 'x'", "file -rel-tmp leak-tmp.txt = 'x'",
                  'dir -rel-act leak-dir', 'dir -rel-tmp leak-dir'],
    }
    if what == 'mix':
        ret = []
        for k in ('files', 'env_all', 'env_act', 'env_non', 'env_over' if int(tag) % 2 else 'env_unset',
                  'timeout_int' if int(tag) % 2 == 0 else 'timeout_none', 'def_str',
                  'cd_tmp' if int(tag) % 2 == 0 else 'cd_act'):
            ret += table[k]
        return ret
    return table[what]


def _indep_case_text(spec, idx, out):
    n = 'k%d' % idx
    ph = {p: [] for p in PHASES}
    if spec['role'] == 'obs':
        w = spec['what']
        if w == 'all':
            ph['setup'] = ['% ' + _probe_line(out, n + '.setup')]
            ph['act'] = [_probe_line(out, n + '.act')]
            ph['before-assert'] = ['% ' + _probe_line(out, n + '.before-assert')]
            ph['assert'] = ['exists ! -rel-act leak-act.txt', 'exists ! -rel-tmp leak-tmp.txt',
                            'dir-contents -rel-act . : is-empty', 'dir-contents -rel-tmp . : is-empty',
                            '% ' + _probe_line(out, n + '.assert')]
            ph['cleanup'] = ['% ' + _probe_line(out, n + '.cleanup')]
        elif w == 'sym':
            ph['setup'] = ['% ' + _probe_line(out, n + '.setup', args='@[C17_SYM]@')]
            ph['cleanup'] = ['% ' + _probe_line(out, n + '.cleanup')]
        elif w == 'symdef':
            ph['setup'] = ["def string C17_SYM = 'own-%s'" % n,
                           '% ' + _probe_line(out, n + '.setup', args='@[C17_SYM]@')]
            ph['act'] = [_probe_line(out, n + '.act', args='@[C17_SYM]@')]
        else:
            raise ValueError(w)
    else:
        for p in PHASES:
            line = _probe_line(out, n + '.' + p)
            ph[p] = [line if p == 'act' else '% ' + line]
        sp = spec['phase']
        ph[sp] = _setter_instructions(spec['what'], idx) + ph[sp]
        e = spec['ending']
        if e == 'bad':  # non-zero program right after the phase's probe: HARD_ERROR (FAIL in [assert])
            ph[sp].append('%% %s - %s' % (probe.PROBE, probe.ctrl(rc=1)))
        elif e == 'fail':
            ph['assert'].append('exit-code == 1')
        elif e == 'validation':
            ph['cleanup'].append('%% %s - %s @[C17_NEVER_DEFINED]@' % (probe.PROBE, probe.ctrl(rc=0)))
        elif e != 'pass':
            raise ValueError(e)
    L = []
    for p in PHASES:
        if ph[p]:
            L.append('[%s]' % p)
            L.extend(ph[p])
    return '\n'.join(L) + '\n'


def _observer_absolute(spec, idx, obs):
    """Oracle written from the manual for a pure observer. -> list of problems."""
    n = 'k%d' % idx
    pr = []
    w = spec['what']
    recs = obs['recs']
    if w == 'all':
        if obs['ident'] != 'PASS':
            pr.append('identifier %r, expected PASS (act/ and tmp/ of a fresh sandbox are empty)' % obs['ident'])
        ids = [r['id'] for r in recs]
        if ids != [n + '.' + p for p in PHASES]:
            pr.append('probe sequence %r' % ids)
        for r in recs:
            if r['cwd'] != '<SDS>/act':
                pr.append('%s: cwd %r, expected act/ of its own sandbox' % (r['id'], r['cwd']))
            exp_env = {'C17_ALL': None, 'C17_ACT': None, 'C17_NON': None, 'C17_BASE': BASE_VALUE}
            if r['env'] != exp_env:
                pr.append('%s: environment %r, expected that of the Exactly process %r' % (r['id'], r['env'], exp_env))
        for pid, ts in sorted(obs['timeouts'].items()):
            for t in ts:
                if t != DEFAULT_TIMEOUT:
                    pr.append('%s: timeout %r handed to the OS, expected the default %d' % (pid, t, DEFAULT_TIMEOUT))
        if len(obs['timeouts']) != len(PHASES):
            pr.append('M2 saw %d of the 5 probe processes' % len(obs['timeouts']))
    elif w == 'sym':
        if obs['ident'] != 'VALIDATION_ERROR':
            pr.append('identifier %r, expected VALIDATION_ERROR (C17_SYM is defined by no instruction of this case)'
                      % obs['ident'])
        if recs:
            pr.append('instructions executed although validation must fail: %r' % [r['id'] for r in recs])
    elif w == 'symdef':
        if obs['ident'] != 'PASS':
            pr.append('identifier %r, expected PASS (the case defines C17_SYM itself, once)' % obs['ident'])
        if [(r['id'], r['argv']) for r in recs] != [(n + '.setup', ['own-' + n]), (n + '.act', ['own-' + n])]:
            pr.append('records %r' % [(r['id'], r['argv']) for r in recs])
        for r in recs:
            if r['cwd'] != '<SDS>/act':
                pr.append('%s: cwd %r' % (r['id'], r['cwd']))
    return pr


def _collect_case(R, d, idx, ident, r_calls):
    out = os.path.join(d, 'k%d.jsonl' % idx)
    raw = probe.read_records(out)
    if os.path.exists(out):
        os.remove(out)
    n = 'k%d' % idx
    touts = {k: v for k, v in _timeouts_by_probe_id(r_calls).items() if k.split('.')[0] == n}
    return {'ident': ident, 'recs': _norm_records(raw, R.tmpdirs), 'timeouts': touts,
            'roots': sorted({_sds_root(r['cwd'], R.tmpdirs) or '?' for r in raw})}


def _class_of_indep(case):
    sets = sorted('%s@%s/%s' % (c['what'], PH_LETTER[c['phase']], c['ending']) for c in case['cases']
                  if c['role'] == 'set')
    obs = sorted(c['what'] for c in case['cases'] if c['role'] == 'obs')
    return ['indep', '+'.join(sets), '+'.join(obs), len(case['cases'])]


def _run_indep(case, ctx):
    ses = ctx.get_session()
    viol, inconc = [], []
    R = _Runner(ctx, ses, viol, inconc)
    specs = case['cases']
    n = len(specs)
    d = ses.new_case_dir({})
    texts = {}
    for i, spec in enumerate(specs):
        texts['k%d.case' % i] = _indep_case_text(spec, i, os.path.join(d, 'k%d.jsonl' % i))
    from vf import driver
    driver.write_files(d, texts)
    evaluations = 0
    sample = None
    nontrivial = False

    # -- every case alone (no suite) ------------------------------------------------------------------------
    alone = {}
    for i, spec in enumerate(specs):
        if hasattr(ses, '_mps'):
            ses._mps.clear()  # a fresh MainProgram object: nothing of an earlier run can reach the baseline
        r, ok = R.run([os.path.join(d, 'k%d.case' % i)], cwd=ses.scratch, is_suite=False)
        if not ok:
            continue
        ident = r.out[:-1] if r.out.endswith('\n') and r.out.count('\n') == 1 else '<stdout %r>' % r.out[:80]
        alone[i] = _collect_case(R, d, i, ident, r.calls)
        evaluations += 1
        if spec['role'] == 'obs':
            ctx.count('c17.observer_absolute_checks')
            ctx.count('c17.m2_timeouts_compared', sum(len(v) for v in alone[i]['timeouts'].values()))
            for p in _observer_absolute(spec, i, alone[i]):
                R.bad('observer %s run ALONE: %s' % (spec['what'], p), files=texts, observed=alone[i])
        if alone[i]['ident'] == 'INTERNAL_ERROR':
            R.bad('case k%d alone ends in INTERNAL_ERROR' % i, files=texts, observed=r.brief())
    # -- all orders -------------------------------------------------------------------------------------------------
    sl, nsl = case.get('slice', [0, 1])
    for pi, perm in enumerate(itertools.permutations(range(n))):
        if pi % nsl != sl:
            continue
        suite_text = '[cases]\n' + ''.join('k%d.case\n' % i for i in perm)
        with open(os.path.join(d, 'p.suite'), 'w') as f:
            f.write(suite_text)
        if pi % 2 == 0:
            r, ok = R.run(['suite', 'p.suite'], cwd=d, is_suite=True)
        else:
            r, ok = R.run(['suite', os.path.join(d, 'p.suite')], cwd=ses.scratch, is_suite=True)
        if not ok:
            continue
        idents, final = _suite_idents(r.out)
        order = ['k%d' % i for i in perm]
        if final not in _SUITE_FINAL or r.rc not in (0, 4):
            R.bad('suite run did not complete: rc=%r final line %r' % (r.rc, final), order=order, files=texts,
                  observed=r.brief())
            continue
        per = {}
        for i in perm:
            got = idents.get('k%d.case' % i, [])
            per[i] = _collect_case(R, d, i, got[0] if len(got) == 1 else '<reported %r>' % (got,), r.calls)
        # sandboxes: one per executed case, fresh (created inside this run), pairwise distinct
        created = {e[1] for e in r.audit if e[0] == 'tempfile.mkdtemp' and len(e) > 1}
        seen_roots = {}
        for i in perm:
            roots = per[i]['roots']
            ctx.count('c17.sandbox_distinct_checks')
            if len(roots) > 1 or '?' in roots:
                R.bad('probes of case k%d ran in directories of %d sandboxes / outside any: %r' % (i, len(roots), roots),
                      order=order, files=texts)
            for root in roots:
                if root in seen_roots:
                    R.bad('cases k%d and k%d of one run executed in the same sandbox %s' % (seen_roots[root], i, root),
                          order=order, files=texts)
                seen_roots[root] = i
                if root != '?' and root not in created:
                    R.bad('case k%d executed in a directory that was not created (mkdtemp) during this run: %s'
                          % (i, root), order=order, files=texts)
        for pos, i in enumerate(perm):
            spec = specs[i]
            evaluations += 1
            before = ['k%d' % j for j in perm[:pos]]
            if spec['role'] == 'obs':
                ctx.count('c17.observer_absolute_checks')
                for p in _observer_absolute(spec, i, per[i]):
                    R.bad('observer k%d (%s) after cases %s observes what it did not produce: %s'
                          % (i, spec['what'], before, p), order=order, files=texts, observed=per[i],
                          alone=alone.get(i))
            if i in alone:
                ctx.count('c17.order_invariance_checks')
                ctx.count('c17.m2_timeouts_compared', sum(len(v) for v in per[i]['timeouts'].values()))
                a = alone[i]
                if per[i]['ident'] != a['ident']:
                    R.bad('case k%d (%s): identifier %s after cases %s, but %s when run alone'
                          % (i, _spec_name(spec), per[i]['ident'], before, a['ident']), order=order, files=texts,
                          observed=per[i], alone=a)
                elif per[i]['recs'] != a['recs']:
                    R.bad('case k%d (%s): probe records after cases %s differ from the run alone: %s'
                          % (i, _spec_name(spec), before, _first_diff(a['recs'], per[i]['recs'])), order=order,
                          files=texts, observed=per[i], alone=a)
                elif per[i]['timeouts'] != a['timeouts']:
                    R.bad('case k%d (%s): timeouts handed to the OS after cases %s differ from the run alone: %r vs %r'
                          % (i, _spec_name(spec), before, per[i]['timeouts'], a['timeouts']), order=order, files=texts)
            if per[i]['recs'] or per[i]['ident'] == 'VALIDATION_ERROR':
                nontrivial = True
        if sample is None:
            sample = {'kind': 'indep', 'order': order, 'files': dict(texts, **{'p.suite': suite_text}),
                      'expected': 'every case as when run alone: ' + repr({'k%d' % i: alone[i]['ident']
                                                                           for i in alone}),
                      'observed': {'k%d' % i: {'ident': per[i]['ident'],
                                               'records': [(x['id'], x['cwd'], x['env']) for x in per[i]['recs']][:3],
                                               'timeouts': per[i]['timeouts']} for i in perm}}
    ses.clean_tmp()
    ses.drop(d)
    res = {'classes': [_class_of_indep(case)] if nontrivial else [], 'viol': viol, 'inconclusive': inconc,
           'evaluations': evaluations}
    if sample is not None and any(c['what'] == 'mix' for c in specs if c['role'] == 'set'):
        res['sample'] = sample
    return res


def _spec_name(spec):
    if spec['role'] == 'obs':
        return 'observer ' + spec['what']
    return 'setter %s in [%s] ending %s' % (spec['what'], spec['phase'], spec['ending'])


def _first_diff(exp, got):
    for k in range(max(len(exp), len(got))):
        e = exp[k] if k < len(exp) else None
        g = got[k] if k < len(got) else None
        if e != g:
            return 'record #%d expected %r observed %r' % (k, e, g)
    return 'none'


# ---------------------------------------------------------------------------------------------------------------
# (2) suite contents / three ways of running
# ---------------------------------------------------------------------------------------------------------------
def _rec_path():
    return '@[EXACTLY_HOME]@/rec.jsonl'


def _contents_probe(pid, rc, extra=''):
    return '%s %s %s%s' % (probe.PROBE, _rec_path(), probe.ctrl(id=pid, rc=1 if rc else None),
                           (' ' + extra) if extra else '')


def _suite_text(spec, prefix, cases_listing, suites_listing, pp_path, shuffle):
    """Sections of a suite file with contents as given by spec; ids of its probes are PREFIX.PHASE."""
    sections = []
    conf = []
    if spec['actor'] == 'source':
        conf.append('actor = source % sh')
    if spec['pre']:
        conf.append('preprocessor = /bin/sh ' + pp_path)
    if spec['status']:
        conf.append('status = ' + spec['status'])
    if conf:
        sections.append(('conf', conf))
    if cases_listing:
        sections.append(('cases', list(cases_listing)))
    if suites_listing:
        sections.append(('suites', list(suites_listing)))
    for p in PHASES:
        if p in spec['phases']:
            line = _contents_probe('%s.%s' % (prefix, p), spec.get('fail') == p)
            sections.append((p, [line if p == 'act' else '% ' + line]))
    if shuffle is not None:
        import random
        random.Random(shuffle).shuffle(sections)  # help suite spec: "The order of sections is irrelevant."
    L = []
    for name, lines in sections:
        L.append('[%s]' % name)
        L.extend(lines)
        L.append('')
    return '\n'.join(L) + '\n'


def _case_text(c):
    L = []
    conf = []
    if c['actor'] == 'source':
        conf.append('actor = source % sh')
    elif c['actor'] == 'command':
        conf.append('actor = command')
    if c['status']:
        conf.append('status = ' + c['status'])
    if conf:
        L.append('[conf]')
        L.extend(conf)
    for p in PHASES:
        if p in c['phases']:
            line = _contents_probe('%s.%s' % (c['name'], p), c.get('fail') == p, PP_TOKEN)
            L.append('[%s]' % p)
            L.append(line if p == 'act' else '% ' + line)
    return '\n'.join(L) + '\n'


def _pp_script(prefix, log):
    return ('echo "%s:$(basename "$1")" >> %s\n' % (prefix, log) +
            'sed "s/%s/pp-%s/g" "$1"\n' % (PP_TOKEN, prefix))


def model(suite, prefix, c):
    """Reference model (help suite spec, help suite SECTION, help conf status/actor, help PHASE):
    -> {'outcomes': [(identifier, [(probe id, argv)])]  acceptable outcomes, the first one is the principal one,
        'pp': [preprocessor log lines]}
    `suite` is the spec of the suite that lists the case DIRECTLY (None: no suite applies)."""
    if suite is None:
        suite = {'actor': None, 'pre': False, 'status': None, 'phases': [], 'fail': None}
    # [conf]: suite contents first, then the case's own: the later setting wins
    status = c['status'] or suite['status'] or 'PASS'
    # (an actor given on the command line is the default actor of the run: what suite and case configure comes later)
    actor = c['actor'] or suite['actor'] or ('source' if c.get('_cli_actor') else 'default')
    tok = ('pp-' + prefix) if suite['pre'] else PP_TOKEN
    pp = ['%s:%s.case' % (prefix, c['name'])] if suite['pre'] else []

    def of_phase(p):
        s = [(prefix + '.' + p, [], suite.get('fail') == p)] if p in suite['phases'] else []
        own = [(c['name'] + '.' + p, [tok], c.get('fail') == p)] if p in c['phases'] else []
        return own + s if p == 'cleanup' else s + own

    act = of_phase('act')
    # command line actor (default or explicit): "A single PROGRAM element"
    invalid_act = actor in ('default', 'command') and len(act) == 2
    # manual open: `help act` says an empty [act] means the null actor, `help actor command line` demands a PROGRAM;
    # for an EXPLICITLY configured actor both readings are accepted (see ASSUMPTIONS)
    open_empty_act = actor in ('command', 'source') and len(act) == 0
    if status == 'SKIP':
        outcomes = [('SKIPPED', [])]
        if invalid_act or open_empty_act:
            outcomes.append(('SYNTAX_ERROR', []))
        return {'outcomes': outcomes, 'pp': pp}
    if invalid_act:
        return {'outcomes': [('SYNTAX_ERROR', [])], 'pp': pp}
    seq = []
    halted = None
    for p in ('setup', 'act', 'before-assert', 'assert'):
        for pid, argv, fails in of_phase(p):
            seq.append((pid, argv))
            if fails:
                halted = p
                break
        if halted and halted != 'assert':
            break
    for pid, argv, _ in of_phase('cleanup'):
        seq.append((pid, argv))
    if halted in ('setup', 'before-assert'):
        ident = 'HARD_ERROR'
    elif halted == 'assert':
        ident = 'XFAIL' if status == 'FAIL' else 'FAIL'
    else:
        ident = 'XPASS' if status == 'FAIL' else 'PASS'
    outcomes = [(ident, seq)]
    if open_empty_act:
        outcomes.append(('SYNTAX_ERROR', []))
    return {'outcomes': outcomes, 'pp': pp}


def _letters(spec, with_pre=True):
    s = ''
    if spec is None:
        return '-'
    if spec.get('actor'):
        s += {'source': 'S', 'command': 'C'}[spec['actor']]
    if with_pre and spec.get('pre'):
        s += 'P'
    if spec.get('status'):
        s += 'T' + spec['status'][0].lower()
    s += ':' + ''.join(PH_LETTER[p] for p in PHASES if p in spec['phases'])
    if spec.get('fail'):
        s += '!' + PH_LETTER[spec['fail']]
    return s


def _run_contents(case, ctx):
    from vf import driver
    ses = ctx.get_session()
    viol, inconc = [], []
    R = _Runner(ctx, ses, viol, inconc)
    d = ses.new_case_dir({})
    pp_log = os.path.join(d, 'pp.log')
    root, sub, decoy = case['root'], case.get('sub'), case.get('decoy')
    shuffle = case.get('shuffle')
    # (suite prefix, suite spec, suite file rel. path, case spec, case dir rel. path)
    entries = []
    for k, c in enumerate(case['direct']):
        entries.append(('R', root, 'root.suite', c, 'c%d' % k))
    for k, c in enumerate(case.get('subcases') or []):
        entries.append(('U', sub, 'sub/sub.suite', c, 'sub/cs%d' % k))
    files = {'pp_R.sh': _pp_script('R', pp_log), 'pp_U.sh': _pp_script('U', pp_log),
             'pp_D.sh': _pp_script('D', pp_log)}
    files['root.suite'] = _suite_text(root, 'R', ['c%d/%s.case' % (k, c['name']) for k, c in enumerate(case['direct'])],
                                      ['sub/sub.suite'] if sub is not None else [], os.path.join(d, 'pp_R.sh'),
                                      shuffle)
    if sub is not None:
        files['sub/sub.suite'] = _suite_text(sub, 'U', ['cs%d/%s.case' % (k, c['name'])
                                                        for k, c in enumerate(case['subcases'])], [],
                                             os.path.join(d, 'pp_U.sh'), None if shuffle is None else shuffle + 1)
    linked = bool(case.get('linked'))
    links = {}
    for prefix, sspec, sfile, c, cdir in entries:
        if linked:
            # the case as named (listed in the suite / given on the command line) is a symbolic link; the file it
            # points to lies in a directory of its own, without any suite file
            store = 'store/' + cdir.replace('/', '_')
            files['%s/%s.case' % (store, c['name'])] = _case_text(c)
            links['%s/%s.case' % (cdir, c['name'])] = os.path.join(d, store, c['name'] + '.case')
        else:
            files['%s/%s.case' % (cdir, c['name'])] = _case_text(c)
        if decoy is not None:
            files[cdir + '/exactly.suite'] = _suite_text(decoy, 'D', [c['name'] + '.case'], [],
                                                         os.path.join(d, 'pp_D.sh'), shuffle)
    driver.write_files(d, files)
    for lp, target in links.items():
        os.makedirs(os.path.dirname(os.path.join(d, lp)), exist_ok=True)
        os.symlink(target, os.path.join(d, lp))
        files[lp + ' (symbolic link)'] = '-> ' + target
        ctx.count('c17.linked_case_files')
    rel = case.get('rel', True)
    cli_actor = bool(case.get('cli_actor'))
    AOPT = ['--actor', '/bin/sh'] if cli_actor else []
    if cli_actor:
        ctx.count('c17.cli_actor_trees')
    evaluations = 0
    classes = []
    sample = None

    def take(cdir):
        # the probes record beside the case (EXACTLY_HOME); for a linked case the manual leaves open whether that is the
        # directory of the link or of its target: both places are read (what is demanded is that the three ways agree)
        raw = []
        for dd in [cdir] + (['store/' + cdir.replace('/', '_')] if linked else []):
            p = os.path.join(d, dd, 'rec.jsonl')
            raw += probe.read_records(p)
            if os.path.exists(p):
                os.remove(p)
        return raw

    def take_pp():
        if not os.path.exists(pp_log):
            return []
        with open(pp_log) as f:
            lines = [l.rstrip('\n') for l in f]
        os.remove(pp_log)
        return lines

    def judge(way, prefix, sspec, c, cdir, ident, raw, pp_lines, position):
        """compare one (case, way of running) with the model"""
        exp = model(sspec, prefix, dict(c, _cli_actor=True) if cli_actor else c)
        got_seq = [(r['id'], list(r['argv'])) for r in raw]
        ctx.count('c17.model_sequence_checks')
        if position == 'sub':
            ctx.count('c17.subsuite_case_checks')
        p_ident, p_seq = exp['outcomes'][0]
        wit = {'way': way, 'files': files, 'case_file': '%s/%s.case' % (cdir, c['name']),
               'expected': {'outcomes': exp['outcomes'], 'pp': exp['pp']},
               'observed': {'ident': ident, 'seq': got_seq, 'pp': pp_lines}}
        name = '%s [%s: suite %s, case %s]' % (c['name'], way, _letters(sspec), _letters(c, False))
        if not any(ident == oi and got_seq == [(a, list(b)) for a, b in os_] for oi, os_ in exp['outcomes']):
            if ident not in [o[0] for o in exp['outcomes']]:
                R.bad('%s: identifier %s, the manual gives %s' % (name, ident,
                                                                  '/'.join(o[0] for o in exp['outcomes'])), **wit)
            else:
                R.bad('%s: probe sequence differs from "suite contents first, in cleanup last, direct cases only": '
                      'expected %s observed %s' % (name, [x[0] + ''.join(' ' + a for a in x[1]) for x in p_seq],
                                                  [x[0] + ''.join(' ' + a for a in x[1]) for x in got_seq]), **wit)
        ctx.count('c17.preprocessor_log_checks')
        if pp_lines != exp['pp']:
            R.bad('%s: preprocessor invocations %r, expected %r (only the preprocessor of the suite that lists the '
                  'case)' % (name, pp_lines, exp['pp']), **wit)
        roots = {_sds_root(r['cwd'], R.tmpdirs) for r in raw}
        if len(roots) > 1 or None in roots:
            R.bad('%s: probes ran in %d sandboxes / outside: %r' % (name, len(roots), sorted(map(str, roots))), **wit)
        for r in raw:
            if _norm_path(r['cwd'], R.tmpdirs) != '<SDS>/act':
                R.bad('%s: probe %s has cwd %r, expected act/ of the sandbox' % (name, r['id'], r['cwd']), **wit)
        return exp, got_seq

    # ---- (a) inside the suite run ---------------------------------------------------------------------------------
    per_way = {}  # (cdir) -> {way: (ident, normalised records)}
    r, ok = R.run(['suite'] + AOPT + (['root.suite'] if rel else [os.path.join(d, 'root.suite')]),
                  cwd=d if rel else ses.scratch, is_suite=True)
    if ok:
        idents, final = _suite_idents(r.out)
        if final not in ('OK', 'ERROR') or r.rc not in (0, 4):
            R.bad('suite run did not complete: rc=%r final line %r' % (r.rc, final), files=files, observed=r.brief())
        else:
            pp_all = take_pp()
            seen_roots = {}
            for prefix, sspec, sfile, c, cdir in entries:
                got = idents.get(c['name'] + '.case', [])
                ident = got[0] if len(got) == 1 else '<reported %r>' % (got,)
                raw = take(cdir)
                pp_mine = [l for l in pp_all if l.endswith(':%s.case' % c['name'])]
                judge('in-suite', prefix, sspec, c, cdir, ident, raw, pp_mine, 'direct' if prefix == 'R' else 'sub')
                evaluations += 1
                per_way.setdefault(cdir, {})['in-suite'] = (ident, _norm_records(raw, R.tmpdirs))
                ctx.count('c17.sandbox_distinct_checks')
                for root_dir in {_sds_root(x['cwd'], R.tmpdirs) for x in raw}:
                    if root_dir in seen_roots:
                        R.bad('cases %s and %s of one suite run executed in the same sandbox' % (seen_roots[root_dir],
                                                                                                c['name']), files=files)
                    seen_roots[root_dir] = c['name']
            unknown = [l for l in pp_all if not any(l.endswith(':%s.case' % e[3]['name']) for e in entries)]
            if unknown:
                R.bad('preprocessor invoked for unexpected files: %r' % unknown, files=files)
    # ---- (b) --suite, against the decoy beside the case;  (d) plain beside the decoy ----------------------------------
    for prefix, sspec, sfile, c, cdir in entries:
        cfile = '%s/%s.case' % (cdir, c['name'])
        if rel:
            argv, cwd = AOPT + ['--suite', sfile, cfile], d
        else:
            argv, cwd = AOPT + ['--suite', os.path.join(d, sfile), os.path.join(d, cfile)], ses.scratch
        r, ok = R.run(argv, cwd=cwd, is_suite=False)
        if ok:
            ident = r.out[:-1] if r.out.endswith('\n') and r.out.count('\n') == 1 else '<stdout %r>' % r.out[:80]
            raw = take(cdir)
            judge('--suite' + ('/decoy' if decoy is not None else ''), prefix, sspec, c, cdir, ident, raw, take_pp(),
                  'direct' if prefix == 'R' else 'sub')
            evaluations += 1
            if decoy is not None:
                ctx.count('c17.decoy_override_checks')
            per_way.setdefault(cdir, {})['--suite'] = (ident, _norm_records(raw, R.tmpdirs))
        if decoy is not None:
            r, ok = R.run(AOPT + ([c['name'] + '.case'] if rel else [os.path.join(d, cfile)]),
                          cwd=os.path.join(d, cdir) if rel else ses.scratch, is_suite=False)
            if ok:
                ident = r.out[:-1] if r.out.endswith('\n') and r.out.count('\n') == 1 else '<stdout %r>' % r.out[:80]
                raw = take(cdir)
                judge('beside-decoy', 'D', decoy, c, cdir, ident, raw, take_pp(), 'direct' if prefix == 'R' else 'sub')
                evaluations += 1
    # ---- (c) beside exactly.suite with the suite's contents --------------------------------------------------------
    for prefix, sspec, sfile, c, cdir in entries:
        cfile = '%s/%s.case' % (cdir, c['name'])
        beside = _suite_text(sspec, prefix, [c['name'] + '.case'], [], os.path.join(d, 'pp_%s.sh' % prefix), shuffle)
        with open(os.path.join(d, cdir, 'exactly.suite'), 'w') as f:
            f.write(beside)
        files = dict(files)
        files[cdir + '/exactly.suite (for way beside)'] = beside
        r, ok = R.run(AOPT + ([c['name'] + '.case'] if rel else [os.path.join(d, cfile)]),
                      cwd=os.path.join(d, cdir) if rel else ses.scratch, is_suite=False)
        if ok:
            ident = r.out[:-1] if r.out.endswith('\n') and r.out.count('\n') == 1 else '<stdout %r>' % r.out[:80]
            raw = take(cdir)
            exp, got_seq = judge('beside', prefix, sspec, c, cdir, ident, raw, take_pp(),
                                 'direct' if prefix == 'R' else 'sub')
            evaluations += 1
            per_way.setdefault(cdir, {})['beside'] = (ident, _norm_records(raw, R.tmpdirs))
            classes.append(['contents', 'suite ' + _letters(sspec), 'case ' + _letters(c, False),
                            'direct' if prefix == 'R' else 'sub(parent %s)' % _letters(root), ident])
            if sample is None and len(got_seq) >= 6 and prefix == 'R':
                sample = {'kind': 'contents', 'suite_file': files['root.suite'], 'case_file': _case_text(c),
                          'expected': {'ident': exp['outcomes'][0][0],
                                       'probe_sequence': [x[0] for x in exp['outcomes'][0][1]]},
                          'observed': {w: {'ident': v[0], 'probe_sequence': [x['id'] for x in v[1]]}
                                       for w, v in per_way[cdir].items()}}
    # ---- three-way agreement ----------------------------------------------------------------------------------------
    for prefix, sspec, sfile, c, cdir in entries:
        ways = per_way.get(cdir, {})
        if len(ways) < 2:
            continue
        ctx.count('c17.threeway_checks')
        names = sorted(ways)
        ref = ways[names[0]]
        for w in names[1:]:
            if ways[w][0] != ref[0]:
                R.bad('case %s: identifier %s when run %s but %s when run %s' % (c['name'], ref[0], names[0], ways[w][0],
                                                                              w), files=files,
                      case_file='%s/%s.case' % (cdir, c['name']))
            elif ways[w][1] != ref[1]:
                R.bad('case %s: probe records differ between %s and %s: %s' % (c['name'], names[0], w,
                                                                             _first_diff(ref[1], ways[w][1])),
                      files=files, case_file='%s/%s.case' % (cdir, c['name']))
    ses.clean_tmp()
    ses.drop(d)
    res = {'classes': classes, 'viol': viol, 'inconclusive': inconc, 'evaluations': evaluations}
    if sample is not None:
        res['sample'] = sample
    return res


# ---------------------------------------------------------------------------------------------------------------
# (3) shared suite contents: one instruction object, parsed once from the suite file, serves every case
# ---------------------------------------------------------------------------------------------------------------
# A suite-level instruction whose arguments refer to symbols that every case defines differently (in [setup], which
# precedes the suite's contents of the later phases).  Every case is built so that it PASSes exactly when the suite's
# instruction is evaluated with THIS case's values; a value kept from an earlier case of the same process shows as a
# non-PASS in the suite run while the case PASSes alone.
_LETTER = 'abc'


def _shared_case_defs(k):
    """[setup] of case k (k = 0, 1, 2): symbols + fixture.  The action prints k+1 lines and exits with k+1."""
    n = k + 1
    L = _LETTER[k]
    return [
        'def string N = %d' % n,
        'def string NEG = -%d' % n,
        'def string L = %s' % L,
        'def string LNL = <<EOF\n%s\nEOF' % L,
        'def string RGX = ^%s$' % L,
        'def string GLOB = f%d*' % n,
        'def string FNAME = f%d.txt' % n,
        'def list ARGS = x%d y%d' % (n, n),
        'def path P = -rel-act f%d.txt' % n,
        'def path D = -rel-act d%d' % n,
        'def text-matcher TM = num-lines == %d' % n,
        'def integer-matcher IM = == %d' % n,
        'def line-matcher LM = line-num == %d' % n,
        'def file-matcher FM = name f%d.txt' % n,
        'def files-matcher FSM = num-files == %d' % n,
        'def text-transformer TT = replace %s X%d' % (L, n),
        'def program PGM = % test -f f{0}.txt'.format(n),
        'def text-source TS = <<EOF\n%s\nEOF' % L,
        'file f%d.txt = <<EOF\n%s\nEOF' % (n, L),
        'dir d%d = {\n%s\n}' % (n, '\n'.join('  file e%d.txt' % i for i in range(n))),
    ]


# name -> (phase of the suite, suite instruction(s), [(phase, case's own instruction)] observing a setting, needs_act)
_SHARED = {
    'int-expr': ('assert', 'exit-code == @[N]@', []),
    'int-expr-arith': ('assert', 'exit-code == @[N]@*2-@[N]@', []),
    'int-matcher-sym': ('assert', 'exit-code @[IM]@', []),
    'num-lines': ('assert', 'stdout num-lines == @[N]@', []),
    'text-matcher-sym': ('assert', 'stdout @[TM]@', []),
    'line-nums-1': ('assert', 'stdout -transformed-by ( filter -line-nums @[N]@\n ) equals @[LNL]@', []),
    'line-nums-neg': ('assert', 'stdout -transformed-by ( filter -line-nums @[NEG]@\n ) equals <<EOF\na\nEOF', []),
    'line-nums-range': ('assert', 'stdout -transformed-by ( filter -line-nums @[N]@:@[N]@\n ) equals @[LNL]@', []),
    'line-nums-multi': ('assert', 'stdout -transformed-by ( filter -line-nums @[N]@ @[N]@:\n ) '
                                  '-transformed-by ( filter -line-nums 1\n ) equals @[LNL]@', []),
    'line-num-matcher': ('assert', 'stdout any line : ( line-num == @[N]@ && contents equals @[L]@ )', []),
    'line-matcher-sym': ('assert', 'stdout -transformed-by filter @[LM]@ equals @[LNL]@', []),
    'regex-sym': ('assert', 'stdout -transformed-by grep @[RGX]@ equals @[LNL]@', []),
    'regex-full': ('assert', 'stdout -transformed-by filter contents matches -full @[L]@ equals @[LNL]@', []),
    'replace': ('assert', 'contents @[FNAME]@ : -transformed-by replace @[L]@ Z equals <<EOF\nZ\nEOF', []),
    'transformer-sym': ('assert', 'contents f@[N]@.txt : -transformed-by @[TT]@ equals <<EOF\nX@[N]@\nEOF', []),
    'path-sym': ('assert', 'contents @[P]@ : equals @[LNL]@', []),
    'path-suffix': ('assert', 'exists -rel-act @[FNAME]@ : type file', []),
    'path-sym-rel': ('assert', 'exists -rel D e0.txt', []),
    'glob': ('assert', 'dir-contents . : -selection name @[GLOB]@ num-files == 1', []),
    'file-matcher-sym': ('assert', 'dir-contents . : -selection @[FM]@ num-files == 1', []),
    'files-matcher-sym': ('assert', 'dir-contents @[D]@ : @[FSM]@', []),
    'dir-num-files': ('assert', 'dir-contents d@[N]@ : num-files == @[N]@', []),
    'program-sym': ('assert', 'run @ PGM', []),
    'program-args': ('assert', 'run % test -f @[FNAME]@', []),
    'program-list': ('assert', 'run % sh -c \'test "$1" = "$3"\' sh @[ARGS]@ x@[N]@', []),
    'shell': ('assert', 'run $ test -f @[FNAME]@', []),
    'text-source-sym': ('assert', 'contents @[P]@ : equals @[TS]@', []),
    'stdout-from': ('assert', 'contents @[P]@ : equals -stdout-from % cat f@[N]@.txt', []),
    'here-doc': ('assert', 'contents @[P]@ : equals <<EOF\n@[L]@\nEOF', []),
    'file-ba': ('before-assert', 'file out.txt = @[LNL]@', [('assert', 'contents out.txt : equals @[LNL]@')]),
    'file-from-path': ('before-assert', 'file out2.txt = -contents-of @[P]@', [('assert', 'contents out2.txt : equals @[LNL]@')]),
    'copy': ('before-assert', 'copy @[P]@ copied.txt', [('assert', 'contents copied.txt : equals @[LNL]@')]),
    'cd': ('before-assert', 'cd @[D]@', [('assert', 'dir-contents . : num-files == @[N]@')]),
    'env': ('before-assert', 'env C17_SH = @[L]@', [('assert', "run % sh -c 'test \"$C17_SH\" = \"$1\"' sh @[L]@")]),
    'def-in-suite': ('before-assert', 'def string S2 = @[L]@@[N]@', [('assert', "run % test @[S2]@ '=' @[L]@@[N]@")]),
    'def-path-in-suite': ('before-assert', 'def path P2 = -rel D e0.txt', [('assert', 'exists @[P2]@')]),
    'timeout': ('before-assert', 'timeout = @[N]@+100', []),  # observed through M2
    # compositions (one composed object per suite instruction): sequences, && / ||, ! - with symbol-dependent operands
    'seq-sym': ('assert', 'contents @[FNAME]@ : -transformed-by ( replace @[L]@ Q | char-case -to-lower ) '
                          'equals <<EOF\nq\nEOF', []),
    'seq-tt': ('assert', 'contents f@[N]@.txt : -transformed-by ( @[TT]@ | char-case -to-lower | identity ) '
                         'equals <<EOF\nx@[N]@\nEOF', []),
    'seq-3': ('assert', 'contents @[FNAME]@ : -transformed-by ( identity | replace @[L]@ @[N]@ | replace @[N]@ <@[N]@> ) '
                        'equals <<EOF\n<@[N]@>\nEOF', []),
    'matcher-and': ('assert', 'stdout ( @[TM]@ && num-lines == @[N]@ && ! num-lines == @[N]@0 )', []),
    'matcher-or': ('assert', 'stdout ( num-lines == @[N]@0 || num-lines == @[N]@ )', []),
    'line-matcher-and': ('assert', 'stdout -transformed-by filter ( @[LM]@ && contents matches @[RGX]@ ) equals @[LNL]@', []),
    'file-matcher-and': ('assert', 'dir-contents . : -selection ( @[FM]@ && type file ) num-files == 1', []),
    'int-matcher-and': ('assert', 'exit-code ( @[IM]@ && >= @[N]@ && ! > @[N]@ )', []),
    'cleanup-run': ('cleanup', 'run % test -f @[P]@', []),
    'cleanup-int': ('cleanup', 'run % test @[N]@ -eq @[N]@', []),
}


# symbols whose value one case may define so that the suite's instruction is INVALID in that case only:
# symbol -> (definition, names of the suite instructions that use the symbol where the value is ill-formed)
_INVALIDATORS = {
    'N': ('def string N = 1+', ['int-expr', 'int-expr-arith', 'num-lines', 'line-nums-1', 'line-nums-range',
                                'line-nums-multi', 'line-num-matcher', 'matcher-and', 'matcher-or', 'int-matcher-and']),
    'NEG': ('def string NEG = 1//0', ['line-nums-neg']),
    'RGX': ("def string RGX = '('", ['regex-sym', 'line-matcher-and']),
    'L': ("def string L = '['", ['regex-full', 'replace', 'seq-sym']),
}


def _shared_files(names, invalid=None):
    by_phase = {}
    for nm in names:
        ph, instr, _ = _SHARED[nm]
        by_phase.setdefault(ph, []).append(instr)
    suite = '[cases]\n<CASES>\n'
    for ph in ('before-assert', 'assert', 'cleanup'):
        if ph in by_phase:
            suite += '[%s]\n%s\n' % (ph, '\n'.join(by_phase[ph]))
    case_texts = []
    for k in range(3):
        own = {}
        for nm in names:
            for ph, instr in _SHARED[nm][2]:
                own.setdefault(ph, []).append(instr)
        defs = _shared_case_defs(k)
        if invalid is not None and invalid['k'] in (k, 'all'):
            bad_def = _INVALIDATORS[invalid['sym']][0]
            head = bad_def.split('=')[0]
            defs = [bad_def if dd.startswith(head + '=') else dd for dd in defs]
            assert bad_def in defs
        t = '[setup]\n' + '\n'.join(defs) + '\n'
        t += '[act]\n$ printf \'%s\'; exit %d\n' % (''.join(c + '\\n' for c in _LETTER[:k + 1]), k + 1)
        if 'timeout' in names:
            own.setdefault('assert', []).append('run % true c17-timeout-observer')
        for ph in ('before-assert', 'assert', 'cleanup'):
            if ph in own:
                t += '[%s]\n%s\n' % (ph, '\n'.join(own[ph]))
        case_texts.append(t)
    return suite, case_texts


def _run_shared(case, ctx):
    from vf import driver
    ses = ctx.get_session()
    viol, inconc = [], []
    R = _Runner(ctx, ses, viol, inconc)
    names = case['names']
    invalid = case.get('invalid')
    suite, case_texts = _shared_files(names, invalid)
    order = case['order']

    def want(k):
        # a case that gives a symbol a value that is ill-formed where the suite's instruction uses it: that case - and
        # only that case - is rejected before execution, wherever it comes in the run
        return 'VALIDATION_ERROR' if invalid is not None and invalid['k'] in (k, 'all') else 'PASS'

    files = {'k%d.case' % k: t for k, t in enumerate(case_texts)}
    files['s.suite'] = suite.replace('<CASES>', '\n'.join('k%d.case' % k for k in order))
    d = ses.new_case_dir({})
    driver.write_files(d, files)
    evaluations = 0
    classes = []
    wit = {'files': files, 'suite_contents': names, 'listing_order': order}

    def timeout_seen(calls):
        return [c.get('timeout') for c in calls
                if isinstance(c.get('args'), list) and 'c17-timeout-observer' in c.get('args')]

    alone = {}
    for k in range(3):
        r, ok = R.run(['--suite', 's.suite', 'k%d.case' % k], d, False)
        if not ok:
            continue
        ident = driver.first_line(r.out)
        alone[k] = ident
        ctx.count('c17.shared_standalone_checks')
        evaluations += 1
        if invalid is not None:
            ctx.count('c17.shared_invalid_value_checks')
        if ident != want(k):
            # the absolute oracle: the case is consistent with its own definitions
            R.bad('shared[%s] k%d alone with --suite: %s, but every argument of the suite\'s instructions denotes '
                  'this case\'s own values (must be %s)' % ('+'.join(names), k, ident, want(k)),
                  observed=r.brief(), **wit)
        if 'timeout' in names:
            ts = timeout_seen(r.calls)
            if ts != [k + 101]:
                R.bad('shared[timeout] k%d alone: observer started with timeout %r, the suite sets %d' % (k, ts, k + 101),
                      **wit)
        ses.clean_tmp()
    r, ok = R.run(['suite', 's.suite'], d, True)
    if ok:
        by_name, final = _suite_idents(r.out)
        for pos, k in enumerate(order):
            got = by_name.get('k%d.case' % k)
            ctx.count('c17.shared_in_suite_checks')
            evaluations += 1
            classes.append(('shared', '+'.join(names) if len(names) == 1 else 'combo%d' % len(names), 'pos%d' % pos,
                            (got or ['-'])[0]))
            if got != [want(k)]:
                R.bad('shared[%s] k%d at position %d of the suite run: %r; alone with the same suite: %s (the suite\'s '
                      'instruction must be evaluated with the symbols of the case it runs in)'
                      % ('+'.join(names), k, pos, got, alone.get(k)), observed=r.brief(), **wit)
        if 'timeout' in names:
            ts = timeout_seen(r.calls)
            exp = [k + 101 for k in order]
            if ts != exp:
                R.bad('shared[timeout] suite run: observers started with timeouts %r, expected %r' % (ts, exp), **wit)
    ses.clean_tmp()
    ses.drop(d)
    return {'classes': classes, 'viol': viol, 'inconclusive': inconc, 'evaluations': evaluations}


# ---------------------------------------------------------------------------------------------------------------
def run_case(case, ctx):
    if case['kind'] == 'shared':
        return _run_shared(case, ctx)
    if case['kind'] == 'indep':
        return _run_indep(case, ctx)
    if case['kind'] == 'contents':
        return _run_contents(case, ctx)
    raise ValueError(case['kind'])
