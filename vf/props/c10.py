"""C10 Processes get the denoted argv/stdin/cwd; their outcome is captured (D1, M2, M7).

Every case is a complete test case generated as an AST (vf/models/program.py), rendered to source text, run
through the real CLI, and compared with the meaning the reference model (written from the manual) gives it:
  * the records the probe children wrote (argv, stdin bytes, cwd) == the processes the model says must start,
  * the M2 records of subprocess.call (args list / one shell string + shell flag, cwd) == the same,
  * the number of subprocess.Popen audit events == the number of expected processes (null actor: none),
  * outcome identifier + exit code == PASS / FAIL / HARD_ERROR predicted by the model,
  * with --keep: result/exit-code, result/stdout, result/stderr, files written from program output, and the
    file the source-interpreter actor stored [act] in.
"""
import os

from vf import common, probe
from vf.models import program as P

ID = 'C10'
LEVEL = 'exploration'
RULE = ('cases = generated test cases (deterministic core: every exit code 0..255 x 5 places; program-symbol chains '
        'depth 0..3 x 5 program kinds x 13 contexts; 13 actor forms x 7 stdin kinds; argument vocabulary; stdin source '
        'kinds) + seeded random compositions. One evaluation = one started (or, for the null actor / skipped '
        'instructions, provably not started) OS process whose probe record and subprocess.call record were compared '
        'with the denotation. Class key = (place of use, program kind, chain depth, #stdin parts, #transformations, '
        'argument-count bucket) per process and (family, actor, outcome, failing phase) per case; non-trivial = the '
        'oracle had to compute an argv/stdin/outcome for it.')
ASSUMPTIONS = [
    'a program for which no stdin is defined reads an empty stdin (the manual is silent; observed as /dev/null)',
    'a shell command line is compared modulo surrounding blanks; symbol references in it are substituted textually',
    'arguments appended to a $-program symbol are plain words; they must follow the command line separated by blanks',
    '-python denotes the interpreter that runs Exactly (sys.executable)',
    'left out: program transformations inside matcher contexts are "ignored" per manual and not observable; '
    'PATH-ARGUMENT-POSITION of the file matcher; non-zero exit of `stdout|stderr -from PROGRAM` (manual silent); '
    'text-source symbols referenced more than once (number of executions unspecified); symbol references inside '
    'source-interpreter source; path arguments containing "." or ".." (normalisation unspecified); naked "#" and '
    'tokens mixing quoting styles (C09 findings S7/S8)',
    'here-documents written inside [act] of the command line actor get no empty lines / #-lines ([act] "allows any '
    'number of empty lines and comment lines"; observed: such lines are dropped from the here-document too); the file '
    'interpreter actor gets a single line; a shell program used as file matcher has no trailing shell text (the path '
    'is appended to the command line)',
    'transformations of a PROGRAM used by an instruction that does not consume output (run, %, $) contain no `run` '
    'transformer (whether it is executed is unspecified)',
    'evaluation order of sub-programs inside one instruction is not specified: records are compared as multisets; '
    'order is checked only between instruction-level programs and the action',
]
EXHAUSTIVE_NOTE = ('exit codes 0..255 are enumerated completely for: the action (true and false exit-code assertion, '
                   'and pass-through under --act), '
                   'run/%/$ in all four phases, and the six sub-program contexts, in both tiers')
MIN_OBS = {
    'quick': {'evaluations': 4000, 'classes': 150, 'c10.probe_records_compared': 3500, 'c10.m2_records_compared': 3500,
              'c10.outcomes_compared': 2500, 'c10.act_exit_codes_distinct_summed': 256,
              'c10.result_files_compared': 300, 'c10.null_actor_no_process': 10,
              'c10.act_mode_passthrough_compared': 256, 'c10.shell_strings_compared': 200,
              'c10.chain_depth_ge2': 150, 'c10.nonzero_outcomes_checked': 400, 'c10.source_files_compared': 30,
              'c10.act_stdin_with_program_stdin': 40, 'c10.transformation_chains_ge2': 30},
    'thorough': {'evaluations': 30000, 'classes': 300, 'c10.probe_records_compared': 25000,
                 'c10.m2_records_compared': 25000, 'c10.outcomes_compared': 15000,
                 'c10.act_exit_codes_distinct_summed': 256,
                 'c10.result_files_compared': 2000, 'c10.null_actor_no_process': 100,
                 'c10.act_mode_passthrough_compared': 256,
                 'c10.shell_strings_compared': 1500, 'c10.chain_depth_ge2': 1500,
                 'c10.nonzero_outcomes_checked': 2500, 'c10.source_files_compared': 200,
                 'c10.act_stdin_with_program_stdin': 300, 'c10.transformation_chains_ge2': 300},
}

OUTCOME_CODES = {'PASS': 0, 'FAIL': 32, 'HARD_ERROR': 128}  # from `help case spec` / README, hard-coded

HOME_TEXTS = {'src.txt': 'source file\nsecond line\n', 'in.txt': 'from a file\nLine Two\n'}
PYPROBE = os.path.join(os.path.dirname(os.path.abspath(probe.__file__)), 'probe_fallback.py')

PHASES = ('setup', 'before-assert', 'assert', 'cleanup')
BASE_KINDS = ('abs', 'home', 'sys', 'py', 'sh')
ALL_BASE_KINDS = ('abs', 'home', 'relhome', 'relacthome', 'pathsym', 'act', 'tmp', 'sys', 'sysabs', 'syssym', 'py',
                  'sh')
CONTEXTS = ('act', 'run', 'file-src', 'stdin-src', 'pgm-stdin-src', 'equals-src', 'tr-run-stdin', 'tr-run-assert',
            'm-run', 'fm-run', 'stdout-from', 'stderr-from', 'exit-code-from')
ACTORS = ('cmd-abs', 'cmd-home', 'cmd-sh', 'cmd-ref', 'file-exe', 'file-sys', 'file-py', 'source-exe', 'source-sys',
          'source-py', 'source-cli', 'null', 'null-empty')
STDIN_KINDS = ('absent', 'literal', 'here', 'file', 'program', 'transformed', 'symbol')
# places where the manual says what becomes of the program's (transformed) output
OUTPUT_CONSUMED = ('act', 'file-src', 'stdin-src', 'pgm-stdin-src', 'equals-src', 'tr-run-stdin', 'tr-run-assert',
                   'tr-run-file', 'stdout-from', 'stderr-from')
OUT_TEXTS = ['', 'out', 'line1\nline2\n', 'no final newline', 'ünï 日本\n', 'a b  c\n',
             'MiXeD q0 aAbB\n', '\n', ' lead and trail \n']


# what a program run as an INSTRUCTION writes on stderr (Exactly reads it for its error message when the exit code is
# not 0); lone surrogates stand for bytes that are not valid UTF-8 (surrogateescape)
INSTR_ERR_TEXTS = ['', 'plain err\n', '\udcff\udcfe not utf-8\n', 'ünï 日本\n', 'cut \udcc3', 'x' * 5000 + '\n',
                   '\udc80\udc81' * 300, 'l1\nl2\nl3\n' * 40]


# =====================================================================================================
# cases: light descriptors; the AST is built deterministically from the descriptor in the worker
# =====================================================================================================
def cases(tier, seed):
    for rc in range(256):
        for v in range(5):
            yield {'fam': 'rc', 'rc': rc, 'v': v}
    n = 0
    for base in BASE_KINDS:
        for depth in range(4):
            for ctx in CONTEXTS:
                for v in range(2):
                    n += 1
                    yield {'fam': 'chain', 'base': base, 'depth': depth, 'ctx': ctx, 'v': v, 'n': n}
    for a in ACTORS:
        for s in STDIN_KINDS:
            yield {'fam': 'actor', 'actor': a, 'stdin': s}
    for i in range(N_ARG_CASES):
        yield {'fam': 'args', 'i': i}
    for kind in ALL_BASE_KINDS:
        for ph in PHASES + ('act',):
            yield {'fam': 'kinds', 'base': kind, 'phase': ph}
    # here-documents in the [act] phase (stdin of the action, last argument of the action): the body is one exact string,
    # also where its lines are empty or begin with `#`
    for body_kind in ('plain', 'blank', 'hash', 'indented-hash', 'blank-and-hash', 'only-blank'):
        for use in ('stdin', 'arg'):
            for actor in ('default', 'command'):
                yield {'fam': 'act-heredoc', 'body': body_kind, 'use': use, 'actor': actor}
    # a program run as an instruction that is TERMINATED BY A SIGNAL: there is no exit code 0 - it is a failure like any
    # other (FAIL in [assert], HARD_ERROR elsewhere) unless -ignore-exit-code is given
    for sig in (9, 15, 6, 11, 2, 1):
        for ph in PHASES:
            for form in ('shell', 'run-sh', 'pct-sh', 'run-ignore', 'sym'):
                yield {'fam': 'signal', 'sig': sig, 'phase': ph, 'form': form}
    n_rand = 1000 if tier == 'quick' else 15000
    for i in range(n_rand):
        yield {'fam': 'rand', 'seed': seed, 'i': i}


# =====================================================================================================
# vocabulary
# =====================================================================================================
def N(s, **kw):
    return dict({'t': 'n', 's': s}, **kw)


def SOFT(*parts):
    return {'t': 'soft', 'parts': list(parts)}


def HARDQ(s):
    return {'t': 'hard', 's': s}


def REF(name):
    return {'t': 'ref', 'name': name}


def CAT(*parts):
    return {'t': 'cat', 'parts': list(parts)}


def r_(name):
    return {'ref': name}


NAKED = ['a', 'arg', '-o', '--long-opt', '--opt=val', '-', '--', 'a=b', 'k:v', '!x', 'x!', 'a|b', 'ünï',
         '日本', '$HOME', '${X}', '~', '*', '?', 'a\\b', '\\n', '%', '@', '$', '-stdin', '-transformed-by',
         '-ignore-exit-code', '-python', '-rel-home', '-rel-act', '0', '007', 'a,b', ';', '&', '>', 'x>y', '2>&1',
         '==', '-existing', 'run', 'equals', 'EOF', '/abs/path', 'rel/path', '.hidden', 'UPPER', 'a.b-c_d+e']
SOFT_TEXTS = [[''], [' '], ['a b'], ['  lead'], ['trail  '], ["it's"], ['('], [')'], ['!'], ['&&'], ['||'], ['='],
              [':'], ['|'], ['['], ['}'], ['x ', r_('S_W'), ' y'], [r_('L_2')], [r_('L_0')], [r_('L_3')],
              [r_('P_HOME')], [r_('S_SP')], [r_('S_E')], ['-stdin'], [':> x'], ['<<EOF'], ['a\tb'],
              [r_('S_W'), r_('S_W')], ['pre ', r_('L_2'), ' post'], ['ü 日'], ['@[S_W ]@'], ['@ [x]'],
              [r_('P_TMP'), '/x y']]
HARD_TEXTS = ['', ' ', 'a b', 'say "hi"', '@[S_W]@', '(', ')', '[', ']', '{', '}', '=', '|', ':', '!', '&&', '||',
              '-stdin', 'back\\slash', 'c\\', '  two  blanks  ', '"', ':> x', '<<EOF', '$(echo x)', '`x`', '#', 'a#b',
              '日 本', '@[L_2]@ @[NOPE]@']
REFS = ['S_W', 'S_SP', 'S_E', 'L_2', 'L_0', 'L_3', 'P_HOME', 'P_ACT', 'P_TMP', 'P_CD']
CATS = [['pre', r_('L_2'), 'post'], [r_('P_ACT'), '/more'], [r_('S_W'), r_('S_W')], ['--opt=', r_('S_SP')],
        [r_('S_E'), 'x'], ['x', r_('L_0')], [r_('L_3'), '.'], ['-I', r_('P_HOME')], [r_('S_W'), '=', r_('L_2')]]
EXISTS = [{'t': 'exist', 'kind': 'file', 'path': {'name': 'src.txt'}},
          {'t': 'exist', 'kind': 'file', 'path': {'rel': '-rel-home', 'name': 'src.txt'}},
          {'t': 'exist', 'kind': 'file', 'path': {'rel': '-rel-act-home', 'name': 'in.txt'}},
          {'t': 'exist', 'kind': 'dir', 'path': {'rel': '-rel-home', 'name': 'adir'}},
          {'t': 'exist', 'kind': 'path', 'path': {'sym': 'P_HOME'}},
          {'t': 'exist', 'kind': 'path', 'path': {'name': 'adir/x.txt'}},
          {'t': 'exist', 'kind': 'file', 'path': {'sym': 'P_ADIR', 'suffix': 'x.txt'}},
          # PATH is, or goes through, a symbolic link: the argument is the absolute path of PATH as written
          # (root directory + PATH), not the place the link leads to
          {'t': 'exist', 'kind': 'file', 'path': {'name': 'lnk.txt'}},
          {'t': 'exist', 'kind': 'dir', 'path': {'rel': '-rel-home', 'name': 'ldir'}},
          {'t': 'exist', 'kind': 'path', 'path': {'name': 'ldir/x.txt'}},
          {'t': 'exist', 'kind': 'path', 'path': {'rel': '-rel-act-home', 'name': 'lnk.txt'}}]
RESTS = [{'t': 'rest', 'parts': ['the rest  of the "line" \'x\' ( ) ! && -stdin']},
         {'t': 'rest', 'parts': ['with ', r_('S_SP'), ' and ', r_('L_2')], 'lead': '   ', 'trail': '  \t'},
         {'t': 'rest', 'parts': ['x']},
         {'t': 'here', 'lines': [['here ', r_('S_W')], [' doc  '], [''], ['-stdin "no"']]},
         {'t': 'here', 'marker': '-', 'lines': [['EOF']]}]
SEPS = [' ', ' ', ' ', '  ', '\t', ' \t ']
PLAIN_WORDS = ['w1', 'w-2', 'three', '--flag', 'x=1', '4', 'a/b', 'W.x']

STDIN_TEXTS = ['S', 'two words', 'line\n', 'l1\nl2\n', '', 'q0 Mixed aB\n', 'ü日\n', ' x ']


def all_single_tokens():
    toks = [N(s) for s in NAKED] + [SOFT(*p) for p in SOFT_TEXTS] + [HARDQ(s) for s in HARD_TEXTS] \
           + [REF(n) for n in REFS] + [CAT(*p) for p in CATS] + [dict(e) for e in EXISTS]
    return toks


_ALL_TOKS = all_single_tokens()
N_ARG_CASES = (len(_ALL_TOKS) + 3) // 4 + len(RESTS) + 6


def prelude():
    D = []

    def d(ty, name, **kw):
        D.append(dict({'i': 'def', 'type': ty, 'name': name}, **kw))

    d('string', 'S_W', tok=N('word'))
    d('string', 'S_SP', tok=HARDQ('two  words'))
    d('string', 'S_E', tok=SOFT(''))
    d('string', 'S_PROBE', tok=N('probe'))
    d('list', 'L_2', toks=[N('el1'), HARDQ('el 2')])
    d('list', 'L_0', toks=[])
    d('list', 'L_3', toks=[N('a'), SOFT(''), REF('S_SP'), REF('L_2')])
    d('path', 'P_HOME', path={'rel': '-rel-home', 'name': 'src.txt'})
    d('path', 'P_ACT', path={'rel': '-rel-act', 'name': 'sub/file.txt'})
    d('path', 'P_TMP', path={'rel': '-rel-tmp', 'name': 't.txt'})
    d('path', 'P_CD', path={'name': 'cd-relative'})
    d('path', 'P_ADIR', path={'rel': '-rel-home', 'name': 'adir'})
    d('path', 'P_EXE', path={'rel': '-rel-home', 'name': 'hprobe'})
    return D


# =====================================================================================================
# generator: builds the case AST while a shadow Machine (fake directories) tracks symbols / act result,
# so that assertions can be written to hold (or to fail on purpose) according to the MODEL
# =====================================================================================================
class G:
    def __init__(self, rng, fam, split_home=False):
        self.rng = rng
        self.case = {'fam': fam, 'mode': 'keep', 'actor': None, 'setup': [], 'act': None, 'before-assert': [],
                     'assert': [], 'cleanup': [], 'split_home': split_home}
        self.sh = P.Machine(P.Dirs('/H', '/S', '/H/' + P.ACT_HOME_DIR if split_home else None), P.R('/H/rec.jsonl'),
                            home_files=HOME_TEXTS)
        self.failed = False
        self.act_done = False
        self.n = 0
        self.nsym = 0
        self.nfile = 0
        self.tags = []
        self.act_spec = None
        for i in prelude():
            self.add('setup', i)

    # -- bookkeeping ---------------------------------------------------------------------------------
    def add(self, phase, instr):
        self.case[phase].append(instr)
        reachable = (not self.failed) or phase == 'cleanup'
        if not reachable:
            return
        self.sh.phase = phase
        try:
            self.sh.instr(instr)
        except (P.Hard, P.Fail):
            if self.failed:
                raise P.GeneratorBug('second failing point')
            self.failed = True

    def set_act(self, actor, act):
        self.case['actor'] = actor
        self.case['act'] = act
        if not self.failed:
            try:
                self.sh.act(self.case)
                self.act_done = True
            except P.Hard:
                self.failed = True

    def spec(self, rc=0, out='', err='', stdin=True, cat=False):
        self.n += 1
        return {'id': 'p%d' % self.n, 'rc': rc, 'out': out, 'err': err, 'stdin': stdin, 'cat': cat}

    def sym(self, prefix):
        self.nsym += 1
        return '%s_%d' % (prefix, self.nsym)

    def fname(self, prefix='f'):
        self.nfile += 1
        return '%s%d.txt' % (prefix, self.nfile)

    # -- arguments -----------------------------------------------------------------------------------
    def arg(self):
        r = self.rng
        x = r.random()
        if x < 0.30:
            t = N(r.choice(NAKED))
        elif x < 0.48:
            t = SOFT(*r.choice(SOFT_TEXTS))
        elif x < 0.64:
            t = HARDQ(r.choice(HARD_TEXTS))
        elif x < 0.82:
            t = REF(r.choice(REFS))
        elif x < 0.92:
            t = CAT(*r.choice(CATS))
        else:
            t = dict(r.choice(EXISTS))
        return t

    def args(self, n=None, rich_last=True, plain=False):
        r = self.rng
        if n is None:
            n = r.choice([0, 1, 1, 2, 2, 3, 4, 5])
        if plain:
            return [N(r.choice(PLAIN_WORDS)) for _ in range(n)]
        toks = [self.arg() for _ in range(n)]
        if rich_last and n and r.random() < 0.15:
            toks[-1] = dict(r.choice(RESTS))
        if len(toks) >= 3 and r.random() < 0.12:
            toks.insert(r.randrange(1, len(toks)), {'t': 'cont'})
        for t in toks[1:]:
            if r.random() < 0.2:
                t['sep'] = r.choice(SEPS)
        return toks

    # -- programs ------------------------------------------------------------------------------------
    def head(self, spec):
        return [{'t': 'rec'}, {'t': 'ctrl', 'spec': spec}]

    def need_helper(self, which):
        """symlink to the probe inside the sandbox (created by a shell helper at the start of [setup])"""
        key = 'helper-' + which
        if key in self.tags:
            return
        self.tags.append(key)
        sym = {'act': 'EXACTLY_ACT', 'tmp': 'EXACTLY_TMP'}[which]
        self.add('setup', {'i': 'helper', 'parts': ['ln -s ' + probe.PROBE + ' ', r_(sym), '/' + which[0] + 'probe']})

    def base(self, kind, spec, args=None):
        a = self.head(spec) + list(args or [])
        if kind == 'abs':
            return {'k': 'exe', 'path': {'abs': 'PROBE'}, 'args': a}
        if kind == 'home':
            return {'k': 'exe', 'path': {'name': 'hprobe'}, 'args': a}
        if kind == 'relhome':
            return {'k': 'exe', 'path': {'rel': '-rel-home', 'name': 'hprobe'}, 'args': a}
        if kind == 'relacthome':
            return {'k': 'exe', 'path': {'rel': '-rel-act-home', 'name': 'hprobe'}, 'args': a}
        if kind == 'pathsym':
            return {'k': 'exe', 'path': {'sym': 'P_EXE'}, 'args': a}
        if kind == 'act':
            self.need_helper('act')
            return {'k': 'exe', 'path': {'rel': '-rel-act', 'name': 'aprobe'}, 'args': a}
        if kind == 'tmp':
            self.need_helper('tmp')
            return {'k': 'exe', 'path': {'rel': '-rel-tmp', 'name': 'tprobe'}, 'args': a}
        if kind == 'sys':
            return {'k': 'sys', 'name': N('probe'), 'args': a}
        if kind == 'sysabs':
            return {'k': 'sys', 'name': SOFT(probe.PROBE), 'args': a}
        if kind == 'syssym':
            return {'k': 'sys', 'name': REF('S_PROBE'), 'args': a}
        if kind == 'py':
            return {'k': 'py', 'args': [{'t': 'pyprobe'}] + a}
        if kind == 'sh':
            return self.shell(spec)
        raise ValueError(kind)

    SH_VALUES = {
        'single': ['a  b', '(', ')', '-stdin', ':> x', '<<EOF', '@[X ]@', '=', '!', '&&', '|', '"', '$HOME', 'a\\b',
                   '', ' ', '#', '*', 'ü 日'],
        'double': ['a  b', '(', ')', '-stdin', ':>', "it's", '=', '&&', '|', '', '#x', '*', ';', 'ü'],
        'bs': ['a b', '(x)', '&&', '|', '"', "'", '$X', '*', ';', '#', '<', '>', 'a\\b',
               # values that END in white space: as the last word, the line ends with an escaped space / tab
               'a ', ' ', 'end\t', 'two  '],
        'naked': ['w', '-o', '--opt=1', 'a/b', 'x.y', '0', 'A_B'],
    }

    def shell(self, spec, nwords=None, simple=False, exit_code=None):
        r = self.rng
        words = [{'tok': {'t': 'probe'}}, {'tok': {'t': 'rec'}}, {'tok': {'t': 'ctrl', 'spec': spec}}]
        if nwords is None:
            nwords = r.choice([0, 1, 2, 3, 4])
        for _ in range(nwords):
            if not simple and r.random() < 0.2:
                words.append({'ref': r.choice(['S_W', 'S_SP']), 'q': r.choice(['naked', 'double'])})
            else:
                q = r.choice(['single', 'double', 'bs', 'naked'])
                words.append({'v': r.choice(self.SH_VALUES[q]), 'q': q})
        p = {'k': 'sh', 'words': words}
        if not simple:
            if r.random() < 0.25:
                p['lead'] = r.choice(['  ', '\t'])
            if r.random() < 0.25:
                p['trail'] = r.choice(['  ', ' \t'])
            if r.random() < 0.2:
                p['pre'] = r.choice(['cd . && ', 'X=1 ', 'true; '])
            x = r.random()
            if x < 0.2:
                p['post'] = ' # a comment ( "with" \'quotes'
            elif x < 0.3:
                p['post'] = ' ; true'
                p['exit'] = 0
        if exit_code is not None:
            p['post'] = ' ; exit %d' % exit_code
            p['exit'] = exit_code
        return p

    STDIN_MARK = ['S0|', 'S1|', 'S2|', 'S3|']

    def src(self, kind=None, text=None, allow_pgm=True):
        """A TEXT-SOURCE of the given kind (text chosen from the vocabulary)."""
        r = self.rng
        if kind is None:
            kind = r.choice(['literal', 'literal', 'here', 'file', 'symbol', 'transformed'] +
                            (['program'] if allow_pgm else []))
        if text is None:
            text = r.choice(STDIN_TEXTS)
        if kind == 'literal':
            return lit(text, prefer_here=False)
        if kind == 'here':
            return lit(text if text.endswith('\n') else text + '\n', prefer_here=True)
        if kind == 'file':
            return {'k': 'file', 'path': r.choice([{'name': 'in.txt'}, {'rel': '-rel-home', 'name': 'in.txt'},
                                                  {'rel': '-rel-act-home', 'name': 'src.txt'},
                                                  {'sym': 'P_HOME'}])}
        if kind == 'symbol':
            if r.random() < 0.5:
                return {'k': 'symref', 'name': r.choice(['S_W', 'S_SP', 'S_E'])}
            name = self.sym('TS')
            self.add('setup', {'i': 'def', 'type': 'text-source', 'name': name, 'src': lit(text)})
            return {'k': 'symref', 'name': name}
        if kind == 'transformed':
            s = lit(text, prefer_here=r.random() < 0.3)
            s['tr'] = self.tr(allow_run=allow_pgm)
            return s
        if kind == 'program':
            sp = self.spec(out=text, err='E:' + text, stdin=r.random() < 0.5)
            chan = r.choice(['stdout', 'stdout', 'stderr'])
            p = self.base(r.choice(['abs', 'home', 'sys', 'sh', 'abs']), sp, None)
            if p['k'] != 'sh':
                p['args'] += self.args(r.choice([0, 1, 2]), rich_last=False)
            return {'k': 'pgm', 'chan': chan, 'ignore': r.random() < 0.2, 'pgm': p, 'paren': r.random() < 0.5}
        raise ValueError(kind)

    def tr(self, level=None, allow_run=True):
        r = self.rng
        if level is not None and r.random() < 0.7:
            return {'k': 'replace', 'a': 'q%d' % level, 'b': 'q%d' % (level + 1)}
        x = r.random()
        if x < 0.3:
            return {'k': r.choice(['upper', 'lower'])}
        if x < 0.4:
            return {'k': 'identity'}
        if x < 0.6:
            return {'k': 'replace', 'a': r.choice(['a', 'l', 'S', 'q0']), 'b': r.choice(['X', 'yy', 'q1'])}
        if x < 0.75:
            return {'k': 'seq', 'items': [{'k': 'replace', 'a': 'a', 'b': 'b'}, {'k': 'upper'},
                                          {'k': 'replace', 'a': 'B', 'b': 'c'}][:r.choice([2, 3])]}
        if x < 0.85:
            name = self.sym('TR')
            self.add('setup', {'i': 'def', 'type': 'text-transformer', 'name': name,
                               'tr': {'k': 'replace', 'a': 'i', 'b': 'I'}})
            return {'k': 'symref', 'name': name}
        if allow_run:
            sp = self.spec(cat=True, out='+T%d' % self.n)
            return {'k': 'run', 'pgm': self.base(r.choice(['abs', 'sys', 'sh']), sp, None)}
        return {'k': 'upper'}

    def chain(self, base_kind, depth, spec, stdin_mask=0, tr_mask=0, args=True, src_kinds=None, tr_run=True,
              sh_simple=False):
        """Defines `depth` program symbols, each referring to the previous one; returns the PROGRAM to use."""
        r = self.rng
        plain = base_kind == 'sh'

        def deco(p, lvl):
            if stdin_mask & (1 << lvl):
                k = (src_kinds or ['literal', 'here', 'symbol', 'file', 'program', 'transformed'])[lvl % 6] \
                    if src_kinds != 'rand' else None
                mark = self.STDIN_MARK[lvl]
                if k in ('file',):
                    p['stdin'] = self.src('file')
                elif k == 'here':
                    p['stdin'] = self.src('here', text=mark + '\n')
                else:
                    p['stdin'] = self.src(k, text=mark)
            if tr_mask & (1 << lvl):
                p['tr'] = self.tr(level=lvl, allow_run=tr_run)
            return p

        if base_kind == 'sh':
            p = self.shell(spec, simple=depth > 0 or sh_simple)
        else:
            p = self.base(base_kind, spec, self.args(rich_last=False) if args else None)
        p = deco(p, 0)
        for lvl in range(1, depth + 1):
            name = self.sym('PGM')
            if r.random() < 0.2 and p['k'] != 'sh':
                p['paren'] = True
            self.add('setup', {'i': 'def', 'type': 'program', 'name': name, 'pgm': p})
            p = {'k': 'ref', 'name': name, 'args': self.args(plain=plain, rich_last=(lvl == depth)) if args else []}
            p = deco(p, lvl)
        return p


def lit(text, prefer_here=None):
    """A literal TEXT-SOURCE denoting exactly `text` (here-document or soft-quoted string with @[NEW_LINE]@)."""
    assert '"' not in text and '@[' not in text, text
    lines = text[:-1].split('\n') if text.endswith('\n') else None
    if lines is not None and prefer_here is not False and 'EOF' not in lines:
        return {'k': 'here', 'lines': [[l] for l in lines]}
    parts = []
    for i, seg in enumerate(text.split('\n')):
        if i:
            parts.append(r_('NEW_LINE'))
        if seg:
            parts.append(seg)
    return {'k': 'str', 'tok': SOFT(*parts) if parts else SOFT('')}


# =====================================================================================================
# places where a program is used
# =====================================================================================================
SOURCE_LINES = [['# a comment line is source too', 'line one', '  indented ( ] "q', '', "it's -stdin $x :> <<EOF",
                 'last'],
                ['single line'],
                ['exit-code == 1', '', '$ not a shell line', 'stdin = x']]


class B(G):
    """Builders on top of the generator primitives."""

    def shadow(self, fn):
        """Value of fn() in the shadow machine, or None if the model says HARD_ERROR."""
        try:
            return fn()
        except P.Hard:
            return None

    def out_of(self, p, chan='stdout'):
        def f():
            res, trs = self.sh.run_pgm('shadow', p)
            txt = res.out if chan == 'stdout' else res.err
            for t in trs:
                txt = self.sh.tr_apply(t, txt)
            return txt
        return self.shadow(f)

    def use(self, ctx, p, spec, phase='setup', ignore=False, wrong=False, chan=None):
        r = self.rng
        bad = 'X' if wrong else ''
        if chan is None:
            chan = 'stderr' if (self.n % 3 == 0) else 'stdout'
        if ctx == 'run':
            self.add(phase, {'i': 'run', 'ignore': ignore, 'pgm': p})
        elif ctx == 'pct':
            self.add(phase, {'i': 'pct', 'pgm': p})
        elif ctx == 'shell':
            self.add(phase, {'i': 'shell', 'pgm': p})
        elif ctx == 'file-src':
            self.add(phase, {'i': 'file', 'path': {'name': self.fname()},
                             'src': {'k': 'pgm', 'chan': chan, 'ignore': ignore, 'pgm': p,
                                     'paren': r.random() < 0.3}})
        elif ctx == 'stdin-src':
            self.add('setup', {'i': 'stdin', 'src': {'k': 'pgm', 'chan': chan, 'ignore': ignore, 'pgm': p}})
        elif ctx == 'pgm-stdin-src':
            outer = self.base('abs', self.spec(), [N('outer')])
            outer['stdin'] = {'k': 'pgm', 'chan': chan, 'ignore': ignore, 'pgm': p, 'paren': r.random() < 0.5}
            self.add(phase, {'i': 'run', 'pgm': outer})
        elif ctx == 'equals-src':
            src = {'k': 'pgm', 'chan': chan, 'ignore': ignore, 'pgm': p}
            exp = self.shadow(lambda: self.sh.src_text(src))
            if exp is None or self.failed:
                self.add('assert', {'i': 'stdout', 'm': {'k': 'equals', 'src': src}})
            else:
                fn = self.fname('eq')
                self.add('assert', {'i': 'file', 'path': {'name': fn}, 'src': lit(exp + bad)})
                self.add('assert', {'i': 'contents', 'path': {'name': fn}, 'm': {'k': 'equals', 'src': src}})
        elif ctx in ('tr-run-stdin', 'tr-run-file'):
            s = lit(r.choice(['text', 'l1\nl2\n', 'q0 x\n']), prefer_here=r.random() < 0.3)
            s['tr'] = {'k': 'run', 'ignore': ignore, 'pgm': p}
            if ctx == 'tr-run-stdin':
                self.add('setup', {'i': 'stdin', 'src': s})
            else:
                self.add(phase, {'i': 'file', 'path': {'name': self.fname()}, 'src': s})
        elif ctx == 'tr-run-assert':
            tr = {'k': 'run', 'ignore': ignore, 'pgm': p}
            which = 'stderr' if self.n % 2 else 'stdout'
            exp = None
            if self.act_done and not self.failed:
                base_txt = self.sh.act_result.out if which == 'stdout' else self.sh.act_result.err
                exp = self.shadow(lambda: self.sh.tr_apply(tr, base_txt))
            m = {'k': 'is-empty'} if exp is None else {'k': 'equals', 'src': lit(exp + bad)}
            self.add('assert', {'i': which, 'm': {'k': 'tr', 'tr': tr, 'm': m}})
        elif ctx == 'm-run':
            m = {'k': 'run', 'pgm': p}
            if wrong:
                m = {'k': 'not', 'm': m}
            x = self.n % 3
            if x == 0:
                self.add('assert', {'i': 'stdout', 'm': m})
            elif x == 1:
                self.add('assert', {'i': 'stderr', 'm': m})
            else:
                self.add('assert', {'i': 'contents', 'path': {'rel': '-rel-home', 'name': 'in.txt'}, 'm': m})
        elif ctx == 'fm-run':
            self.add('assert', {'i': 'exists', 'path': {'rel': '-rel-home', 'name': 'src.txt'}, 'pgm': p})
        elif ctx in ('stdout-from', 'stderr-from'):
            ch = ctx.split('-')[0]
            exp = self.out_of(p, ch)
            m = {'k': 'is-empty'} if exp is None else {'k': 'equals', 'src': lit(exp + bad)}
            self.add('assert', {'i': ch, 'pgm': p, 'm': m})
        elif ctx == 'exit-code-from':
            rc = p_exit(spec, p)
            self.add('assert', {'i': 'exit-code', 'pgm': p, 'op': '==', 'n': (rc + 1) % 256 if wrong else rc})
        else:
            raise ValueError(ctx)

    # -- the action ------------------------------------------------------------------------------------
    def make_act(self, kind, spec, p=None, args=None, iargs=None):
        r = self.rng
        args = self.args() if args is None else args
        iargs = self.args(r.choice([0, 1, 2]), rich_last=False) if iargs is None else iargs
        if kind.startswith('cmd'):
            if p is None:
                if kind == 'cmd-sh':
                    p = self.shell(spec)
                elif kind == 'cmd-ref':
                    p = self.chain(r.choice(['abs', 'home', 'sys']), 1, spec)
                else:
                    p = self.base(kind[4:], spec, args)
            actor = {'k': 'command'} if r.random() < 0.3 else None
            p = _act_safe(p)
            act = {'k': 'pgm', 'pgm': p}
            if r.random() < 0.3:
                act['pre_lines'] = ['# comment before the program', '']
            if r.random() < 0.3:
                act['post_lines'] = ['', '   # trailing comment']
            self.set_act(actor, act)
        elif kind.startswith('file'):
            ik = kind[5:]
            # "A single line which is a file name followed by optional arguments"
            args = [a for a in args if a['t'] not in ('here', 'cont')]
            if ik == 'py':
                interp = {'k': 'py', 'args': [N('-B')] if r.random() < 0.5 else []}
                act = {'k': 'file', 'path': r.choice([{'name': 'pyprobe.py'},
                                                      {'rel': '-rel-act-home', 'name': 'pyprobe.py'}]),
                       'args': self.head(spec) + args}
            else:
                if ik == 'sys':
                    interp = {'k': 'sys', 'name': r.choice([N('probe'), REF('S_PROBE')]),
                              'args': self.head(spec) + iargs}
                else:
                    interp = {'k': 'exe', 'path': r.choice([{'abs': 'PROBE'}, {'name': 'hprobe'},
                                                            {'rel': '-rel-act-home', 'name': 'hprobe'},
                                                            {'rel': '-rel-home', 'name': 'hprobe'}]),
                              'args': self.head(spec) + iargs}
                act = {'k': 'file', 'path': r.choice([{'name': 'src.txt'}, {'rel': '-rel-home', 'name': 'in.txt'},
                                                      {'rel': '-rel-act-home', 'name': 'src.txt'},
                                                      {'name': 'adir/x.txt'}]),
                       'args': args}
            if r.random() < 0.3:
                act['pre_lines'] = ['# comment', '']
            self.set_act({'k': 'file', 'interp': interp}, act)
        elif kind.startswith('source'):
            ik = kind[7:]
            lines = list(r.choice(SOURCE_LINES))
            if ik == 'py':
                self.set_act({'k': 'source', 'interp': {'k': 'py', 'args': [N('-B')] if r.random() < 0.5 else []}},
                             {'k': 'source', 'py': True, 'spec': spec})
            elif ik == 'cli':
                words = [{'t': 'probe'}, {'t': 'rec'}, {'t': 'ctrl', 'spec': spec}] + \
                        [N(w) for w in r.sample(['i 1', 'i2', "it's", '-x', '', 'a"b', '$H', '( )'], r.choice([0, 2, 3]))]
                self.set_act({'k': 'cli-source', 'words': words}, {'k': 'source', 'lines': lines})
            elif ik == 'sys':
                self.set_act({'k': 'source', 'interp': {'k': 'sys', 'name': N('probe'),
                                                        'args': self.head(spec) + iargs}},
                             {'k': 'source', 'lines': lines})
            else:
                self.set_act({'k': 'source', 'interp': {'k': 'exe', 'path': r.choice([{'abs': 'PROBE'},
                                                                                      {'name': 'hprobe'}]),
                                                        'args': self.head(spec) + iargs}},
                             {'k': 'source', 'lines': lines})
        elif kind == 'null':
            self.set_act({'k': 'null'}, {'k': 'null', 'lines': [probe.PROBE + ' /dev/null id=never,rc=9',
                                                                'anything ( at all']})
        elif kind == 'null-empty':
            self.set_act(None, r.choice([None, {'k': 'null', 'lines': ['# only a comment', '', '   ']},
                                         {'k': 'null', 'lines': []}]))
        else:
            raise ValueError(kind)

    def assert_act(self, wrong=None, which=('exit-code', 'stdout', 'stderr')):
        if self.failed or not self.act_done:
            return
        ar = self.sh.act_result
        for w in which:
            if w == 'exit-code':
                if wrong == w:
                    op, n = self.rng.choice([('==', (ar.rc + 128) % 256), ('!=', ar.rc), ('==', ar.rc ^ 1),
                                             ('<', ar.rc), ('>', ar.rc)])
                else:
                    op, n = self.rng.choice([('==', ar.rc), ('==', ar.rc), ('<=', ar.rc), ('>=', ar.rc),
                                             ('!=', (ar.rc + 1) % 256)])
                self.add('assert', {'i': 'exit-code', 'op': op, 'n': n})
            else:
                txt = ar.out if w == 'stdout' else ar.err
                if wrong == w:
                    txt = txt + 'x' if self.rng.random() < 0.5 else txt[:-1] if txt else 'x'
                m = {'k': 'is-empty'} if (txt == '' and self.rng.random() < 0.5) else {'k': 'equals', 'src': lit(txt)}
                self.add('assert', {'i': w, 'm': m})
            if self.failed:
                return


def _act_safe(x):
    """[act] of the command line actor: "Any number of empty lines and comment lines are allowed" - what that means
    inside a here-document is not specified, so here-documents written in [act] get no empty / #-lines."""
    if isinstance(x, list):
        return [_act_safe(v) for v in x]
    if not isinstance(x, dict):
        return x
    x = {k: _act_safe(v) for k, v in x.items()}
    if 'lines' in x and (x.get('k') == 'here' or x.get('t') == 'here'):
        if any((not P._parts_render(l).strip()) or P._parts_render(l).lstrip().startswith('#') for l in x['lines']):
            x = dict(x, lines=[l if P._parts_render(l).strip() else ['(blank)'] for l in x['lines']])
            x['lines'] = [l if not P._parts_render(l).lstrip().startswith('#') else ['x'] + l for l in x['lines']]
    return x


def p_exit(spec, p):
    if p.get('k') == 'sh' and p.get('exit') is not None:
        return p['exit']
    return spec['rc']


# =====================================================================================================
# families
# =====================================================================================================
def build(desc):
    fam = desc['fam']
    rng = common.rng_for(desc.get('seed', 0), ID, fam, repr(sorted(desc.items())))
    # a third of the cases set the act-home directory apart from the home directory ([conf] act-home = ah), where the
    # files of the same names have other contents: the default relativities (home for most arguments, act-home for the
    # action) then denote different files
    split = (sum(map(ord, repr(sorted(desc.items())))) % 3 == 0)
    b = B(rng, fam, split)
    globals()['_fam_' + fam](b, desc)
    return b


def _simple_act(b, rc=0, kind='cmd-abs'):
    sp = b.spec(rc=rc, out='act out\n', err='act err\n')
    b.make_act(kind, sp, args=[N('act-arg')], iargs=[])
    return sp


def _cleanup_marker(b):
    b.add('cleanup', {'i': 'run', 'pgm': b.base('abs', b.spec(stdin=False), [N('cleanup-ran')])})


def _fam_rc(b, d):
    rc, v = d['rc'], d['v']
    r = b.rng
    if v == 4:
        # --act: "the exit code from [act] becomes the exit code from the program", output likewise;
        # "[before-assert] and [assert] are skipped"
        b.case['mode'] = 'act'
        kind = ['cmd-abs', 'file-exe', 'cmd-sh', 'source-exe', 'cmd-home'][rc % 5]
        b.add('setup', {'i': 'run', 'pgm': b.base('abs', b.spec(stdin=False), [N('setup-ran')])})
        sp = b.spec(rc=rc, out=OUT_TEXTS[(rc + 1) % len(OUT_TEXTS)], err=OUT_TEXTS[(rc // 2) % len(OUT_TEXTS)])
        b.make_act(kind, sp, p=b.shell(sp, simple=True) if kind == 'cmd-sh' else None)
        skipped = b.base('abs', b.spec(stdin=False), [N('must-not-run')])
        b.case['before-assert'].append({'i': 'run', 'pgm': skipped})
        b.case['assert'].append({'i': 'exit-code', 'op': '!=', 'n': rc})
        b.case['assert'].append({'i': 'run', 'pgm': b.base('abs', b.spec(rc=1, stdin=False), [N('must-not-run')])})
        _cleanup_marker(b)
    elif v in (0, 1):
        kind = ['cmd-abs', 'cmd-sh', 'cmd-ref', 'file-exe', 'source-exe', 'cmd-sys', 'cmd-py'][rc % 7]
        out = OUT_TEXTS[rc % len(OUT_TEXTS)]
        err = OUT_TEXTS[(rc // 3) % len(OUT_TEXTS)]
        odd_err = v == 1 and kind != 'cmd-sh' and rc % 3 == 1
        if odd_err:
            # what the action writes on stderr is shown in the failure message of a failing exit-code assertion
            err = INSTR_ERR_TEXTS[(rc // 3) % len(INSTR_ERR_TEXTS)]
        sp = b.spec(rc=rc, out=out, err=err)
        if kind == 'cmd-sh' and (rc // 7) % 2:
            sp['rc'] = (rc + 7) % 256  # the shell's own `exit` decides
            b.make_act(kind, sp, p=b.shell(sp, exit_code=rc))
        else:
            b.make_act(kind, sp)
        if v == 0:
            b.assert_act()
        else:
            b.case['mode'] = 'normal'
            b.assert_act(wrong='exit-code', which=('exit-code',))
            if not odd_err:
                b.assert_act()  # not reached
        _cleanup_marker(b)
    elif v == 2:
        form = ['run', 'pct', 'shell'][rc % 3]
        phase = PHASES[(rc // 3) % 4]
        ignore = form == 'run' and (rc // 12) % 2 == 1
        sp = b.spec(rc=rc, stdin=False, err=INSTR_ERR_TEXTS[(rc // 2) % len(INSTR_ERR_TEXTS)])
        if phase != 'setup':
            _simple_act(b, rc=(rc * 7) % 256)
        if form == 'run':
            p = b.base(['abs', 'home', 'sys', 'sh'][(rc // 24) % 4], sp, [N('x')] if (rc // 24) % 4 != 3 else None)
            b.use('run', p, sp, phase=phase, ignore=ignore)
        elif form == 'pct':
            b.use('pct', b.base(['sys', 'syssym', 'sysabs'][(rc // 12) % 3], sp, b.args(2, rich_last=False)), sp,
                  phase=phase)
        else:
            if (rc // 12) % 2:
                sp['rc'] = (rc + 1) % 256
                p = b.shell(sp, exit_code=rc)
            else:
                p = b.shell(sp)
                if p.get('exit') is not None:
                    p.pop('post'), p.pop('exit')
            b.use('shell', p, sp, phase=phase)
        if phase == 'setup':
            _simple_act(b, rc=(rc * 7) % 256)
        b.assert_act()
        if phase != 'cleanup':
            _cleanup_marker(b)
    else:
        ctx = ['exit-code-from', 'file-src', 'stdin-src', 'tr-run-assert', 'm-run', 'fm-run', 'pgm-stdin-src',
               'equals-src', 'tr-run-file'][rc % 9]
        phase = PHASES[(rc // 9) % 4]
        ignore = (rc // 36) % 2 == 1 and ctx not in ('exit-code-from', 'm-run', 'fm-run')
        sp = b.spec(rc=rc, out='sub out\n', err='sub err\n', cat=ctx.startswith('tr-run'))
        p = b.base(['abs', 'sys', 'home'][(rc // 9) % 3], sp, [N('sub')])
        if ctx in ('stdin-src',):
            b.use(ctx, p, sp, ignore=(rc != 0))  # a failing stdin source: place of the error is unspecified
        if ctx in ('file-src', 'pgm-stdin-src', 'tr-run-file') and phase == 'setup':
            b.use(ctx, p, sp, phase=phase, ignore=ignore)
        _simple_act(b, rc=(rc * 3) % 256)
        if ctx in ('file-src', 'pgm-stdin-src', 'tr-run-file') and phase != 'setup':
            b.use(ctx, p, sp, phase=phase, ignore=ignore)
        if ctx in ('exit-code-from', 'tr-run-assert', 'm-run', 'fm-run', 'equals-src'):
            b.use(ctx, p, sp, ignore=ignore)
        b.assert_act()
        if not (phase == 'cleanup' and ctx in ('file-src', 'pgm-stdin-src', 'tr-run-file')):
            _cleanup_marker(b)


def _fam_chain(b, d):
    base, depth, ctx, v, n = d['base'], d['depth'], d['ctx'], d['v'], d['n']
    levels = (1 << (depth + 1)) - 1
    if v == 0:
        smask, tmask = levels, levels
    else:
        smask, tmask = 0b0101 & levels, 0b1010 & levels
    phase = PHASES[n % 4]
    sp = b.spec(out='q0 Out\n', err='q0 Err\n', cat=ctx.startswith('tr-run'))
    p = b.chain(base, depth, sp, stdin_mask=smask, tr_mask=tmask, tr_run=ctx in OUTPUT_CONSUMED,
                sh_simple=ctx == 'fm-run')
    pre = ctx in ('stdin-src', 'tr-run-stdin') or (ctx in ('run', 'file-src', 'pgm-stdin-src') and phase == 'setup')
    if ctx == 'act':
        b.add('setup', {'i': 'stdin', 'src': lit('ACT-STDIN')})
        b.make_act('cmd', sp, p=p)
    else:
        if pre:
            b.use(ctx, p, sp, phase=phase)
        _simple_act(b, rc=n % 256, kind=['cmd-abs', 'file-exe', 'source-exe'][n % 3])
        if not pre:
            b.use(ctx, p, sp, phase=phase)
    b.assert_act()
    _cleanup_marker(b)


def _fam_actor(b, d):
    actor, sk = d['actor'], d['stdin']
    null = actor.startswith('null')
    if sk != 'absent':
        k = {'literal': 'literal', 'here': 'here', 'file': 'file', 'program': 'program', 'transformed': 'transformed',
             'symbol': 'symbol'}[sk]
        if null and k == 'program':
            k = 'literal'
        b.add('setup', {'i': 'stdin', 'src': b.src(k, allow_pgm=not null)})
    sp = b.spec(rc=3, out='q0 act Out\n', err='act Err')
    if actor in ('cmd-abs', 'cmd-ref'):
        depth = 0 if actor == 'cmd-abs' else 2
        p = b.chain('abs' if actor == 'cmd-abs' else 'home', depth, sp, stdin_mask=0b101, tr_mask=0b110)
        b.make_act('cmd', sp, p=p)
    else:
        b.make_act(actor, sp)
    b.assert_act()
    _cleanup_marker(b)


def _copy(toks):
    import copy
    return copy.deepcopy(toks)


def _fam_args(b, d):
    i = d['i']
    nslices = (len(_ALL_TOKS) + 3) // 4
    if i < nslices:
        toks = _copy(_ALL_TOKS[4 * i:4 * i + 4])
    elif i < nslices + len(RESTS):
        toks = [N('first'), SOFT('second arg'), dict(RESTS[i - nslices])]
    else:
        j = i - nslices - len(RESTS)
        toks = [[], [SOFT('')], [HARDQ('')] * 5, [REF('L_0')], [REF('L_0'), REF('L_0'), REF('S_E')],
                [N('one'), {'t': 'cont'}, N('two'), {'t': 'cont'}, HARDQ('th ree'), N('four', sep='\t')]][j]
        toks = _copy(toks)
    for t in toks[1:]:
        if (i + len(t)) % 3 == 0 and t['t'] != 'cont':
            t['sep'] = SEPS[(i + len(toks)) % len(SEPS)]
    plain_ok = all(t['t'] not in ('rest', 'here') for t in toks)
    # (a) run in [setup], with -stdin on the following line
    p = b.base('abs', b.spec(), _copy(toks))
    p['stdin'] = lit('after the arguments')
    b.add('setup', {'i': 'run', 'pgm': p})
    # (b) split over a program symbol and its use
    name = b.sym('PGM')
    k = len(toks) // 2 if plain_ok else len(toks) - 1
    b.add('setup', {'i': 'def', 'type': 'program', 'name': name,
                    'pgm': b.base('sys', b.spec(), _copy([t for t in toks[:k] if t['t'] != 'cont']))})
    # (c) the action: command line / file actor / interpreter arguments
    sp = b.spec(rc=i % 256, out='o', err='e')
    x = i % 3
    if x == 0:
        b.make_act('cmd-home', sp, args=_copy(toks))
    elif x == 1:
        b.make_act('file-exe', sp, args=_copy(toks), iargs=[N('iarg')])
    else:
        b.make_act('source-exe', sp, iargs=_copy([t for t in toks if t['t'] not in ('rest', 'here', 'cont')]))
    b.add('before-assert', {'i': 'run', 'pgm': {'k': 'ref', 'name': name,
                                                'args': _copy([t for t in toks[k:] if t['t'] != 'cont'])}})
    b.assert_act()
    # (d) -python, (e) parenthesised
    if i % 4 == 0:
        b.add('cleanup', {'i': 'run', 'pgm': b.base('py', b.spec(), _copy(toks))})
    if plain_ok:
        q = b.base('home', b.spec(), _copy(toks))
        q['paren'] = True
        b.add('cleanup', {'i': 'run', 'pgm': q})


def _fam_kinds(b, d):
    kind, phase = d['base'], d['phase']
    sp = b.spec(rc=0, out='kind out\n', err='kind err\n')
    if kind == 'sh':
        p = b.shell(sp)
    else:
        p = b.base(kind, sp, [N('x'), SOFT('y z')])
    p['stdin'] = lit('kind stdin\n')
    if phase == 'act':
        b.add('setup', {'i': 'dir', 'path': {'rel': '-rel-act', 'name': 'sub dir'.replace(' ', '-')}})
        b.add('setup', {'i': 'cd', 'path': {'rel': '-rel-act', 'name': 'sub-dir'}})
        b.make_act('cmd', sp, p=p)
    else:
        if phase != 'setup':
            _simple_act(b)
        if phase in ('setup', 'before-assert'):
            b.add(phase, {'i': 'dir', 'path': {'rel': '-rel-tmp', 'name': 'work'}})
            b.add(phase, {'i': 'cd', 'path': {'rel': '-rel-tmp', 'name': 'work'}})
        b.use('run', p, sp, phase=phase)
        if phase == 'setup':
            _simple_act(b)
    b.assert_act()
    _cleanup_marker(b)


NON_ASSERT_CTX = ['run', 'run', 'run', 'pct', 'shell', 'file-src', 'pgm-stdin-src', 'tr-run-file']
ASSERT_CTX = NON_ASSERT_CTX + ['equals-src', 'tr-run-assert', 'm-run', 'fm-run', 'stdout-from', 'stderr-from',
                               'exit-code-from'] * 2
IGNORABLE = ('run', 'file-src', 'pgm-stdin-src', 'tr-run-file', 'equals-src', 'tr-run-assert')
WRONGABLE = ('equals-src', 'tr-run-assert', 'stdout-from', 'stderr-from', 'exit-code-from')


def _rand_use(b, phase, failing=False):
    r = b.rng
    simple = b.failed  # after the failing point only plain programs (no new symbols) are generated
    ctx = r.choice(ASSERT_CTX if phase == 'assert' else NON_ASSERT_CTX)
    if simple and ctx in ('equals-src', 'tr-run-assert', 'stdout-from', 'stderr-from'):
        ctx = 'run'
    wrong = False
    rc = 0
    ignore = False
    if failing:
        if ctx in WRONGABLE and r.random() < 0.6:
            wrong = True
        elif ctx in ('stdout-from', 'stderr-from'):
            wrong = True
        else:
            rc = r.choice([1, 2, 3, 127, 128, 255, r.randrange(1, 256)])
    else:
        if ctx == 'exit-code-from':
            rc = r.randrange(256)
        elif ctx in IGNORABLE and r.random() < 0.25:
            rc, ignore = r.randrange(1, 256), True
    sp = b.spec(rc=rc, out=r.choice(OUT_TEXTS), err=r.choice(OUT_TEXTS), stdin=r.random() < 0.8,
                cat=ctx.startswith('tr-run') and r.random() < 0.8)
    if ctx == 'pct':
        p = b.base(r.choice(['sys', 'sysabs', 'syssym']), sp, b.args())
    elif ctx == 'shell':
        if rc and r.random() < 0.5:
            sp['rc'] = r.randrange(256)
            p = b.shell(sp, exit_code=rc)
        else:
            p = b.shell(sp)
            if rc and p.get('exit') is not None:
                p.pop('post'), p.pop('exit')
    elif simple:
        p = b.base(r.choice(['abs', 'home', 'sys', 'relhome']), sp, b.args())
    else:
        depth = r.choice([0, 0, 1, 1, 2, 3])
        levels = (1 << (depth + 1)) - 1
        p = b.chain(r.choice(ALL_BASE_KINDS), depth, sp, stdin_mask=r.randrange(16) & levels,
                    tr_mask=r.randrange(16) & levels & (levels if r.random() < 0.6 else 0), src_kinds='rand',
                    tr_run=(ctx in OUTPUT_CONSUMED) and rc == 0, sh_simple=ctx == 'fm-run')
    b.use(ctx, p, sp, phase=phase, ignore=ignore, wrong=wrong)
    return ctx


def _fam_rand(b, d):
    r = b.rng
    b.case['mode'] = 'normal' if r.random() < 0.25 else 'keep'
    fail_phase = r.choice(['setup', 'before-assert', 'assert', 'assert', 'assert', 'cleanup']) \
        if r.random() < 0.3 else None
    actor = r.choice(['cmd', 'cmd', 'cmd', 'cmd-sh', 'cmd-py', 'file-exe', 'file-sys', 'file-py', 'source-exe',
                      'source-sys', 'source-py', 'source-cli', 'null', 'null-empty'])
    null = actor.startswith('null')
    if r.random() < 0.25:
        where = r.choice([{'rel': '-rel-act', 'name': 'wd'}, {'rel': '-rel-tmp', 'name': 'wd/deeper'},
                          {'name': 'plain-wd'}])
        b.add('setup', {'i': 'dir', 'path': where})
        b.add('setup', {'i': 'cd', 'path': where})
    for _ in range(r.choice([0, 0, 1, 1, 2])):
        _rand_use(b, 'setup')
    if fail_phase == 'setup':
        _rand_use(b, 'setup', failing=True)
    if r.random() < 0.6:
        b.add('setup', {'i': 'stdin', 'src': b.src(allow_pgm=not null and not b.failed)})
    sp = b.spec(rc=r.choice([0, 0, 1, 2, r.randrange(256)]), out=r.choice(OUT_TEXTS), err=r.choice(OUT_TEXTS),
                stdin=r.random() < 0.85, cat=r.random() < 0.15)
    if actor == 'cmd':
        depth = r.choice([0, 1, 2, 3])
        levels = (1 << (depth + 1)) - 1
        p = b.chain(r.choice(ALL_BASE_KINDS), depth, sp, stdin_mask=r.randrange(16) & levels,
                    tr_mask=r.randrange(16) & levels & (levels if r.random() < 0.5 else 0), src_kinds='rand')
        b.make_act('cmd', sp, p=p)
    else:
        b.make_act(actor, sp)
    for _ in range(r.choice([0, 0, 1, 2])):
        _rand_use(b, 'before-assert')
    if fail_phase == 'before-assert':
        _rand_use(b, 'before-assert', failing=True)
    which = [w for w in ('exit-code', 'stdout', 'stderr') if r.random() < 0.7] or ['exit-code']
    r.shuffle(which)
    if fail_phase == 'assert' and r.random() < 0.4:
        b.assert_act(wrong=r.choice(which), which=which)
    else:
        b.assert_act(which=which)
    for _ in range(r.choice([0, 1, 1, 2])):
        _rand_use(b, 'assert')
    if fail_phase == 'assert' and not b.failed:
        _rand_use(b, 'assert', failing=True)
    for _ in range(r.choice([0, 0, 1, 2])):
        _rand_use(b, 'cleanup')
    if fail_phase == 'cleanup' and not b.failed:
        _rand_use(b, 'cleanup', failing=True)


# =====================================================================================================
# execution and comparison
# =====================================================================================================
INSTR_LEVEL = ('setup:run', 'setup:%', 'setup:$', 'before-assert:run', 'before-assert:%', 'before-assert:$',
               'assert:run', 'assert:%', 'assert:$', 'cleanup:run', 'cleanup:%', 'cleanup:$', 'act:command',
               'act:file', 'act:source')


def setup_worker(ctx):
    probe.ensure_probe()
    os.environ['PATH'] = probe.BIN_DIR + os.pathsep + os.environ.get('PATH', '')  # `% probe` = a program in the OS PATH
    ctx.c10_rcs = set()


def teardown_worker(ctx):
    return {'c10.act_exit_codes_distinct_summed': len(getattr(ctx, 'c10_rcs', ()))}


def _home_files():
    fs = {'src.txt': HOME_TEXTS['src.txt'], 'in.txt': HOME_TEXTS['in.txt'], 'adir/x.txt': 'x\n',
          'hprobe': ('symlink', probe.PROBE), 'pyprobe.py': ('symlink', PYPROBE),
          'lnk.txt': ('symlink', 'src.txt'), 'ldir': ('symlink', 'adir')}
    # the act-home directory of the cases with `act-home = ah`: the same names, other contents
    ah = P.ACT_HOME_DIR
    fs.update({ah + '/src.txt': P.act_home_variant(HOME_TEXTS['src.txt']),
               ah + '/in.txt': P.act_home_variant(HOME_TEXTS['in.txt']), ah + '/adir/x.txt': 'X-ACT-HOME\n',
               ah + '/hprobe': ('symlink', probe.PROBE), ah + '/pyprobe.py': ('symlink', PYPROBE),
               ah + '/lnk.txt': ('symlink', 'src.txt'), ah + '/ldir': ('symlink', 'adir')})
    return fs


def _read(path):
    try:
        with open(path, 'rb') as f:
            return f.read().decode('utf-8', 'replace')
    except OSError:
        return None


def _m2_matches(exp, call):
    if exp['shell']:
        if not (call['shell'] and isinstance(call['args'], str)):
            return False
        obs = call['args'].strip()
        want = exp['text'].strip()
        if not exp['appended']:
            return obs == want
        return obs.startswith(want) and obs[len(want):][:1].isspace() and obs[len(want):].split() == exp['appended']
    return (not call['shell']) and isinstance(call['args'], list) and call['args'] == exp['args']


def _has_ignore(x):
    if isinstance(x, dict):
        return bool(x.get('ignore')) or any(_has_ignore(v) for v in x.values())
    if isinstance(x, list):
        return any(_has_ignore(v) for v in x)
    return False


def _nargs_bucket(n):
    return '0' if n == 0 else '1-2' if n <= 2 else '3-5' if n <= 5 else '6+'


def _noop(*a, **k):
    pass


def _compare(desc, case, actor, mode, r, rec_path, records, sds, M, exp, ident, count, stats):
    """Compares everything observed with the meaning (M, exp). -> list of violations."""
    viol = []

    def bad(mech, msg, **detail):
        detail['mechanism'] = mech
        viol.append({'what': 'C10 [%s] %s/%s: %s' % (mech, desc['fam'], actor['k'], msg), 'detail': detail})

    # --- outcome ----------------------------------------------------------------------------------
    count('c10.outcomes_compared')
    acceptable = [exp['outcome']] + list(exp.get('also_acceptable', ()))
    if mode == 'act':
        ar = M.act_result
        count('c10.act_mode_passthrough_compared')
        if ar is None or r.rc != ar.rc or r.out != ar.out or r.err != ar.err:
            bad('act-mode', '--act: exit code / stdout / stderr are not those of the action',
                expected=None if ar is None else {'rc': ar.rc, 'out': ar.out, 'err': ar.err}, observed=r.brief())
    elif ident not in acceptable or r.rc != OUTCOME_CODES[ident]:
        bad('outcome', 'expected %s (exit %d, failing point %s[%s]), observed %s (exit %r)'
            % (exp['outcome'], OUTCOME_CODES[exp['outcome']], exp['phase'], exp['index'], ident, r.rc),
            expected=exp, observed=r.brief())
    if exp['outcome'] != 'PASS' or _has_ignore(case):
        count('c10.nonzero_outcomes_checked')
    # --- the source file of the source interpreter actor --------------------------------------------
    exp_inv = M.inv
    for e in exp_inv:
        if e['where'] != 'act:source':
            continue
        obs = [x for x in records if x['id'] == e['id']]
        path = None
        if len(obs) == 1 and obs[0]['argv'] and e['kind'] != 'py':
            path = obs[0]['argv'][-1]
        elif len(obs) == 1:
            # python source: sys.argv[1:] is empty; the path is only in the M2 record
            cands = [c for c in r.calls if isinstance(c['args'], list) and c['args'][:1] == e['m2']['args'][:1]
                     and len(c['args']) == len(e['m2']['args'])]
            if len(cands) == 1:
                path = cands[0]['args'][-1]
        if path is None or not os.path.isabs(path):
            continue
        if mode == 'keep':
            content = _read(path)
            count('c10.source_files_compared')
            if content is None or content.splitlines() != M.act_source_text.split('\n'):
                bad('source-file', 'the file given to the interpreter does not hold the [act] source',
                    expected=M.act_source_text, observed=content, path=path)
                continue
        e['argv'] = [path if a == P.SRC_FILE else a for a in e['argv']]
        e['m2']['args'] = [path if a == P.SRC_FILE else a for a in e['m2']['args']]
    # --- probe records (M7) ---------------------------------------------------------------------
    by_id_e, by_id_o = {}, {}
    for e in exp_inv:
        if e['id'] is not None:
            by_id_e.setdefault(e['id'], []).append(e)
    for o in records:
        by_id_o.setdefault(o['id'], []).append(o)
    for pid in sorted(set(by_id_e) | set(by_id_o)):
        es, os_ = by_id_e.get(pid, []), by_id_o.get(pid, [])
        if len(es) == 1 and len(os_) == 1:
            e, o = es[0], os_[0]
            count('c10.probe_records_compared')
            info = {'where': e['where'], 'kind': e['kind'], 'depth': e['depth'], 'id': pid}
            if o['argv'] != e['argv']:
                bad('argv', 'process %s at %s: argv differs from the denotation' % (pid, e['where']),
                    expected=e['argv'], observed=o['argv'], **info)
            if e['stdin'] is not None and o['stdin'] != e['stdin']:
                bad('stdin', 'process %s at %s: stdin differs from the denotation' % (pid, e['where']),
                    expected=e['stdin'], observed=o['stdin'], stdin_parts=e.get('stdin_parts'), **info)
            if o['cwd'] != e['cwd']:
                bad('cwd', 'process %s at %s: cwd %r, expected %r' % (pid, e['where'], o['cwd'], e['cwd']),
                    expected=e['cwd'], observed=o['cwd'], **info)
        else:
            check_stdin = any(e['stdin'] is not None for e in es)
            eo = sorted(((tuple(e['argv']), e['stdin'], e['cwd']) for e in es), key=repr)
            oo = sorted(((tuple(o['argv']), o['stdin'] if check_stdin else None, o['cwd']) for o in os_), key=repr)
            count('c10.probe_records_compared', len(os_))
            if len(es) != len(os_):
                bad('process-count', 'process %s: expected %d execution(s)%s, observed %d'
                    % (pid, len(es), ' at ' + es[0]['where'] if es else '', len(os_)),
                    expected=[e['where'] for e in es], observed=[o['argv'] for o in os_], id=pid)
            elif eo != oo:
                bad('argv', 'process %s (%d executions): records differ from the denotation' % (pid, len(es)),
                    expected=eo, observed=oo, id=pid)
    # --- subprocess.call records (M2) --------------------------------------------------------------
    unmatched = list(r.calls)
    for e in exp_inv:
        hit = None
        for c in unmatched:
            if _m2_matches(e['m2'], c):
                hit = c
                break
        count('c10.m2_records_compared')
        if e['m2']['shell']:
            count('c10.shell_strings_compared')
        if hit is None:
            tag = 'id=%s' % e['id']
            same = [c for c in r.calls
                    if (isinstance(c['args'], str) and (tag + ',' in c['args'] or tag + ' ' in c['args']))
                    or (isinstance(c['args'], list) and any(str(a).split(',')[0] == tag for a in c['args']))]
            bad('m2', 'no subprocess.call record matches the denotation of %s at %s (shell=%s)'
                % (e['id'], e['where'], e['m2']['shell']), expected=e['m2'],
                observed=[{'args': c['args'], 'shell': c['shell'], 'args_type': c['args_type']}
                          for c in (same or r.calls)[:4]],
                where=e['where'], kind=e['kind'], id=e['id'])
        else:
            unmatched.remove(hit)
            if hit['cwd'] != e['cwd']:
                bad('cwd', 'subprocess.call for %s at %s made in %r, expected %r'
                    % (e['id'], e['where'], hit['cwd'], e['cwd']), expected=e['cwd'], observed=hit['cwd'])
    if unmatched and len(r.calls) != len(exp_inv):
        bad('process-count', '%d process(es) started that the denotation does not contain' % len(unmatched),
            observed=[{'args': c['args'], 'shell': c['shell']} for c in unmatched[:4]])
    n_popen = sum(1 for ev in r.audit if ev[0] == 'subprocess.Popen')
    if n_popen != len(exp_inv):
        bad('process-count', '%d subprocess.Popen audit events, %d processes denoted' % (n_popen, len(exp_inv)),
            observed=[ev[1:3] for ev in r.audit if ev[0] == 'subprocess.Popen'][:8])
    if actor['k'] == 'null' or case.get('act') is None or case['act']['k'] == 'null':
        if exp['act_executed'] and n_popen == len(exp_inv) and len(r.calls) == len(exp_inv):
            count('c10.null_actor_no_process')
    # --- order of instruction-level processes ----------------------------------------------------------
    seq_e = [e['id'] for e in exp_inv if e['where'] in INSTR_LEVEL and len(by_id_e.get(e['id'], ())) == 1]
    seq_o = [o['id'] for o in records if o['id'] in set(seq_e)]
    if sorted(seq_e) == sorted(seq_o) and seq_e != seq_o:
        bad('order', 'instruction-level processes ran in another order', expected=seq_e, observed=seq_o)
    # --- captured outcome of the action (--keep) ------------------------------------------------------
    if mode == 'keep' and exp['act_executed']:
        ar = M.act_result
        got = {n: _read(os.path.join(sds, 'result', n)) for n in ('exit-code', 'stdout', 'stderr')}
        count('c10.result_files_compared')
        if got['exit-code'] is None or got['exit-code'].strip() != str(ar.rc):
            bad('result', 'result/exit-code holds %r, the action exited with %d' % (got['exit-code'], ar.rc))
        if got['stderr'] != ar.err:
            bad('result', 'result/stderr differs from what the action wrote', expected=ar.err,
                observed=got['stderr'])
        if not M.act_transformed and got['stdout'] != ar.out:
            bad('result', 'result/stdout differs from what the action wrote', expected=ar.out,
                observed=got['stdout'])
    if exp['act_executed'] and case.get('act') is not None and actor['k'] != 'null' and M.act_result is not None:
        for e in exp_inv:
            if e['where'].startswith('act:'):
                stats['act_rc'] = M.act_result.rc
                if e['where'] == 'act:command' and e['n_stdin'] and M.act_stdin is not None:
                    count('c10.act_stdin_with_program_stdin')
    if mode == 'keep':
        for path, txt in M.files.items():
            got = _read(path)
            count('c10.text_files_compared')
            if got != txt:
                bad('file-from-program', 'file %s written from a text source differs' % os.path.basename(path),
                    expected=txt, observed=got)
    return viol


# Known defects of Exactly whose exact effect the model can reproduce (see KNOWN below)
EMULATIONS = ('stdin-raw-part-first',)


def _emulation_applies(key, M):
    if key == 'stdin-raw-part-first':
        for e in M.inv:
            parts = e.get('stdin_parts') or []
            seen_buffered = False
            for p in parts:
                if p['raw_program_output'] and seen_buffered and p['text']:
                    return True
                if not p['raw_program_output'] and p['text']:
                    seen_buffered = True
    return False


def _dirs(case, d, sds):
    return P.Dirs(d, sds, os.path.join(d, P.ACT_HOME_DIR) if case.get('split_home') else None)


_HEREDOC_BODIES = {'plain': ['line 1', 'line 2'], 'blank': ['line 1', '', 'line 3'], 'hash': ['line 1', '# no comment', 'x'],
                   'indented-hash': ['a', '   # no comment', 'b'], 'blank-and-hash': ['', '#', '', 'end'],
                   'only-blank': ['', '']}


def run_act_heredoc(desc, ctx):
    from vf.driver import first_line
    ses = ctx.get_session()
    d = ses.new_case_dir({})
    rec = os.path.join(d, 'rec.jsonl')
    lines = _HEREDOC_BODIES[desc['body']]
    text_denoted = ''.join(l + '\n' for l in lines)
    conf = '[conf]\nactor = command\n' if desc['actor'] == 'command' else ''
    if desc['use'] == 'stdin':
        act = '%s %s %s\n -stdin <<EOF\n%sEOF\n' % (probe.PROBE, rec, probe.ctrl(id='a', stdin=True), text_denoted)
    else:
        act = '%s %s %s first <<EOF\n%sEOF\n' % (probe.PROBE, rec, probe.ctrl(id='a'), text_denoted)
    text = conf + '[act]\n' + act
    with open(os.path.join(d, 't.case'), 'w') as f:
        f.write(text)
    r = ses.run([os.path.join(d, 't.case')], cwd=d, mode='normal')
    ctx.count('c10.act_heredoc_cases')
    viol, inconc = [], []
    if r.timed_out:
        inconc.append('watchdog')
    else:
        recs = probe.read_records(rec)
        ident = first_line(r.out)
        if r.exc is not None or (ident, r.rc) != ('PASS', 0) or len(recs) != 1:
            viol.append({'what': 'C10 [act-heredoc] %s/%s: valid case with a here-document in [act] gives %s/%r, %d process(es) '
                                 'started' % (desc['use'], desc['body'], ident, r.rc, len(recs)),
                         'detail': {'case_text': text, 'mechanism': 'act-heredoc-outcome', 'observed': r.brief()}})
        else:
            got = recs[0]['stdin'] if desc['use'] == 'stdin' else (recs[0]['argv'][-1] if recs[0]['argv'] else None)
            if isinstance(got, bytes):
                got = got.decode('utf-8', 'replace')
            if got != text_denoted:
                viol.append({'what': 'C10 [act-heredoc] the %s of the action given as a here-document in [act] (%s lines): the '
                                     'process received %r, the here-document denotes %r' % (
                                         'stdin' if desc['use'] == 'stdin' else 'last argument', desc['body'], got,
                                         text_denoted),
                             'detail': {'case_text': text, 'mechanism': 'act-heredoc', 'denoted': text_denoted,
                                        'received': got, 'body_lines': lines}})
    ses.clean_tmp()
    ses.drop(d)
    return {'classes': [('act-heredoc', desc['body'], desc['use'], desc['actor'])], 'viol': viol, 'inconclusive': inconc,
            'evaluations': 1}


def run_signal(desc, ctx):
    from vf.driver import first_line
    ses = ctx.get_session()
    d = ses.new_case_dir({})
    marker = os.path.join(d, 'marker')
    sig, ph, form = desc['sig'], desc['phase'], desc['form']
    kill = "kill -%d $$" % sig
    defs = []
    if form == 'shell':
        instr = '$ ' + kill
    elif form == 'run-sh':
        instr = "run % /bin/sh -c '" + kill + "'"
    elif form == 'pct-sh':
        instr = "% /bin/sh -c '" + kill + "'"
    elif form == 'run-ignore':
        instr = "run -ignore-exit-code % /bin/sh -c '" + kill + "'"
    else:
        defs = ["def program KILLED = % /bin/sh -c '" + kill + "'"]
        instr = 'run @ KILLED'
    after = '$ echo after >> ' + marker
    L = {p: [] for p in ('setup', 'before-assert', 'assert', 'cleanup')}
    L['setup'] += defs
    L[ph] += [instr, after]
    if ph != 'cleanup':
        L['cleanup'].append('$ echo cleanup >> ' + marker)
    text = ''.join('[%s]\n%s\n' % (p, '\n'.join(L[p])) for p in ('setup',) if L[p]) + '[act]\n$ true\n' + \
        ''.join('[%s]\n%s\n' % (p, '\n'.join(L[p])) for p in ('before-assert', 'assert', 'cleanup') if L[p])
    with open(os.path.join(d, 't.case'), 'w') as f:
        f.write(text)
    r = ses.run([os.path.join(d, 't.case')], cwd=d, mode='normal')
    ctx.count('c10.signal_terminated_programs')
    viol, inconc = [], []
    if r.timed_out:
        inconc.append('watchdog')
    else:
        ident = first_line(r.out)
        got_marker = open(marker).read().split() if os.path.exists(marker) else []
        if form == 'run-ignore':
            want, want_marker = ('PASS', 0), ['after'] + (['cleanup'] if ph != 'cleanup' else [])
        else:
            want = ('FAIL', 32) if ph == 'assert' else ('HARD_ERROR', 128)
            want_marker = ['cleanup'] if ph != 'cleanup' else []
        if r.exc is not None or (ident, r.rc) != want:
            viol.append({'what': 'C10 [outcome] signal/%s: a program terminated by signal %d in [%s] must give %s/%d, '
                                 'observed %s/%r' % (form, sig, ph, want[0], want[1], ident, r.rc),
                         'detail': {'case_text': text, 'mechanism': 'signal', 'observed': r.brief()}})
        elif got_marker != want_marker:
            viol.append({'what': 'C10 [outcome] signal/%s: after a program terminated by signal %d in [%s] the '
                                 'instructions executed were %r, expected %r' % (form, sig, ph, got_marker, want_marker),
                         'detail': {'case_text': text, 'mechanism': 'signal', 'observed': r.brief()}})
    ses.clean_tmp()
    ses.drop(d)
    return {'classes': [('signal', sig, ph, form)], 'viol': viol, 'inconclusive': inconc, 'evaluations': 1}


def run_case(desc, ctx):
    if desc.get('fam') == 'signal':
        return run_signal(desc, ctx)
    if desc.get('fam') == 'act-heredoc':
        return run_act_heredoc(desc, ctx)
    from vf.driver import first_line
    ses = ctx.get_session()
    b = build(desc)
    case = b.case
    d = ses.new_case_dir(_home_files())
    rec_path = os.path.join(d, 'rec.jsonl')
    rr = P.R(rec_path)
    text = P.case_render(case, rr)
    with open(os.path.join(d, 't.case'), 'w', encoding='utf-8', newline='') as f:
        f.write(text)
    mode = case['mode']
    argv = ['--keep'] if mode == 'keep' else ['--act'] if mode == 'act' else []
    actor = case.get('actor') or {'k': 'command'}
    if actor['k'] == 'cli-source':
        argv += ['--actor', P.cli_actor_words(case, rr)]
    r = ses.run(argv + [os.path.join(d, 't.case')], cwd=d, mode=mode)
    base = {'case_text': text, 'argv': argv}
    try:
        if r.timed_out:
            return {'classes': [], 'viol': [], 'inconclusive': ['watchdog'], 'evaluations': 0}
        if r.exc is not None:
            return {'classes': [], 'evaluations': 1, 'inconclusive': [], 'viol': [
                {'what': 'C10 [exception] exception escaped MainProgram.execute',
                 'detail': dict(base, mechanism='exception', exc=r.exc[-800:])}]}
        sds = None
        if mode == 'keep' and r.out.endswith('\n') and os.path.isdir(r.out[:-1]):
            sds = r.out[:-1]
        else:
            for ev in r.audit:
                if ev[0] == 'tempfile.mkdtemp' and os.path.basename(str(ev[1])).startswith('exactly-'):
                    sds = ev[1]
                    break
        ident = first_line(r.out) if mode == 'normal' else first_line(r.err)
        if sds is None:
            return {'classes': [], 'evaluations': 1, 'inconclusive': [], 'viol': [
                {'what': 'C10 [outcome] %s/%s: the test case was not executed (%s, exit %r)'
                         % (desc['fam'], actor['k'], ident, r.rc),
                 'detail': dict(base, mechanism='not-executed', observed=r.brief())}]}
        records = probe.read_records(rec_path)
        M = P.Machine(_dirs(case, d, sds), rr, HOME_TEXTS)
        exp = M.execute(case, act_only=(mode == 'act'))
        stats = {}
        viol = _compare(desc, case, actor, mode, r, rec_path, records, sds, M, exp, ident, ctx.count, stats)
        if 'act_rc' in stats:
            ctx.c10_rcs.add(stats['act_rc'])
        if viol:
            for key in EMULATIONS:
                if not _emulation_applies(key, M):
                    continue
                M2 = P.Machine(_dirs(case, d, sds), rr, HOME_TEXTS, emulate=(key,))
                try:
                    exp2 = M2.execute(case, act_only=(mode == 'act'))
                    v2 = _compare(desc, case, actor, mode, r, rec_path, records, sds, M2, exp2, ident, _noop, {})
                except P.GeneratorBug:
                    continue  # the defect changes the course of the case in a way the model cannot follow
                if not v2:
                    # everything observed is exactly what this defect predicts: one witness per case is kept
                    viol[0]['detail']['observation_equals_emulation_of'] = key
                    viol[0]['detail']['consequences_in_same_case'] = [v['what'] for v in viol[1:]]
                    del viol[1:]
                    break
        for v in viol:
            v['detail'].update(base)
        # --- classes ------------------------------------------------------------------------------------
        classes = []
        exp_inv = M.inv
        for e in exp_inv:
            if e['id'] is None:
                continue
            classes.append(('proc', e['where'], e['kind'], 'depth%d' % e['depth'], 'stdin%d' % e.get('n_stdin', 0),
                            'tr%d' % e.get('n_trs', 0), 'args' + _nargs_bucket(len(e['argv']))))
            if e['depth'] >= 2:
                ctx.count('c10.chain_depth_ge2')
            if e.get('n_trs', 0) >= 2 and (e['where'].split(':')[0] in ('act', 'src', 'tr')
                                           or e['where'].endswith('-from')):
                ctx.count('c10.transformation_chains_ge2')
        classes.append(('case', desc['fam'], actor['k'], mode, exp['outcome'], str(exp['phase'])))
        res = {'classes': classes, 'viol': viol, 'inconclusive': [], 'evaluations': max(1, len(exp_inv))}
        if (desc['fam'] in ('chain', 'actor', 'rand') and len(exp_inv) >= 2
            and desc.get('n', desc.get('i', 7)) % 5 == 2) \
                or (desc['fam'] == 'rc' and desc['rc'] == 201 and desc['v'] == 2):
            res['sample'] = {
                'descriptor': desc, 'case_text': text.replace(d, '<CASE-DIR>'), 'argv': argv,
                'expected': {'outcome': exp, 'processes': [
                    {'id': e['id'], 'where': e['where'], 'argv': e.get('argv'),
                     'stdin': common.jsonable(e.get('stdin')), 'm2': e['m2']} for e in exp_inv][:8]},
                'observed': {'exit_code': r.rc, 'identifier': ident,
                             'probe_records': [{'id': o['id'], 'argv': o['argv'], 'stdin': common.jsonable(o['stdin']),
                                                'cwd': o['cwd'].replace(sds, '<SDS>')} for o in records][:8]}}
        return res
    finally:
        ses.clean_tmp()
        ses.drop(d)


# =====================================================================================================
# Known findings (mechanism predicates)
# =====================================================================================================
def _known_stdin_raw_part_first(v):
    """A stdin that is the concatenation of several parts (program-symbol chain, or PROGRAM stdin + [setup] stdin, or
    stdin + text to transform/match): a part that is *raw program output* (-stdout-from PROGRAM, -stderr-from
    -ignore-exit-code PROGRAM, or a text whose last transformer is `run`) is delivered BEFORE the parts that precede
    it.  Predicted defective value: all raw parts in order, then all other parts in order; every other observation of
    the case must equal what follows from that (checked by re-running the model with the defect emulated)."""
    d = v.get('detail') or {}
    return d.get('observation_equals_emulation_of') == 'stdin-raw-part-first'


def _known_act_heredoc_lines_dropped(v):
    """A here-document in the [act] phase (command line actor): the lines of its body that are empty or begin with `#`
    (optionally preceded by space) are removed before the program is parsed - the act phase's own rule for empty and
    comment lines is applied to the body of the here-document."""
    d = v.get('detail') or {}
    if d.get('mechanism') != 'act-heredoc':
        return False
    lines = d.get('body_lines') or []
    kept = [l for l in lines if l.strip() != '' and not l.lstrip().startswith('#')]
    return kept != lines and d.get('received') == ''.join(l + '\n' for l in kept)


KNOWN = {'stdin-raw-part-first': _known_stdin_raw_part_first,
         'act-heredoc-empty-and-hash-lines-dropped': _known_act_heredoc_lines_dropped}
