"""C12 Paths resolve under their relativity root; home directories are write-protected (D1, M1, M7, M8).

Three kinds of generated test cases, all run through the real CLI with --keep (to learn the sandbox root):

 R  resolution:  a chain of `def path` (depth 1..3) is rendered by the probe (`% PROBE OUT CTRL @[P]@ ...`) at five
    use points (setup before/after a `cd`, [act], before-assert, assert, cleanup, each after another `cd`) and every
    rendered argument must equal root(relativity) joined with the suffix computed by vf.models.paths (manual-derived).
 W  write protection:  `file`/`dir`/`copy` (8 forms) x phase x (option | symbol through a chain): documented verdict
    (SYNTAX_ERROR for a forbidden option, VALIDATION_ERROR for a symbol with forbidden ultimate relativity, nothing
    executed; PASS + object created exactly at root/suffix otherwise), home directories unchanged (M8), no M1 write
    event below them.
 K  absolute FILE-NAME combined with a relativity / smuggled in through a string symbol (separately labelled class;
    doc/BUGS.rst): must be rejected, home directories unchanged.
"""
import os

from vf import common, probe
from vf.driver import first_line, snapshot_tree, write_files
from vf.models import paths as pm

ID = 'C12'
LEVEL = 'exploration'
RULE = ('R cases: (base relativity option/default/absolute/builtin symbol x suffix shape) x (link form -rel SYM | '
        '@[SYM]@/sfx | @[SYM]@ x suffix shape) chains, rendered at 5-6 use points with different current directories; '
        'class key = (R, depth, base, base shape, link forms+shapes, conf variant class).  W cases: creation '
        'instruction form x phase x base x link forms; class key = (W, instruction, phase, base, links, documented '
        'verdict).  K cases: (K, absolute-suffix form, instruction, observed verdict).  A case is non-trivial when the '
        'CLI returned and at least one rendered path / one creation verdict + home snapshot was compared with the '
        'value computed from the hard-coded relativity->root table')
ASSUMPTIONS = [
    'roots are learnt from the same run: sandbox = the line `--keep` prints (sub directories act/ tmp/ result/ are '
    'hard-coded from `help concept sandbox`), home/act-home = the case directory unless [conf] home=/act-home= '
    '(relative to the source file holding the setting)',
    'path equality is lexical after removal of "." and empty components only; no ".." component and no symbolic '
    'link is generated (the manual does not say whether paths are normalised)',
    'an absolute FILE-NAME together with a relativity has no meaning defined by the manual ("RELATIVITY must not be '
    'given"); it is generated only in the K class where the only demands are rejection and unchanged home directories',
    '`file` creates missing intermediate directories (documented for dir/copy/FILE-SPEC; for `file` shown by '
    'examples/intro/misc-instructions/dir-contents/recursive.case)',
    'reading usages are observed through `-existing-dir/-existing-file/-existing-path PATH` program arguments with '
    'existing targets and through the source of `copy` (content of the copied file); other reading instructions '
    '(contents, exists, dir-contents, -contents-of) are left to C05/C15',
    'the sandbox runs as root: protection is judged by Exactly refusing the instruction, not by file permissions',
]
EXHAUSTIVE_NOTE = ('R: every (base in 9 relativities x 8 suffix shapes + 5 builtin symbols x 3 reference forms) alone '
                   '(depth 1) and under every link (3 forms x 8 shapes) (depth 2); W: every (8 instruction forms x 4 '
                   'phases) x (9 direct relativities | 14 bases x 3 use links | 14 bases x 3 x 3 links); K: every '
                   'absolute-suffix form x instruction form -- identical in both tiers, independent of the seed')
MIN_OBS = {
    'quick': {'evaluations': 5000, 'classes': 1500, 'c12.renderings_compared': 60000,
              'c12.probe_cwd_compared': 8000, 'c12.creation_verdicts_compared': 3000,
              'c12.created_objects_located': 800, 'c12.home_snapshots_compared': 5000,
              'c12.m1_events_checked': 50000, 'c12.k_class_cases': 100},
    'thorough': {'evaluations': 12000, 'classes': 3000, 'c12.renderings_compared': 150000,
                 'c12.probe_cwd_compared': 20000, 'c12.creation_verdicts_compared': 7000,
                 'c12.created_objects_located': 2000, 'c12.home_snapshots_compared': 12000,
                 'c12.m1_events_checked': 120000, 'c12.k_class_cases': 100},
}

PHASES = ['setup', 'before-assert', 'assert', 'cleanup']
CONFS = ['default', 'both', 'home', 'acthome', 'inc']
BASE_RELS = ['home', 'act-home', 'act', 'tmp', 'result', 'cd', 'here', 'dflt', 'abs']
BUILTINS = sorted(pm.BUILTIN_PATH_SYMBOLS)
LINK_FORMS = ['relsym', 'lead', 'plain']
INSTRS = ['file', 'file=', 'file+=', 'dir', 'dir=', 'dir+=', 'copyf', 'copyd']
W_SHAPES = ['plain', 'nested', 'sref', 'mixed', 'sslash', 'softq', 'hardq']  # never 'dot' for an object to create

# cd plans: one optional `cd` before use points u1..u4; (source text, required cd | None, resulting cd)
_CD = {
    'tmp-w1': ('cd -rel-tmp w1', None, ('tmp', 'w1')),
    'tmp-w1w2': ('cd -rel-tmp w1/w2', None, ('tmp', 'w1/w2')),
    'tmp': ('cd -rel-tmp .', None, ('tmp', '')),
    'act': ('cd -rel-act .', None, ('act', '')),
    'act-a1': ('cd -rel-act a1', None, ('act', 'a1')),
    'w2': ('cd w2', ('tmp', 'w1'), ('tmp', 'w1/w2')),
    'cd-a1': ('cd -rel-cd a1', ('act', ''), ('act', 'a1')),
    'a2': ('cd a2', ('act', 'a1'), ('act', 'a1/a2')),
    'sym-w1': ('cd @[EXACTLY_TMP]@/w1', None, ('tmp', 'w1')),
    'relsym-a1a2': ('cd -rel EXACTLY_ACT a1/a2', None, ('act', 'a1/a2')),
    None: (None, None, None),
}
CD_PLANS = [
    ['tmp-w1', 'w2', 'act', 'tmp'],
    ['act-a1', 'a2', 'tmp-w1w2', None],
    ['cd-a1', 'tmp', None, 'act'],
    ['tmp', 'act-a1', 'a2', 'tmp-w1'],
    ['sym-w1', 'relsym-a1a2', 'tmp-w1', 'w2'],
    ['tmp-w1w2', None, 'act-a1', 'tmp'],
]


def _check_plans():
    for plan in CD_PLANS:
        cd = ('act', '')
        seen = {cd}
        for k in plan:
            txt, req, res = _CD[k]
            if txt is None:
                continue
            assert req is None or req == cd, plan
            cd = res
            seen.add(cd)
        assert len(seen) >= 3, plan


_check_plans()


# =====================================================================================================
# generation
# =====================================================================================================
def _base_expr(kind, shape_name, tag=''):
    """kind: one of BASE_RELS, or 'B:<BUILTIN>:<link form>'."""
    if kind.startswith('B:'):
        _, sym, form = kind.split(':')
        if form == 'plain':
            return {'form': 'plain', 'sym': sym}
        return {'form': form, 'sym': sym, 'sfx': pm.shape(shape_name, tag)}
    if kind == 'dflt':
        return {'form': 'dflt', 'sfx': pm.shape(shape_name, tag)}
    if kind == 'abs':
        return {'form': 'abs', 'root': 'out', 'sfx': pm.shape(shape_name, tag)}
    return {'form': 'opt', 'rel': kind, 'sfx': pm.shape(shape_name, tag)}


def _link_expr(form, sym, shape_name, tag):
    if form == 'plain':
        return {'form': 'plain', 'sym': sym}
    return {'form': form, 'sym': sym, 'sfx': pm.shape(shape_name, tag)}


def _all_bases():
    """(kind, shape) for the exhaustive core of R."""
    for rel in BASE_RELS:
        for sh in pm.SHAPE_NAMES:
            yield rel, sh
    i = 0
    for b in BUILTINS:
        for form in LINK_FORMS:
            i += 1
            yield 'B:%s:%s' % (b, form), pm.SHAPE_NAMES[i % len(pm.SHAPE_NAMES)]


def _all_links():
    for form in ('relsym', 'lead'):
        for sh in pm.SHAPE_NAMES:
            yield form, sh
    yield 'plain', None


def _w_bases():
    for rel in BASE_RELS:
        yield rel
    for b in BUILTINS:
        yield 'B:%s:relsym' % b


K_FORMS = ['opt-act', 'opt-tmp', 'opt-cd', 'literal', 'opt-strsym', 'dflt-strsym', 'relsym-abs-sfx',
           'sym-rel-act-strsym:relsym', 'sym-rel-act-strsym:lead', 'sym-rel-act-abs:relsym',
           'sym-dflt-strsym:relsym', 'sym2-rel-tmp-strsym:relsym', 'sym2-rel-tmp-strsym:plain']
K_INSTRS = ['file', 'file=', 'file+=', 'dir', 'dir=', 'copyf', 'copyd']


def cases(tier, seed):
    n = 0
    # ---------------- R core: depth 1 and 2, exhaustive -------------------------------------------
    for kind, sh in _all_bases():
        n += 1
        yield _r_case(n, [_base_expr(kind, sh)], [kind], [sh])
    for kind, sh in _all_bases():
        for form, lsh in _all_links():
            n += 1
            yield _r_case(n, [_base_expr(kind, sh), _link_expr(form, 'P1', lsh or 'plain', '')],
                          [kind, form], [sh, lsh])
    # ---------------- W core ---------------------------------------------------------------------
    for instr in INSTRS:
        for phase in PHASES:
            for rel in BASE_RELS:  # direct: the option (or default / absolute literal) on the instruction itself
                n += 1
                if rel == 'abs':
                    continue  # an absolute literal directly on the instruction is K form 'literal'
                yield _w_case(n, [], _w_use_direct(rel, n), instr, phase, [rel])
            for base in _w_bases():
                for use in LINK_FORMS:
                    n += 1
                    ch = [_base_expr(base, W_SHAPES[n % len(W_SHAPES)])]
                    yield _w_case(n, ch, _link_expr(use, 'P1', W_SHAPES[(n // 3) % len(W_SHAPES)], ''), instr, phase,
                                  [base, use])
                    for mid in LINK_FORMS:
                        n += 1
                        ch2 = [_base_expr(base, W_SHAPES[n % len(W_SHAPES)]),
                               _link_expr(mid, 'P1', W_SHAPES[(n // 5) % len(W_SHAPES)], '')]
                        yield _w_case(n, ch2, _link_expr(use, 'P2', W_SHAPES[(n // 3) % len(W_SHAPES)], ''), instr,
                                      phase, [base, mid, use])
    # ---------------- K core ---------------------------------------------------------------------
    for kform in K_FORMS:
        for instr in K_INSTRS:
            for which in ('home', 'act-home'):
                n += 1
                yield {'t': 'K', 'kform': kform, 'instr': instr, 'which': which, 'phase': PHASES[n % 4],
                       'conf': ['both', 'inc', 'default', 'home', 'acthome'][n % 5], 'cwd': 'else' if n % 2 else 'case'}
    # ---------------- seeded part ----------------------------------------------------------------
    rng = common.rng_for(seed, ID)
    n_r, n_w, n_k = (700, 700, 40) if tier == 'quick' else (5000, 4500, 300)
    for i in range(n_r):
        depth = rng.choice([2, 3, 3, 3])
        yield _rand_r(rng, depth)
    for i in range(n_w):
        yield _rand_w(rng, rng.choice([0, 1, 2, 3, 3, 3]))
    for i in range(n_k):
        yield {'t': 'K', 'kform': rng.choice(K_FORMS), 'instr': rng.choice(K_INSTRS),
               'which': rng.choice(['home', 'act-home']), 'phase': rng.choice(PHASES), 'conf': rng.choice(CONFS),
               'cwd': rng.choice(['case', 'else'])}


def _r_case(n, chain, forms, shapes):
    depth = len(chain)
    # deterministic rotation of the remaining dimensions
    place = [(n // 2) % 4] if depth == 1 else [[0, 0], [0, 1], [1, 2], [0, 3], [2, 2], [1, 1], [0, 2], [3, 3]][n % 8]
    return {'t': 'R', 'chain': chain, 'place': place, 'conf': CONFS[n % len(CONFS)], 'plan': n % len(CD_PLANS),
            'inc': (n % 3 == 0), 'act': (n % 2 == 0), 'cwd': 'else' if (n // 2) % 2 else 'case',
            'key': [depth, forms[0], shapes[0]] + ['%s/%s' % (f, s) for f, s in zip(forms[1:], shapes[1:])]}


def _rand_chain(rng, depth, shapes, allow_dot=True):
    kind = rng.choice(BASE_RELS + ['B:%s:%s' % (rng.choice(BUILTINS), rng.choice(LINK_FORMS))])
    sh0 = rng.choice(shapes)
    chain = [_base_expr(kind, sh0)]
    forms, shs = [kind], [sh0]
    for k in range(2, depth + 1):
        form = rng.choice(LINK_FORMS)
        sh = rng.choice(shapes)
        target = 'P%d' % rng.choice([k - 1, k - 1, k - 1, max(1, k - 2)])
        chain.append(_link_expr(form, target, sh, ''))
        forms.append(form + ('' if target == 'P%d' % (k - 1) else '^'))
        shs.append(sh if form != 'plain' else None)
    return chain, forms, shs


def _rand_r(rng, depth):
    chain, forms, shs = _rand_chain(rng, depth, pm.SHAPE_NAMES)
    place = sorted(rng.randrange(4) for _ in chain)
    return {'t': 'R', 'chain': chain, 'place': place, 'conf': rng.choice(CONFS), 'plan': rng.randrange(len(CD_PLANS)),
            'inc': rng.random() < 0.4, 'act': rng.random() < 0.5, 'cwd': rng.choice(['case', 'else']),
            'key': [depth, forms[0], shs[0]] + ['%s/%s' % (f, s) for f, s in zip(forms[1:], shs[1:])]}


def _w_use_direct(rel, n):
    sh = W_SHAPES[n % len(W_SHAPES)]
    if rel == 'dflt':
        return {'form': 'dflt', 'sfx': pm.shape(sh)}
    return {'form': 'opt', 'rel': rel, 'sfx': pm.shape(sh)}


def _w_case(n, chain, use, instr, phase, key):
    return {'t': 'W', 'chain': chain, 'use': use, 'instr': instr, 'phase': phase, 'conf': CONFS[n % len(CONFS)],
            'cd': n % 3, 'late': (n // 3) % 2 == 1, 'cwd': 'else' if (n // 2) % 2 else 'case', 'key': key}


def _rand_w(rng, depth):
    instr, phase = rng.choice(INSTRS), rng.choice(PHASES)
    if depth == 0:
        rel = rng.choice([r for r in BASE_RELS if r != 'abs'])
        return _w_case(rng.randrange(10 ** 6), [], _w_use_direct(rel, rng.randrange(100)), instr, phase, [rel])
    chain, forms, shs = _rand_chain(rng, depth, W_SHAPES)
    use = rng.choice(LINK_FORMS)
    c = _w_case(rng.randrange(10 ** 6), chain, _link_expr(use, 'P%d' % depth, rng.choice(W_SHAPES), ''), instr, phase,
                forms + [use])
    return c


# =====================================================================================================
# building the test case
# =====================================================================================================
def _conf(variant):
    """-> (lines of [conf], extra files, home dir rel. to case dir, act-home dir rel. to case dir)"""
    if variant == 'default':
        return [], {}, '', ''
    if variant == 'both':
        return ['[conf]', 'home = hd', 'act-home = ahd'], {}, 'hd', 'ahd'
    if variant == 'home':
        return ['[conf]', 'home = hd'], {}, 'hd', ''
    if variant == 'acthome':
        return ['[conf]', 'act-home = ahd'], {}, '', 'ahd'
    if variant == 'inc':  # settings in an included file are relative to the location of THAT file
        return ['[conf]', 'including cfg/conf.xly'], {'cfg/conf.xly': 'home = hd2\nact-home = ../ahd\n'}, 'cfg/hd2', 'ahd'
    raise ValueError(variant)


_HOME_DIRS = ['', 'hd', 'ahd', 'cfg/hd2']


def _home_files():
    fs = {'inc/placeholder.txt': 'p\n'}
    for hd in _HOME_DIRS:
        p = (hd + '/') if hd else ''
        fs[p + 'src.txt'] = 'src@%s\n' % hd
        fs[p + 'srcd/in.txt'] = 'in@%s\n' % hd
        fs[p + 'keep/me.txt'] = 'keep@%s\n' % hd
    return fs


def _string_defs():
    return ['def string %s = %s' % (n, pm.STRING_SYMBOLS[n][0]) for n in sorted(pm.STRING_SYMBOLS)]


def _probe_line(out, ident, args, act=False):
    return '%s%s %s %s %s' % ('' if act else '% ', probe.PROBE, out, probe.ctrl(id=ident), ' '.join(args))


def build_r(case, out):
    """-> (files, expectations)  expectations: list of (probe id, cd loc, [(label, kind, loc | None, text)])"""
    m = pm.Model()
    conf_lines, files, home, acthome = _conf(case['conf'])
    files.update(_home_files())
    L = list(conf_lines)
    L.append('[setup]')
    L += _string_defs()
    L += ['dir -rel-tmp w1/w2', 'dir -rel-act a1/a2']
    plan = CD_PLANS[case['plan']]
    chain, place = case['chain'], case['place']
    exp = []
    defined = []

    def defs_at(point):
        lines = []
        for k, (e, p) in enumerate(zip(chain, place)):
            if p == point:
                lines.append(('P%d' % (k + 1), e))
        return lines

    def emit_defs(point):
        ds = defs_at(point)
        if not ds:
            return
        if case['inc'] and point == 0:
            files['inc/defs.xly'] = ''.join('def path %s = %s\n' % (nm, pm.render(e, _ABS_OUT)) for nm, e in ds)
            L.append('including inc/defs.xly')
            for nm, e in ds:
                m.define(nm, e, 'inc')
        else:
            for nm, e in ds:
                L.append('def path %s = %s' % (nm, pm.render(e, _ABS_OUT)))
                m.define(nm, e, 'case')
        defined.extend(nm for nm, _ in ds)

    def emit_probe(ident, act=False, existing=False):
        args, items = [], []
        for nm in defined:
            args.append('@[%s]@' % nm)
            items.append((nm, 'path', m.locate({'form': 'plain', 'sym': nm}), ''))
        if defined:
            last = defined[-1]
            loc = m.locate({'form': 'plain', 'sym': last})
            args.append('"@[%s]@"' % last)
            items.append(('"%s"' % last, 'path', loc, ''))
            args.append('pre=@[%s]@/t' % last)
            items.append(('pre=%s/t' % last, 'concat', (loc[0], pm.join(loc[1], 't')), 'pre='))
        for b in BUILTINS:
            args.append('@[%s]@' % b)
            items.append((b, 'path', (pm.BUILTIN_PATH_SYMBOLS[b], ''), ''))
        if existing:
            for txt, loc in (('-existing-dir keep', ('home', 'keep')),
                             ('-existing-file -rel-act-home keep/me.txt', ('act-home', 'keep/me.txt')),
                             ('-existing-file -rel-home src.txt', ('home', 'src.txt')),
                             ('-existing-dir -rel-act a1', ('act', 'a1')),
                             ('-existing-dir -rel-tmp w1', ('tmp', 'w1')),
                             ('-existing-dir -rel-cd .', m.cd),
                             ('-existing-path -rel EXACTLY_TMP w1/w2', ('tmp', 'w1/w2')),
                             ('-existing-path @[EXACTLY_ACT_HOME]@/srcd/in.txt', ('act-home', 'srcd/in.txt'))):
                args.append(txt)
                items.append((txt, 'path', loc, ''))
        L.append(_probe_line(out, ident, args, act))
        exp.append((ident, m.cd, items))

    def emit_cd(k):
        txt, req, res = _CD[plan[k]]
        if txt is not None:
            assert req is None or req == m.cd
            L.append(txt)
            m.cd = res

    emit_defs(0)
    emit_probe('u0')
    emit_cd(0)
    emit_defs(1)
    emit_probe('u1', existing=True)
    if case['act']:
        L.append('[act]')
        emit_probe('act', act=True)
    L.append('[before-assert]')
    emit_cd(1)
    emit_defs(2)
    emit_probe('u2')
    L.append('[assert]')
    emit_cd(2)
    emit_defs(3)
    emit_probe('u3', existing=True)
    L.append('[cleanup]')
    emit_cd(3)
    emit_probe('u4')
    files['t.case'] = '\n'.join(L) + '\n'
    return files, exp, home, acthome


_ABS_OUT = {'out': '/c12-abs-root/x'}

_FILE_TEXT = 'c12 text'


def _instr_lines(instr, p, accepted):
    """-> (lines, expected object)  object: ('f', content) | ('d', {name: content}) ; `accepted`: pre-create for +="""
    if instr == 'file':
        return ['file ' + p], ('f', '')
    if instr == 'file=':
        return ['file %s = "%s"' % (p, _FILE_TEXT)], ('f', _FILE_TEXT)
    if instr == 'file+=':
        pre = ['file %s = "one"' % p] if accepted else []
        return pre + ['file %s += "two"' % p], ('f', 'onetwo')
    if instr == 'dir':
        return ['dir ' + p], ('d', {})
    if instr == 'dir=':
        return ['dir %s = {' % p, '  file inner.txt = "in"', '}'], ('d', {'inner.txt': 'in'})
    if instr == 'dir+=':
        pre = ['dir ' + p] if accepted else []
        return pre + ['dir %s += {' % p, '  file added.txt', '}'], ('d', {'added.txt': ''})
    if instr == 'copyf':
        return ['copy src.txt ' + p], ('f', ('home', 'src.txt'))
    if instr == 'copyd':
        return ['copy -rel-act-home srcd ' + p], ('d', {'in.txt': ('act-home', 'srcd/in.txt')})
    raise ValueError(instr)


def _w_skeleton(case, out, pre_defs, body):
    conf_lines, files, home, acthome = _conf(case['conf'])
    files.update(_home_files())
    L = list(conf_lines)
    L.append('[setup]')
    L += _string_defs()
    L.append(_probe_line(out, 'pre', []))
    L.append('dir -rel-tmp w1')
    L.append('dir -rel-act a1')
    L += pre_defs
    for ph in PHASES:
        if ph != 'setup':
            L.append('[%s]' % ph)
        if ph == case['phase']:
            L += body
            L.append(_probe_line(out, 'post', []))
    files['t.case'] = '\n'.join(L) + '\n'
    return files, home, acthome


def build_w(case, out):
    m = pm.Model()
    defs = []
    for k, e in enumerate(case['chain']):
        nm = 'P%d' % (k + 1)
        defs.append('def path %s = %s' % (nm, pm.render(e, _ABS_HOME_PLACEHOLDER)))
        m.define(nm, e, 'case')
    use = case['use']
    body = []
    cdk = case.get('cd', 0)
    if cdk == 1:
        body.append('cd -rel-tmp w1')
        m.cd = ('tmp', 'w1')
    elif cdk == 2:
        body.append('cd a1')
        m.cd = ('act', 'a1')
    direct = use['form'] in ('opt', 'dflt')
    if direct:
        rel = m.ultimate_relativity(use, 'creation')
        verdict = 'SYNTAX_ERROR' if rel in pm.CREATION_OPTION_REJECTED else 'PASS'
        assert verdict == 'SYNTAX_ERROR' or rel in pm.CREATION_ACCEPTED
    else:
        rel = m.ultimate_relativity(use, 'creation')
        verdict = 'VALIDATION_ERROR' if rel in pm.CREATION_SYMBOL_REJECTED else 'PASS'
        assert verdict == 'VALIDATION_ERROR' or rel in pm.CREATION_ACCEPTED
    lines, obj = _instr_lines(case['instr'], pm.render(use, _ABS_HOME_PLACEHOLDER), verdict == 'PASS')
    pre_defs = []
    if case.get('late'):
        body += defs
    else:
        pre_defs = defs
    body += lines
    files, home, acthome = _w_skeleton(case, out, pre_defs, body)
    loc = m.locate(use, 'creation') if verdict == 'PASS' else None
    return files, home, acthome, {'verdict': verdict, 'rel': rel, 'loc': loc, 'obj': obj}


# the 'abs' base in W cases points INTO the home directory (a symbol with that value must be rejected)
_ABS_HOME_PLACEHOLDER = {'out': '$HOME$/absbase'}


def build_k(case, out):
    """Absolute file name under a relativity / via a string symbol.  -> files, home, acthome, info"""
    kform, instr = case['kform'], case['instr']
    H = '$HOME$' if case['which'] == 'home' else '$ACTHOME$'
    T = 'src.txt' if instr == 'file+=' else 'srcd' if instr == 'dir+=' else 'esc-c12'
    sa = 'def string SA = ' + H
    defs = []
    target_rel = T  # relative to the chosen home directory
    if kform in ('opt-act', 'opt-tmp', 'opt-cd'):
        p = '%s %s/%s' % (pm.REL_OPTION[kform[4:]], H, T)
        group = 'with-relativity'
    elif kform == 'literal':
        p = '%s/%s' % (H, T)
        group = 'no-relativity'
    elif kform == 'opt-strsym':
        defs, p, group = [sa], '-rel-tmp @[SA]@/%s' % T, 'with-relativity'
    elif kform == 'dflt-strsym':
        defs, p, group = [sa], '@[SA]@/%s' % T, 'no-relativity'
    elif kform == 'relsym-abs-sfx':
        defs, p, group = ['def path PK = -rel-act kx'], '-rel PK %s/%s' % (H, T), 'with-relativity'
    elif kform.startswith('sym-rel-act-strsym:'):
        defs = [sa, 'def path PK = -rel-act @[SA]@']
        p = ('-rel PK %s' % T) if kform.endswith(':relsym') else '@[PK]@/%s' % T
        group = 'with-relativity'
    elif kform == 'sym-rel-act-abs:relsym':
        defs, p, group = ['def path PK = -rel-act %s' % H], '-rel PK %s' % T, 'with-relativity'
    elif kform == 'sym-dflt-strsym:relsym':
        defs, p, group = [sa, 'def path PK = @[SA]@'], '-rel PK %s' % T, 'no-relativity'
    elif kform.startswith('sym2-rel-tmp-strsym:'):
        defs = [sa, 'def path PK = -rel-tmp @[SA]@']
        if kform.endswith(':relsym'):
            defs.append('def path PK2 = @[PK]@')
            p = '-rel PK2 %s' % T
        else:
            defs.append('def path PK2 = -rel PK %s' % T)
            p = '@[PK2]@'
        group = 'with-relativity'
    else:
        raise ValueError(kform)
    lines, obj = _instr_lines(instr, p, False)
    files, home, acthome = _w_skeleton(case, out, defs, lines)
    return files, home, acthome, {'group': group, 'target': target_rel, 'obj': obj, 'path_arg': p, 'defs': defs}


# =====================================================================================================
# monitors
# =====================================================================================================
_W1 = ('open-w', 'os.mkdir', 'os.rmdir', 'os.remove', 'os.chmod', 'os.truncate', 'os.utime', 'os.chown',
       'shutil.rmtree', 'tempfile.mkdtemp', 'tempfile.mkstemp')
_W2 = ('shutil.copyfile', 'shutil.copytree', 'shutil.copymode', 'shutil.copystat', 'os.symlink', 'os.link')
_W12 = ('os.rename', 'shutil.move')


def m1_write_targets(audit, cwd0):
    """Absolute paths written/created/removed/changed according to the M1 events (relative ones resolved against
    the chdir history)."""
    cwd = cwd0
    out = []

    def ab(p):
        if not isinstance(p, str):
            return None
        return os.path.normpath(p if os.path.isabs(p) else os.path.join(cwd, p))

    for ev in audit:
        name = ev[0]
        if name == 'os.chdir':
            t = ab(ev[1])
            if t:
                cwd = t
            continue
        ts = []
        if name in _W1:
            ts = [ev[1]]
        elif name in _W2:
            ts = [ev[2]] if len(ev) > 2 else []
        elif name in _W12:
            ts = [ev[1], ev[2]] if len(ev) > 2 else [ev[1]]
        for t in ts:
            a = ab(t)
            if a:
                out.append((name, a))
    return out


def _below(p, root):
    return p == root or p.startswith(root + '/')


def _diff(before, after):
    added = sorted(k for k in after if k not in before)
    removed = sorted(k for k in before if k not in after)
    changed = sorted(k for k in after if k in before and before[k] != after[k])
    return {'added': added, 'removed': removed, 'changed': changed}


def _read(p):
    try:
        with open(p, 'rb') as f:
            return f.read().decode('utf-8', 'replace')
    except OSError as ex:
        return '<unreadable: %s>' % ex


# =====================================================================================================
# execution
# =====================================================================================================
def run_case(case, ctx):
    ses = ctx.get_session()
    out = os.path.join(ses.io_dir, 'c12-probe.jsonl')
    try:
        os.remove(out)
    except OSError:
        pass
    d = os.path.realpath(ses.new_case_dir({}))
    t = case['t']
    info = None
    if t == 'R':
        files, exp, home, acthome = build_r(case, out)
    elif t == 'W':
        files, home, acthome, info = build_w(case, out)
        exp = None
    else:
        files, home, acthome, info = build_k(case, out)
        exp = None
    home_abs = os.path.normpath(os.path.join(d, home))
    acthome_abs = os.path.normpath(os.path.join(d, acthome))
    for k in list(files):
        if isinstance(files[k], str):
            files[k] = files[k].replace('$HOME$', home_abs).replace('$ACTHOME$', acthome_abs)
    write_files(d, files)
    case_text = files['t.case']
    elsewhere = os.path.join(ctx.scratch, 'c12-elsewhere')
    os.makedirs(elsewhere, exist_ok=True)
    run_cwd = d if case.get('cwd') == 'case' else elsewhere
    before = snapshot_tree(d)
    r = ses.run(['--keep', os.path.join(d, 't.case')], cwd=run_cwd, mode='keep')
    after = snapshot_tree(d)
    viol, inconc = [], []
    ident = first_line(r.err)
    observed = {'rc': r.rc, 'ident': ident, 'stdout': r.out[:300], 'stderr': r.err[:1500], 'exc': r.exc}
    label = '%s %s' % (t, '/'.join(str(x) for x in (case.get('key') or [case.get('kform'), case.get('instr')])))

    def bad(msg, **detail):
        dd = {'case_text': case_text, 'observed': observed}
        dd.update(detail)
        viol.append({'what': 'C12 %s: %s' % (label, msg), 'detail': dd})

    sample = None
    classes = []
    if r.timed_out:
        inconc.append('watchdog')
    elif r.exc is not None:
        bad('exception escaped MainProgram.execute')
    else:
        # ---- M8 + M1 on the home directories: in EVERY case ----------------------------------
        hd = _diff(before, after)
        ctx.count('c12.home_snapshots_compared')
        writes = m1_write_targets(r.audit, r.cwd_before)
        ctx.count('c12.m1_events_checked', len(r.audit))
        below = sorted({'%s %s' % (n, os.path.relpath(p, d)) for n, p in writes if _below(p, d)})
        observed['home_diff'] = hd
        observed['m1_writes_below_home'] = below
        sds = r.out[:-1] if r.out.endswith('\n') else r.out
        recs = probe.read_records(out)
        observed['probe_ids'] = [x['id'] for x in recs]
        home_changed = any(hd.values()) or bool(below)
        if t == 'K':
            classes, sample = _judge_k(case, ctx, info, d, home, acthome, hd, below, home_changed, ident, r, recs, bad,
                                       case_text)
        else:
            if home_changed:
                bad('home directories were modified', home_diff=hd, m1_writes_below_home=below)
            if t == 'R':
                classes, sample = _judge_r(case, ctx, exp, d, home_abs, acthome_abs, sds, ident, r, recs, bad,
                                           case_text)
            else:
                classes, sample = _judge_w(case, ctx, info, d, home_abs, acthome_abs, sds, ident, r, recs, bad,
                                           case_text)
    ses.clean_tmp()
    ses.drop(d)
    res = {'classes': classes, 'viol': viol, 'inconclusive': inconc}
    if sample is not None:
        res['sample'] = sample
    return res


def _roots(d, home_abs, acthome_abs, sds):
    roots = {'home': home_abs, 'act-home': acthome_abs, 'case': d, 'inc': os.path.join(d, 'inc'),
             'abs:out': _ABS_OUT['out']}
    for k, sub in pm.SDS_SUBDIR.items():
        roots[k] = os.path.join(sds, sub)
    return roots


def _conf_class(conf):
    return 'conf-default' if conf == 'default' else 'conf-set'


def _sds_ok(sds, r, ses_tmp_entries):
    return bool(sds) and os.path.isabs(sds) and os.path.isdir(sds) and os.path.basename(sds) in ses_tmp_entries


def _judge_r(case, ctx, exp, d, home_abs, acthome_abs, sds, ident, r, recs, bad, case_text):
    key = ('R',) + tuple(case['key']) + (_conf_class(case['conf']),)
    if ident != 'PASS' or r.rc != 0:
        bad('a case that only defines and renders paths must PASS, got %s/%s' % (ident, r.rc))
        return [key], None
    if not _sds_ok(sds, r, r.new_tmp_entries):
        bad('--keep did not print the sandbox directory created by this run: %r' % sds)
        return [key], None
    roots = _roots(d, home_abs, acthome_abs, sds)
    by_id = {}
    for x in recs:
        by_id.setdefault(x['id'], []).append(x)
    sample_items = []
    for ident_, cd, items in exp:
        rs = by_id.get(ident_, [])
        if len(rs) != 1:
            bad('use point %s: expected exactly one probe record, got %d' % (ident_, len(rs)))
            continue
        rec = rs[0]
        exp_cd = pm.absolute(cd, roots)
        ctx.count('c12.probe_cwd_compared')
        if pm.norm_abs(rec['cwd']) != exp_cd:
            bad('use point %s: the process was started in %r, the current directory is %r' % (ident_, rec['cwd'],
                                                                                              exp_cd),
                use_point=ident_, expected=exp_cd, got=rec['cwd'])
        argv = rec['argv']
        if len(argv) != len(items):
            bad('use point %s: %d arguments rendered, %d expected' % (ident_, len(argv), len(items)),
                use_point=ident_, argv=argv)
            continue
        for (lab, kind, loc, prefix), got in zip(items, argv):
            want = pm.absolute(loc, roots)
            ctx.count('c12.renderings_compared')
            if kind == 'concat':
                ok = got.startswith(prefix) and pm.norm_abs(got[len(prefix):]) == want
                want_s = prefix + want
            else:
                ok = got.startswith('/') and pm.norm_abs(got) == want
                want_s = want
            if not ok:
                bad('use point %s (cd=%s/%s): %s rendered %r, expected %r = root(%s) + %r'
                    % (ident_, cd[0], cd[1], lab, got, want_s, loc[0], loc[1]),
                    use_point=ident_, symbol=lab, expected=want_s, got=got, root=loc[0], suffix=loc[1],
                    cd=list(cd))
            if lab.startswith('P') and len(sample_items) < 6:
                sample_items.append({'use_point': ident_, 'cd': '%s/%s' % cd, 'symbol': lab, 'expected': want_s,
                                     'observed': got})
    sample = None
    if len(case['chain']) >= 2 and case['chain'][0].get('rel') == 'cd':
        sample = {'kind': 'R', 'case_text': case_text.replace(probe.PROBE, 'PROBE'), 'comparisons': sample_items}
    return [key], sample


def _check_object(path, obj, roots):
    """-> None | problem text"""
    kind, content = obj
    if kind == 'f':
        if not os.path.isfile(path) or os.path.islink(path):
            return 'no regular file at %s' % path
        want = _read(pm.absolute(content, roots)) if isinstance(content, tuple) else content
        got = _read(path)
        if got != want:
            return 'file %s has contents %r, expected %r' % (path, got[:80], want[:80])
        return None
    if not os.path.isdir(path) or os.path.islink(path):
        return 'no directory at %s' % path
    names = sorted(os.listdir(path))
    if names != sorted(content):
        return 'directory %s contains %r, expected %r' % (path, names, sorted(content))
    for n, c in content.items():
        want = _read(pm.absolute(c, roots)) if isinstance(c, tuple) else c
        got = _read(os.path.join(path, n))
        if got != want:
            return 'file %s/%s has contents %r, expected %r' % (path, n, got[:80], want[:80])
    return None


def _judge_w(case, ctx, info, d, home_abs, acthome_abs, sds, ident, r, recs, bad, case_text):
    verdict = info['verdict']
    key = ('W', case['instr'], case['phase']) + tuple(case['key']) + (verdict,)
    ids = [x['id'] for x in recs]
    ctx.count('c12.creation_verdicts_compared')
    sample = None
    if verdict != 'PASS':
        if ident != verdict or r.rc != 65:
            bad('creation argument with relativity %r must be rejected with %s/65, got %s/%s'
                % (info['rel'], verdict, ident, r.rc), expected=verdict)
        if ids:
            bad('rejected before execution, yet instructions were executed (probe records %r)' % ids,
                expected=verdict)
        if r.new_tmp_entries or r.out != '':
            bad('rejected before execution, yet a sandbox exists: %r' % (r.new_tmp_entries or r.out),
                expected=verdict)
        if case['phase'] == 'assert' and case['instr'] == 'file' and len(case['chain']) == 2:
            sample = {'kind': 'W-rejected', 'case_text': case_text.replace(probe.PROBE, 'PROBE'),
                      'expected': {'ident': verdict, 'rc': 65, 'executed': [], 'home': 'unchanged'},
                      'observed': {'ident': ident, 'rc': r.rc, 'executed': ids}}
        return [key], sample
    if ident != 'PASS' or r.rc != 0:
        bad('creation argument with relativity %r is accepted by the manual, got %s/%s' % (info['rel'], ident, r.rc),
            expected='PASS')
        return [key], None
    if ids != ['pre', 'post']:
        bad('expected the instructions before and after the creation to run once each, probe records %r' % ids)
    if not _sds_ok(sds, r, r.new_tmp_entries):
        bad('--keep did not print the sandbox directory created by this run: %r' % sds)
        return [key], None
    roots = _roots(d, home_abs, acthome_abs, sds)
    roots['abs:out'] = home_abs + '/absbase'
    target = pm.absolute(info['loc'], roots)
    ctx.count('c12.created_objects_located')
    pr = _check_object(target, info['obj'], roots)
    if pr is not None:
        snap = sorted(k for k in snapshot_tree(sds) if not k.startswith('internal'))
        bad('%s did not create its object at root(%s) + %r: %s' % (case['instr'], info['loc'][0], info['loc'][1], pr),
            expected=target, sandbox_contents=snap[:40])
    if case['phase'] == 'before-assert' and case['instr'] == 'copyf' and len(case['chain']) == 2:
        sample = {'kind': 'W-accepted', 'case_text': case_text.replace(probe.PROBE, 'PROBE'),
                  'expected': {'ident': 'PASS', 'object_at': target}, 'observed': {'ident': ident, 'problem': pr}}
    return [key], sample


def _judge_k(case, ctx, info, d, home, acthome, hd, below, home_changed, ident, r, recs, bad, case_text):
    ctx.count('c12.k_class_cases')
    ctx.count('c12.creation_verdicts_compared')
    ids = [x['id'] for x in recs]
    key = ('K', case['kform'], case['instr'], ident)
    hrel = home if case['which'] == 'home' else acthome
    target = os.path.normpath(os.path.join(hrel, info['target']))  # relative to the case dir
    # what the documented defect (doc/BUGS.rst: "When PathPart is absolute THEN PathDdv will be absolute") would do
    obj = info['obj']
    if case['instr'] in ('file+=',):
        predicted = {'added': [], 'removed': [], 'changed': [target]}
    else:
        inner = sorted(os.path.join(target, n) for n in obj[1]) if obj[0] == 'd' else []
        predicted = {'added': sorted([target] + inner), 'removed': [], 'changed': []}
    problems = []
    if ident not in ('SYNTAX_ERROR', 'VALIDATION_ERROR') or r.rc != 65:
        problems.append('an absolute file name %s must be rejected before execution (manual: "If FILE-NAME is an '
                        'absolute path, then RELATIVITY must not be given"; creation accepts only act/tmp/cd), '
                        'got %s/%s' % ('combined with a relativity' if info['group'] == 'with-relativity'
                                       else 'as creation target', ident, r.rc))
    if home_changed:
        problems.append('home directory modified: %r' % hd)
    if ident in ('SYNTAX_ERROR', 'VALIDATION_ERROR') and (ids or r.new_tmp_entries):
        problems.append('rejected, yet executed: probes %r sandbox %r' % (ids, r.new_tmp_entries))
    if problems:
        bad('; '.join(problems), kind='abs-escape', group=info['group'], kform=case['kform'], instr=case['instr'],
            path_argument=info['path_arg'], defs=info['defs'], predicted_defect=predicted, target=target,
            probe_ids=ids)
    sample = None
    if case['kform'] == 'opt-act' and case['instr'] == 'file=':
        sample = {'kind': 'K', 'case_text': case_text.replace(probe.PROBE, 'PROBE'),
                  'expected': {'ident': 'SYNTAX_ERROR or VALIDATION_ERROR', 'home': 'unchanged'},
                  'observed': {'ident': ident, 'home_diff': hd, 'm1_writes_below_home': below}}
    return [key], sample


# =====================================================================================================
# known findings (keyed by mechanism: input class AND the specific defective observation)
# =====================================================================================================
def _is_exact_escape(v, group):
    """The witness is: class K with the given group, the case PASSed (so the instruction was executed), and the ONLY
    effect on the home directories is the creation/modification of exactly the object the absolute file name
    designates (plus its documented contents) -- anything else on these inputs stays a violation."""
    dd = v.get('detail') or {}
    if dd.get('kind') != 'abs-escape' or dd.get('group') != group:
        return False
    ob = dd.get('observed') or {}
    if ob.get('ident') != 'PASS' or ob.get('rc') != 0 or ob.get('exc') is not None:
        return False
    if dd.get('probe_ids') != ['pre', 'post']:
        return False
    pred = dd.get('predicted_defect') or {}
    hd = ob.get('home_diff') or {}
    for k in ('added', 'removed', 'changed'):
        if sorted(hd.get(k, [])) != sorted(pred.get(k, ['<none>'])):
            return False
    target = dd.get('target')
    for w in ob.get('m1_writes_below_home', []):
        p = w.split(' ', 1)[1]
        if not (p == target or p.startswith(target + '/')):
            return False
    return True


KNOWN = {
    # doc/BUGS.rst "When PathPart is absolute THEN PathDdv will be absolute": -rel-act /abs/home/x, -rel SYM /abs,
    # -rel-tmp @[ABS_STRING]@, and path symbols defined that way, are accepted by file/dir/copy and written at /abs
    'abs-file-name-under-relativity-escapes-root': lambda v: _is_exact_escape(v, 'with-relativity'),
    # an absolute path WITHOUT relativity (literal, or a leading string symbol holding one, or a symbol defined so with
    # the default relativity) is accepted as creation target although creation accepts only act/tmp/cd
    'abs-path-via-default-relativity-accepted-for-creation': lambda v: _is_exact_escape(v, 'no-relativity'),
}
