"""C12 Paths resolve under their relativity root; home directories are write-protected (D1, M1, M7, M8).

Three kinds of generated test cases, all run through the real CLI with --keep (to learn the sandbox root):

 R  resolution:  a chain of `def path` (depth 1..3) is rendered by the probe (`% PROBE OUT CTRL @[P]@ ...`) at five
    use points (setup before/after a `cd`, [act], before-assert, assert, cleanup, each after another `cd`) and every
    rendered argument must equal root(relativity) joined with the suffix computed by vf.models.paths (manual-derived).
 W  write protection:  `file`/`dir`/`copy` (8 forms) x phase x (option | symbol through a chain): documented verdict
    (SYNTAX_ERROR for a forbidden option, VALIDATION_ERROR for a symbol with forbidden ultimate relativity, nothing
    executed; PASS + object created exactly at root/suffix otherwise), home directories unchanged (M8), no M1 write
    event below them.
 K  absolute FILE-NAME combined with a relativity / smuggled in through a string symbol (separately labelled class;
    doc/BUGS.rst): must be rejected, home directories unchanged.
"""
import os

from vf import common, probe
from vf.driver import first_line, snapshot_tree, write_files
from vf.models import paths as pm

ID = 'C12'
LEVEL = 'exploration'
RULE = ('R cases (4 independent chains share one test-case execution; evaluations counts chains): '
        '(base relativity option/default/absolute/builtin symbol x suffix shape) x (link form -rel SYM | '
        '@[SYM]@/sfx | @[SYM]@ x suffix shape) chains, rendered at 5-6 use points with different current directories; '
        'class key = (R, depth, base, base shape, link forms+shapes, conf variant class).  W cases: creation '
        'instruction form x phase x base x link forms; class key = (W, instruction, phase, base, links, documented '
        'verdict).  K cases: (K, absolute-suffix form, instruction, observed verdict).  A case is non-trivial when the '
        'CLI returned and at least one rendered path / one creation verdict + home snapshot was compared with the '
        'value computed from the hard-coded relativity->root table')
ASSUMPTIONS = [
    'roots are learnt from the same run: sandbox = the line `--keep` prints (sub directories act/ tmp/ result/ are '
    'hard-coded from `help concept sandbox`), home/act-home = the case directory unless [conf] home=/act-home= '
    '(relative to the source file holding the setting)',
    'path equality is lexical after removal of "." and empty components only; no ".." component and no symbolic '
    'link is generated (the manual does not say whether paths are normalised)',
    'an absolute FILE-NAME together with a relativity has no meaning defined by the manual ("RELATIVITY must not be '
    'given"); it is generated only in the K class where the only demands are rejection and unchanged home directories',
    '`file` creates missing intermediate directories (documented for dir/copy/FILE-SPEC; for `file` shown by '
    'examples/intro/misc-instructions/dir-contents/recursive.case)',
    'reading usages are observed through `-existing-dir/-existing-file/-existing-path PATH` program arguments with '
    'existing targets and through the source of `copy` (content of the copied file); other reading instructions '
    '(contents, exists, dir-contents, -contents-of) are left to C05/C15',
    'the sandbox runs as root: protection is judged by Exactly refusing the instruction, not by file permissions',
]
EXHAUSTIVE_NOTE = ('R: every base (9 relativities x 8 suffix shapes + 5 builtin symbols x 3 reference forms = 87) alone '
                   '(depth 1) and under every link (-rel SYM | @[SYM]@/sfx x 8 shapes, @[SYM]@ = 17) (depth 2) = 1566 '
                   'chains; W: (file, dir, copy-file x 4 phases + their 5 variants `=`, `+=`, copy-dir with the phase '
                   'rotating) x (8 direct relativities + 14 bases x 3 use links) and 8 instruction forms x 14 bases x '
                   '3 x 3 links (depth 2, phase rotating); K: 13 absolute-file-name '
                   'forms x 7 instruction forms x {home, act-home} -- identical in both tiers, independent of the '
                   'seed; the dimensions conf variant, cd plan, placement of the definitions, included file, process '
                   'cwd rotate deterministically')
MIN_OBS = {
    'quick': {'evaluations': 4000, 'classes': 3000, 'c12.renderings_compared': 45000,
              'c12.probe_cwd_compared': 2200, 'c12.creation_verdicts_compared': 2200,
              'c12.created_objects_located': 900, 'c12.home_snapshots_compared': 2600,
              'c12.m1_events_checked': 50000, 'c12.k_class_cases': 180},
    'thorough': {'evaluations': 18000, 'classes': 6000, 'c12.renderings_compared': 220000,
                 'c12.probe_cwd_compared': 10000, 'c12.creation_verdicts_compared': 9000,
                 'c12.created_objects_located': 4000, 'c12.home_snapshots_compared': 11000,
                 'c12.m1_events_checked': 250000, 'c12.k_class_cases': 450},
}

PHASES = ['setup', 'before-assert', 'assert', 'cleanup']
CONFS = ['default', 'both', 'home', 'acthome', 'inc']
BASE_RELS = ['home', 'act-home', 'act', 'tmp', 'result', 'cd', 'here', 'dflt', 'abs']
BUILTINS = sorted(pm.BUILTIN_PATH_SYMBOLS)
LINK_FORMS = ['relsym', 'lead', 'plain']
INSTRS = ['file', 'file=', 'file+=', 'dir', 'dir=', 'dir+=', 'copyf', 'copyd']
W_BASIC = ('file', 'dir', 'copyf')
W_SHAPES = ['plain', 'nested', 'sref', 'mixed', 'sslash', 'softq', 'hardq']  # never 'dot' for an object to create

# cd plans: one optional `cd` before use points u1..u4; (source text, required cd | None, resulting cd)
_CD = {
    'tmp-w1': ('cd -rel-tmp w1', None, ('tmp', 'w1')),
    'tmp-w1w2': ('cd -rel-tmp w1/w2', None, ('tmp', 'w1/w2')),
    'tmp': ('cd -rel-tmp .', None, ('tmp', '')),
    'act': ('cd -rel-act .', None, ('act', '')),
    'act-a1': ('cd -rel-act a1', None, ('act', 'a1')),
    'w2': ('cd w2', ('tmp', 'w1'), ('tmp', 'w1/w2')),
    'cd-a1': ('cd -rel-cd a1', ('act', ''), ('act', 'a1')),
    'a2': ('cd a2', ('act', 'a1'), ('act', 'a1/a2')),
    'sym-w1': ('cd @[EXACTLY_TMP]@/w1', None, ('tmp', 'w1')),
    'relsym-a1a2': ('cd -rel EXACTLY_ACT a1/a2', None, ('act', 'a1/a2')),
    None: (None, None, None),
}
CD_PLANS = [
    ['tmp-w1', 'w2', 'act', 'tmp'],
    ['act-a1', 'a2', 'tmp-w1w2', None],
    ['cd-a1', 'tmp', None, 'act'],
    ['tmp', 'act-a1', 'a2', 'tmp-w1'],
    ['sym-w1', 'relsym-a1a2', 'tmp-w1', 'w2'],
    ['tmp-w1w2', None, 'act-a1', 'tmp'],
]


def _check_plans():
    for plan in CD_PLANS:
        cd = ('act', '')
        seen = {cd}
        for k in plan:
            txt, req, res = _CD[k]
            if txt is None:
                continue
            assert req is None or req == cd, plan
            cd = res
            seen.add(cd)
        assert len(seen) >= 3, plan


_check_plans()


# =====================================================================================================
# generation
# =====================================================================================================
def _base_expr(kind, shape_name, tag=''):
    """kind: one of BASE_RELS, or 'B:<BUILTIN>:<link form>'."""
    if kind.startswith('B:'):
        _, sym, form = kind.split(':')
        if form == 'plain':
            return {'form': 'plain', 'sym': sym}
        return {'form': form, 'sym': sym, 'sfx': pm.shape(shape_name, tag)}
    if kind == 'dflt':
        return {'form': 'dflt', 'sfx': pm.shape(shape_name, tag)}
    if kind == 'abs':
        return {'form': 'abs', 'root': 'out', 'sfx': pm.shape(shape_name, tag)}
    return {'form': 'opt', 'rel': kind, 'sfx': pm.shape(shape_name, tag)}


def _link_expr(form, sym, shape_name, tag):
    if form == 'plain':
        return {'form': 'plain', 'sym': sym}
    return {'form': form, 'sym': sym, 'sfx': pm.shape(shape_name, tag)}


def _all_bases():
    """(kind, shape) for the exhaustive core of R."""
    for rel in BASE_RELS:
        for sh in pm.SHAPE_NAMES:
            yield rel, sh
    i = 0
    for b in BUILTINS:
        for form in LINK_FORMS:
            i += 1
            yield 'B:%s:%s' % (b, form), pm.SHAPE_NAMES[i % len(pm.SHAPE_NAMES)]


def _all_links():
    for form in ('relsym', 'lead'):
        for sh in pm.SHAPE_NAMES:
            yield form, sh
    yield 'plain', None


_REF_SHAPES = ('sref', 'mixed', 'sslash', 'softq')


def _w_base_label(base, sh):
    """An absolute path that contains a symbol reference is its own class (see KNOWN)."""
    return 'abs-with-symref' if (base == 'abs' and sh in _REF_SHAPES) else base


def _w_bases():
    for rel in BASE_RELS:
        yield rel
    for b in BUILTINS:
        yield 'B:%s:relsym' % b


K_FORMS = ['opt-act', 'opt-tmp', 'opt-cd', 'literal', 'opt-strsym', 'dflt-strsym', 'relsym-abs-sfx',
           'sym-rel-act-strsym:relsym', 'sym-rel-act-strsym:lead', 'sym-rel-act-abs:relsym',
           'sym-dflt-strsym:relsym', 'sym2-rel-tmp-strsym:relsym', 'sym2-rel-tmp-strsym:plain']
K_INSTRS = ['file', 'file=', 'file+=', 'dir', 'dir=', 'copyf', 'copyd']


def _s_cases():
    """S: the SAME path symbol used twice in one instruction -- as source (any relativity is legal) and as
    destination (only act/tmp/cd): the restriction of every reference must be applied, not only the first one's."""
    i = 0
    for base in ('home', 'act-home', 'here', 'act', 'tmp'):
        # sep-*: a legal reading reference in an EARLIER instruction ([setup]), the creating reference in a later one
        for form in ('lead', 'relsym', 'mixed', 'sep-file', 'sep-dir', 'sep-copy'):
            for depth in (1, 2):
                for phase in ('setup', 'before-assert', 'cleanup'):
                    i += 1
                    yield {'t': 'S', 'base': base, 'form': form, 'depth': depth, 'phase': phase,
                           'cwd': 'case' if i % 2 else 'elsewhere'}


def _d_cases():
    """D: a PATH symbol (relative to a home directory, or absolute) that reaches the suffix of a creating argument
    through 1..4 string definitions: a symbol used as a path component must be a string all the way down - otherwise the
    suffix would be an absolute path and the object would be created outside the sandbox.  Controls: strings all the
    way down (must PASS, created under the root)."""
    i = 0
    for base in ('home', 'act-home', 'here', 'abs-outside', 'string'):
        for depth in (1, 2, 3, 4):
            for instr in ('file', 'dir', 'copy', 'file-lead'):
                for rel in ('-rel-act', '-rel-tmp', ''):
                    i += 1
                    if i % 2 and depth in (1, 3) and base != 'string':
                        continue  # half of the odd depths: keeps the quick tier small
                    yield {'t': 'D', 'base': base, 'depth': depth, 'instr': instr, 'rel': rel,
                           'phase': ('setup', 'before-assert', 'cleanup')[i % 3]}


def run_d(case, ctx):
    ses = ctx.get_session()
    d = os.path.realpath(ses.new_case_dir({'src.txt': 'source text', 'victim/keep.txt': 'k'}))
    outside = os.path.join(ctx.scratch, 'c12-outside-%d' % os.getpid())
    os.makedirs(outside, exist_ok=True)
    base = case['base']
    first = {'home': 'def path P0 = -rel-home victim', 'act-home': 'def path P0 = -rel-act-home victim',
             'here': 'def path P0 = -rel-here victim', 'abs-outside': 'def path P0 = ' + outside,
             'string': 'def string P0 = plain-dir'}[base]
    defs = [first]
    x = 'P0'
    for k in range(1, case['depth'] + 1):
        defs.append('def string S%d = %s' % (k, ['@[%s]@/l%d', 'p%d-@[%s]@'][0] % (x, k)))
        x = 'S%d' % k
    rel = (case['rel'] + ' ') if case['rel'] else ''
    instr = {'file': 'file %s@[%s]@/x.txt = "hello"' % (rel, x),
             'dir': 'dir %s@[%s]@/newdir' % (rel, x),
             'copy': 'copy -rel-home src.txt %s@[%s]@' % (rel, x),
             'file-lead': 'file %sok/@[%s]@/y.txt = "hello"' % (rel, x)}[case['instr']]
    L = ['[setup]'] + defs
    if case['phase'] == 'setup':
        L += [instr, '[act]', '$ true']
    else:
        L += ['[act]', '$ true', '[%s]' % case['phase'], instr]
    text = '\n'.join(L) + '\n'
    with open(os.path.join(d, 't.case'), 'w') as f:
        f.write(text)
    before = snapshot_tree(d)
    before_out = snapshot_tree(outside)
    r = ses.run(['--keep', os.path.join(d, 't.case')], cwd=d, mode='keep')
    after = snapshot_tree(d)
    after_out = snapshot_tree(outside)
    viol, inconc = [], []
    ident = first_line(r.err)
    label = 'D %s through %d string definition(s), %s %s in [%s]' % (base, case['depth'], case['instr'],
                                                                      case['rel'] or '(default relativity)', case['phase'])

    def bad(msg):
        viol.append({'what': 'C12 %s: %s' % (label, msg),
                     'detail': {'case_text': text, 'observed': {'rc': r.rc, 'ident': ident, 'stderr': r.err[:800]}}})

    if r.timed_out:
        inconc.append('watchdog')
    elif r.exc is not None:
        bad('exception escaped MainProgram.execute')
    else:
        ctx.count('c12.creation_verdicts_compared')
        ctx.count('c12.home_snapshots_compared')
        ctx.count('c12.path_symbol_in_suffix_checks')
        hd = _diff(before, after)
        od = _diff(before_out, after_out)
        if any(hd.values()):
            bad('home directories modified: %r' % (hd,))
        if any(od.values()):
            bad('a directory outside the sandbox was modified: %r' % (od,))
        if base == 'string':
            if not (r.rc == 0 and ident == 'PASS'):
                bad('strings all the way down are a legal path suffix: must PASS, got %s/%r' % (ident, r.rc))
        else:
            if not (r.rc == 65 and ident == 'VALIDATION_ERROR'):
                bad('a path symbol reached through string definitions inside the suffix of a creating argument must be '
                    'rejected before execution (VALIDATION_ERROR/65), got %s/%r' % (ident, r.rc))
            if r.new_tmp_entries or any(e[0] == 'tempfile.mkdtemp' for e in r.audit):
                bad('a sandbox was created although the case must be rejected before execution')
    if base == 'string' and r.out.strip() and os.path.isdir(r.out.strip()):
        pass
    ses.clean_tmp()
    ses.drop(d)
    return {'classes': [('D', base, case['depth'], case['instr'], case['rel'], case['phase'])], 'viol': viol,
            'inconclusive': inconc}


def _l_cases():
    """L: a LEADING path-symbol reference (root act / tmp) followed by a suffix that starts with one more slash, written
    literally or brought in by a string symbol whose value is an absolute path into the home directory / a directory
    outside: the suffix is joined to the symbol's path - nothing may be created outside the sandbox."""
    i = 0
    for root in ('-rel-act', '-rel-tmp'):
        for form in ('literal', 'strsym', 'strsym-direct', 'via-path-def', 'copy-dst', 'dir', 'soft-quoted'):
            for target in ('home', 'outside'):
                i += 1
                yield {'t': 'L', 'root': root, 'form': form, 'target': target,
                       'phase': ('setup', 'before-assert', 'cleanup')[i % 3]}


def run_l(case, ctx):
    ses = ctx.get_session()
    d = os.path.realpath(ses.new_case_dir({'src.txt': 'source text', 'victim/keep.txt': 'k'}))
    outside = os.path.join(ctx.scratch, 'c12-outside-l-%d' % os.getpid())
    os.makedirs(outside, exist_ok=True)
    tgt = os.path.join(d, 'victim') if case['target'] == 'home' else outside
    defs = ['def path P = %s base' % case['root'], 'def string S = ' + tgt]
    form = case['form']
    if form == 'literal':
        instr = 'file @[P]@/%s/../%s/x.txt = "hello"' % (tgt, os.path.basename(tgt))
    elif form == 'soft-quoted':
        instr = 'file "@[P]@/%s/x.txt" = "hello"' % tgt
    elif form == 'strsym':
        instr = 'file @[P]@/@[S]@/x.txt = "hello"'
    elif form == 'strsym-direct':
        instr = 'file @[P]@/@[S]@ = "hello"'
    elif form == 'via-path-def':
        defs.append('def path Q = @[P]@/@[S]@')
        instr = 'file @[Q]@/x.txt = "hello"'
    elif form == 'copy-dst':
        instr = 'copy -rel-home src.txt @[P]@/@[S]@/copied.txt'
    else:
        instr = 'dir @[P]@/@[S]@/newdir'
    L = ['[setup]'] + defs
    if case['phase'] == 'setup':
        L += [instr, '[act]', '$ true']
    else:
        L += ['[act]', '$ true', '[%s]' % case['phase'], instr]
    text = '\n'.join(L) + '\n'
    with open(os.path.join(d, 't.case'), 'w') as f:
        f.write(text)
    before, before_out = snapshot_tree(d), snapshot_tree(outside)
    r = ses.run(['--keep', os.path.join(d, 't.case')], cwd=d, mode='keep')
    after, after_out = snapshot_tree(d), snapshot_tree(outside)
    viol, inconc = [], []
    ident = first_line(r.err)
    label = 'L leading reference to a path symbol (%s) + suffix with an absolute part (%s, into %s) in [%s]' % (
        case['root'], form, case['target'], case['phase'])

    def bad(msg):
        viol.append({'what': 'C12 %s: %s' % (label, msg),
                     'detail': {'case_text': text, 'observed': {'rc': r.rc, 'ident': ident, 'stderr': r.err[:800]}}})

    if r.timed_out:
        inconc.append('watchdog')
    elif r.exc is not None:
        bad('exception escaped MainProgram.execute')
    else:
        ctx.count('c12.home_snapshots_compared')
        ctx.count('c12.leading_ref_abs_suffix_checks')
        hd, od = _diff(before, after), _diff(before_out, after_out)
        if any(hd.values()):
            bad('home directories modified: %r' % (hd,))
        if any(od.values()):
            bad('a directory outside the sandbox was modified: %r' % (od,))
        if r.rc == 0 and ident == 'PASS':
            sds = r.out.strip()
            sub = 'act' if case['root'] == '-rel-act' else 'tmp'
            below = os.path.join(sds, sub, 'base')
            if not (os.path.isdir(below) and os.listdir(below)):
                bad('the case PASSes but nothing was created below the path of the symbol (%s/base): where did the '
                    'object go?' % sub)
        elif r.rc not in (65, 128):
            bad('outcome %s/%r' % (ident, r.rc))
    ses.clean_tmp()
    ses.drop(d)
    return {'classes': [('L', case['root'], form, case['target'], case['phase'], ident)], 'viol': viol,
            'inconclusive': inconc}


def _h_cases():
    """H: -rel-here is the directory of the file that holds the instruction - also when that file is a suite file named by a
    relative path with a directory part from another current directory, or a file included two levels deep through sub
    directories."""
    for shape in ('include-2-levels', 'include-3-levels', 'include-sibling-dirs', 'suite-relative', 'suite-option-relative',
                  'suite-absolute', 'case-relative-from-parent', 'case-relative-dotdot'):
        yield {'t': 'H', 'shape': shape}


def run_h(case, ctx):
    ses = ctx.get_session()
    shape = case['shape']
    pr = probe.PROBE
    root = os.path.realpath(ses.new_case_dir({}))
    rec = os.path.join(root, 'rec.jsonl')
    P = lambda ident, sym: '%% %s %s %s @[%s]@' % (pr, rec, probe.ctrl(id=ident), sym)
    files, argv, cwd, want = {}, None, root, {}
    if shape.startswith('include'):
        files['proj/main.case'] = '[setup]\ndef path P0 = -rel-here d0.txt\nincluding inc/a.xly\n' + P('p0', 'P0') + '\n' + \
            P('p1', 'P1') + '\n' + P('p2', 'P2') + '\n[act]\n$ true\n'
        files['proj/inc/a.xly'] = 'def path P1 = -rel-here d1.txt\nincluding deep/b.xly\n'
        files['proj/inc/deep/b.xly'] = 'def path P2 = -rel-here d2.txt\n'
        want = {'p0': 'proj/d0.txt', 'p1': 'proj/inc/d1.txt', 'p2': 'proj/inc/deep/d2.txt'}
        if shape == 'include-3-levels':
            files['proj/inc/deep/b.xly'] += 'including ../../other/c.xly\n'
            files['proj/other/c.xly'] = 'def path P3 = -rel-here d3.txt\n'
            files['proj/main.case'] = files['proj/main.case'].replace('[act]', P('p3', 'P3') + '\n[act]')
            want['p3'] = 'proj/other/d3.txt'
        if shape == 'include-sibling-dirs':
            argv, cwd = ['proj/main.case'], root
        else:
            argv, cwd = ['main.case'], os.path.join(root, 'proj')
    else:
        files['proj/sub/s.suite'] = '[cases]\nk.case\n[setup]\ndef path PS = -rel-here sdata.txt\n'
        files['proj/sub/k.case'] = '[setup]\ndef path PK = -rel-here kdata.txt\n' + P('ps', 'PS') + '\n' + P('pk', 'PK') + \
            '\n[act]\n$ true\n'
        want = {'ps': 'proj/sub/sdata.txt', 'pk': 'proj/sub/kdata.txt'}
        argv, cwd = {
            'suite-relative': (['suite', 'sub/s.suite'], os.path.join(root, 'proj')),
            'suite-option-relative': (['--suite', 'proj/sub/s.suite', 'proj/sub/k.case'], root),
            'suite-absolute': (['suite', os.path.join(root, 'proj/sub/s.suite')], root),
            'case-relative-from-parent': (['--suite', 'sub/s.suite', 'sub/k.case'], os.path.join(root, 'proj')),
            'case-relative-dotdot': (['--suite', '../sub/s.suite', '../sub/k.case'], os.path.join(root, 'proj/sub2')),
        }[shape]
        files['proj/sub2/x'] = ''
    from vf import driver
    driver.write_files(root, files)
    r = ses.run(argv, cwd=cwd, mode=None, m3=False)
    viol, inconc = [], []

    def bad(msg):
        viol.append({'what': 'C12 H %s: %s' % (shape, msg),
                     'detail': {'files': {k: v for k, v in files.items() if v}, 'argv': argv,
                                'cwd': os.path.relpath(cwd, root), 'observed': {'rc': r.rc, 'out': r.out[:200],
                                                                               'stderr': r.err[:600]}}})

    if r.timed_out:
        inconc.append('watchdog')
    elif r.exc is not None:
        bad('exception escaped MainProgram.execute')
    elif r.rc != 0:
        bad('a valid case does not pass: exit code %r' % r.rc)
    else:
        got = {x['id']: x['argv'][-1] for x in probe.read_records(rec) if x['argv']}
        for ident, rel in sorted(want.items()):
            ctx.count('c12.rel_here_renderings')
            # (the path may be spelled through `..` components: it is the file denoted that counts; no links involved)
            if got.get(ident) is None or os.path.normpath(got[ident]) != os.path.join(root, rel):
                bad('-rel-here of %s denotes %r, the directory of the file that holds the definition gives %r'
                    % (ident, got.get(ident), os.path.join(root, rel)))
    ses.clean_tmp()
    ses.drop(root)
    return {'classes': [('H', shape)], 'viol': viol, 'inconclusive': inconc, 'evaluations': len(want)}


def _f_cases():
    """F: what one instruction accepts must not depend on which instructions were read before it, in the same case
    file - run in a FRESH interpreter, so that nothing read by earlier cases of this worker can mask the order.
    `cd` and the creating instructions accept the same relativity options but differ in absolute paths (`cd` takes
    them, a creating argument does not); both orders of the two kinds of instruction, symbols 1 and 4 levels deep."""
    for first in ('cd', 'create', 'none'):
        for depth in (1, 4):
            for instr in ('file', 'dir', 'copy'):
                yield {'t': 'F', 'first': first, 'depth': depth, 'instr': instr}


def run_f(case, ctx):
    from vf import driver
    ses = ctx.get_session()
    d = os.path.realpath(ses.new_case_dir({'src.txt': 'src', 'victim/keep.txt': 'k', 'cdtarget/x.txt': 'x'}))
    defs = ['def path HERE = -rel-here victim', 'def path CDT = -rel-here cdtarget']
    x = 'HERE'
    if case['depth'] == 4:
        defs += ['def path A = -rel HERE sub', 'def path B = @[A]@/more', 'def path C = @[B]@', 'def path D = -rel C deep']
        x = 'D'
    creating = {'file': 'file -rel %s out.txt = "hello"' % x, 'dir': 'dir -rel %s new-dir' % x,
                'copy': 'copy src.txt -rel %s copied.txt' % x}[case['instr']]
    body = ['dir work']
    if case['first'] == 'cd':
        body += ['cd -rel EXACTLY_ACT work', creating]
    elif case['first'] == 'create':
        # a legal creation first, then a `cd` to an absolute path symbol (legal), then the illegal creation
        body += ['file -rel EXACTLY_ACT legal.txt = "l"', 'cd -rel CDT .', creating]
    else:
        body += [creating]
    text = '[setup]\n' + '\n'.join(defs + body) + '\n[act]\n$ true\n'
    with open(os.path.join(d, 't.case'), 'w') as f:
        f.write(text)
    before = snapshot_tree(d)
    viol, inconc = [], []
    try:
        rc, out, err = driver.run_in_subprocess(['t.case'], d, ses.tmpdir)
    except Exception as ex:  # subprocess timeout
        return {'classes': [], 'viol': [], 'inconclusive': ['fresh-interpreter run: %r' % ex]}
    after = snapshot_tree(d)
    ctx.count('c12.fresh_interpreter_order_checks')
    ident = first_line(out)
    label = 'F %s first, %s through a symbol %d level(s) deep' % (case['first'], case['instr'], case['depth'])
    if not (rc == 65 and ident == 'VALIDATION_ERROR'):
        viol.append({'what': 'C12 %s: a creating argument relative to an absolute path symbol must be rejected before '
                             'execution whatever was read before it, got %s/%r' % (label, ident, rc),
                     'detail': {'case_text': text, 'stderr': err[:600]}})
    hd = _diff(before, after)
    if any(hd.values()):
        viol.append({'what': 'C12 %s: home directory modified: %r' % (label, hd), 'detail': {'case_text': text}})
    if case['first'] == 'create' and case['instr'] == 'file' and case['depth'] == 1:
        # positive control of the legal part (same fresh interpreter conditions): without the illegal line it PASSes
        with open(os.path.join(d, 'ok.case'), 'w') as f:
            f.write('[setup]\n' + '\n'.join(defs + body[:-1]) + '\n[act]\n$ true\n')
        rc2, out2, err2 = driver.run_in_subprocess(['ok.case'], d, ses.tmpdir)
        if not (rc2 == 0 and first_line(out2) == 'PASS'):
            viol.append({'what': 'C12 F control: legal creation followed by `cd` to an absolute path symbol must PASS, '
                                 'got %s/%r' % (first_line(out2), rc2), 'detail': {'stderr': err2[:600]}})
    ses.clean_tmp()
    ses.drop(d)
    return {'classes': [('F', case['first'], case['instr'], case['depth'], ident)], 'viol': viol,
            'inconclusive': inconc}


def _e_cases():
    """E: a destination / directory argument that consists of a relativity alone (empty suffix, where the syntax allows
    it: destination of copy, cd): the root directory of that relativity itself - and P: path arguments of the asserting
    instructions (exists, contents, dir-contents), default relativity = current directory at the time of use."""
    for cd in (None, 'tmp', 'act-sub'):
        for phase in ('setup', 'before-assert', 'cleanup'):
            yield {'t': 'E', 'cd': cd, 'phase': phase}


def run_e(case, ctx):
    ses = ctx.get_session()
    d = os.path.realpath(ses.new_case_dir({'s1.txt': 'one', 's2.txt': 'two', 's3.txt': 'three', 's4.txt': 'four',
                                           's5.txt': 'five'}))
    cdl = {None: [], 'tmp': ['dir -rel-tmp td', 'cd -rel-tmp td'], 'act-sub': ['dir -rel-act as/deeper',
                                                                               'cd -rel-act as/deeper']}[case['cd']]
    cwd_rel = {None: 'act', 'tmp': 'tmp/td', 'act-sub': 'act/as/deeper'}[case['cd']]
    body = ['dir -rel-tmp dest'] + cdl + [
        'copy s1.txt -rel-tmp',
        'copy s2.txt -rel-act',
        'copy s3.txt -rel EXACTLY_TMP',
        'def path PD = -rel-tmp dest',
        'copy s4.txt -rel PD',
        'copy s5.txt -rel-cd',
        'file here.txt = "h"',
        'dir heredir',
        'file heredir/inner.txt = "i"',
    ]
    asserts = ['exists here.txt : type file', 'contents here.txt : equals "h"', 'dir-contents heredir : num-files == 1',
               'exists heredir/inner.txt', 'exists -rel-cd here.txt']
    if case['cd'] is not None:
        asserts += ['dir-contents -rel-act . : -selection name here* is-empty']
    L = ['[setup]']
    if case['phase'] == 'setup':
        L += body
    L += ['[act]', '$ true']
    if case['phase'] == 'before-assert':
        L += ['[before-assert]'] + body
    if case['phase'] != 'cleanup':
        L += ['[assert]'] + asserts
    else:
        L += ['[cleanup]'] + body
    text = '\n'.join(L) + '\n'
    with open(os.path.join(d, 't.case'), 'w') as f:
        f.write(text)
    r = ses.run(['--keep', os.path.join(d, 't.case')], cwd=d, mode='keep')
    viol, inconc = [], []
    ident = first_line(r.err)
    label = 'E cd=%s, instructions in [%s]' % (case['cd'], case['phase'])

    def bad(msg):
        viol.append({'what': 'C12 %s: %s' % (label, msg),
                     'detail': {'case_text': text, 'observed': {'rc': r.rc, 'ident': ident, 'stderr': r.err[:800]}}})

    if r.timed_out:
        inconc.append('watchdog')
    elif r.exc is not None:
        bad('exception escaped MainProgram.execute')
    elif not (r.rc == 0 and ident == 'PASS'):
        bad('copies to a relativity root and assertions on files of the current directory must PASS, got %s/%r'
            % (ident, r.rc))
    else:
        sds = r.out.strip()
        ctx.count('c12.empty_suffix_and_assertion_default_checks')
        for rel, want in (('tmp/s1.txt', 'one'), ('act/s2.txt', 'two'), ('tmp/s3.txt', 'three'),
                          ('tmp/dest/s4.txt', 'four'), (cwd_rel + '/s5.txt', 'five'), (cwd_rel + '/here.txt', 'h'),
                          (cwd_rel + '/heredir/inner.txt', 'i')):
            if _read(os.path.join(sds, rel)) != want:
                bad('expected %s with contents %r in the sandbox (a relativity without suffix denotes the root '
                    'directory of that relativity; no relativity = the current directory)' % (rel, want))
    ses.clean_tmp()
    ses.drop(d)
    return {'classes': [('E', case['cd'], case['phase'])], 'viol': viol, 'inconclusive': inconc}


def cases(tier, seed):
    for c in _s_cases():
        yield c
    for c in _d_cases():
        yield c
    for c in _l_cases():
        yield c
    for c in _h_cases():
        yield c
    for c in _f_cases():
        yield c
    for c in _e_cases():
        yield c
    n = 0
    # ---------------- R core: depth 1 and 2, exhaustive; R_BATCH independent chains share one test case ----
    chains = []
    for kind, sh in _all_bases():
        n += 1
        chains.append(_r_chain(n, [_base_expr(kind, sh)], [kind], [sh]))
    for kind, sh in _all_bases():
        for form, lsh in _all_links():
            n += 1
            chains.append(_r_chain(n, [_base_expr(kind, sh), _link_expr(form, 'P1', lsh or 'plain', '')],
                                   [kind, form], [sh, lsh]))
    for g in range(0, len(chains), R_BATCH):
        yield _r_case(g // R_BATCH, chains[g:g + R_BATCH])
    # ---------------- W core ---------------------------------------------------------------------
    for instr in INSTRS:
        # the three basic forms meet every phase; their `=` / `+=` / directory-copy variants (same argument parser in
        # the same phase) take one phase each, rotating with the relativity
        for pi, phase in enumerate(PHASES if instr in W_BASIC else [None]):
            for rel in BASE_RELS:  # direct: the option (or default) on the instruction itself
                n += 1
                if rel == 'abs':
                    continue  # an absolute literal directly on the instruction is K form 'literal'
                yield _w_case(n, [], _w_use_direct(rel, n), instr, phase or PHASES[n % 4], [rel])
            for base in _w_bases():
                for use in LINK_FORMS:
                    n += 1
                    sh = W_SHAPES[n % len(W_SHAPES)]
                    yield _w_case(n, [_base_expr(base, sh)],
                                  _link_expr(use, 'P1', W_SHAPES[(n // 3) % len(W_SHAPES)], ''), instr,
                                  phase or PHASES[n % 4], [_w_base_label(base, sh), use])
        for base in _w_bases():  # depth 2: every base x mid link x use link, the phase rotating
            for mid in LINK_FORMS:
                for use in LINK_FORMS:
                    n += 1
                    sh = W_SHAPES[n % len(W_SHAPES)]
                    ch2 = [_base_expr(base, sh), _link_expr(mid, 'P1', W_SHAPES[(n // 5) % len(W_SHAPES)], '')]
                    c = _w_case(n, ch2, _link_expr(use, 'P2', W_SHAPES[(n // 3) % len(W_SHAPES)], ''), instr,
                                PHASES[n % 4], [_w_base_label(base, sh), mid, use])
                    if (instr, base, mid, use) in _SAMPLE_W:
                        c['sample'] = True
                    yield c
    # ---------------- K core ---------------------------------------------------------------------
    for kform in K_FORMS:
        for instr in K_INSTRS:
            for which in ('home', 'act-home'):
                n += 1
                c = {'t': 'K', 'kform': kform, 'instr': instr, 'which': which, 'phase': PHASES[n % 4],
                     'conf': ['both', 'inc', 'default', 'home', 'acthome'][n % 5], 'cwd': 'else' if n % 2 else 'case'}
                if (kform, instr, which) in (('opt-act', 'file=', 'home'), ('sym-dflt-strsym:relsym', 'dir', 'home')):
                    c['sample'] = True
                yield c
    # ---------------- seeded part ----------------------------------------------------------------
    rng = common.rng_for(seed, ID)
    n_r, n_w, n_k = (700, 600, 40) if tier == 'quick' else (9000, 9000, 400)
    for i in range(n_r // R_BATCH):
        g = [_rand_r_chain(rng, rng.choice([2, 3, 3, 3])) for _ in range(R_BATCH)]
        yield {'t': 'R', 'chains': g, 'conf': rng.choice(CONFS), 'plan': rng.randrange(len(CD_PLANS)),
               'inc': rng.random() < 0.4, 'act': rng.random() < 0.4, 'cwd': rng.choice(['case', 'else'])}
    for i in range(n_w):
        yield _rand_w(rng, rng.choice([0, 1, 2, 3, 3, 3]))
    for i in range(n_k):
        yield {'t': 'K', 'kform': rng.choice(K_FORMS), 'instr': rng.choice(K_INSTRS),
               'which': rng.choice(['home', 'act-home']), 'phase': rng.choice(PHASES), 'conf': rng.choice(CONFS),
               'cwd': rng.choice(['case', 'else'])}


R_BATCH = 4


def _r_chain(n, chain, forms, shapes):
    depth = len(chain)
    # deterministic rotation of the placement of the definitions (use point before which each one stands)
    place = [(n // 2) % 4] if depth == 1 else [[0, 0], [0, 1], [1, 2], [0, 3], [2, 2], [1, 1], [0, 2], [3, 3]][n % 8]
    return {'chain': chain, 'place': place,
            'key': [depth, forms[0], shapes[0]] + ['%s/%s' % (f, s) for f, s in zip(forms[1:], shapes[1:])]}


_SAMPLE_R = [2, 'cd', 'plain', 'relsym/nested']
_SAMPLE_W = {('file=', 'home', 'relsym', 'lead'), ('copyf', 'cd', 'lead', 'relsym')}


def _r_case(g, chains):
    c = {'t': 'R', 'chains': chains, 'conf': CONFS[g % len(CONFS)], 'plan': g % len(CD_PLANS),
         'inc': (g % 3 == 0), 'act': (g % 3 == 1), 'cwd': 'else' if (g // 2) % 2 else 'case'}
    for j, ch in enumerate(chains):
        if ch['key'] == _SAMPLE_R:
            c['sample'] = j  # exactly one core case is written out as evidence sample
    return c


def _rand_chain(rng, depth, shapes, builtin_forms=LINK_FORMS):
    kind = rng.choice(BASE_RELS + ['B:%s:%s' % (rng.choice(BUILTINS), rng.choice(builtin_forms))])
    sh0 = rng.choice(shapes)
    chain = [_base_expr(kind, sh0)]
    forms, shs = [kind], [sh0]
    for k in range(2, depth + 1):
        form = rng.choice(LINK_FORMS)
        sh = rng.choice(shapes)
        target = 'P%d' % rng.choice([k - 1, k - 1, k - 1, max(1, k - 2)])
        chain.append(_link_expr(form, target, sh, ''))
        forms.append(form + ('' if target == 'P%d' % (k - 1) else '^'))
        shs.append(sh if form != 'plain' else None)
    return chain, forms, shs


def _rand_r_chain(rng, depth):
    chain, forms, shs = _rand_chain(rng, depth, pm.SHAPE_NAMES)
    return {'chain': chain, 'place': sorted(rng.randrange(4) for _ in chain),
            'key': [depth, forms[0], shs[0]] + ['%s/%s' % (f, s) for f, s in zip(forms[1:], shs[1:])]}


def _w_use_direct(rel, n):
    sh = W_SHAPES[n % len(W_SHAPES)]
    if rel == 'dflt':
        return {'form': 'dflt', 'sfx': pm.shape(sh)}
    return {'form': 'opt', 'rel': rel, 'sfx': pm.shape(sh)}


def _w_case(n, chain, use, instr, phase, key):
    return {'t': 'W', 'chain': chain, 'use': use, 'instr': instr, 'phase': phase, 'conf': CONFS[n % len(CONFS)],
            'cd': n % 3, 'late': (n // 3) % 2 == 1, 'cwd': 'else' if (n // 2) % 2 else 'case', 'key': key}


def _rand_w(rng, depth):
    instr, phase = rng.choice(INSTRS), rng.choice(PHASES)
    if depth == 0:
        rel = rng.choice([r for r in BASE_RELS if r != 'abs'])
        return _w_case(rng.randrange(10 ** 6), [], _w_use_direct(rel, rng.randrange(100)), instr, phase, [rel])
    chain, forms, shs = _rand_chain(rng, depth, W_SHAPES, ['relsym', 'lead'])
    forms[0] = _w_base_label(forms[0], shs[0])
    use = rng.choice(LINK_FORMS)
    c = _w_case(rng.randrange(10 ** 6), chain, _link_expr(use, 'P%d' % depth, rng.choice(W_SHAPES), ''), instr, phase,
                forms + [use])
    return c


# =====================================================================================================
# building the test case
# =====================================================================================================
def _conf(variant):
    """-> (lines of [conf], extra files, home dir rel. to case dir, act-home dir rel. to case dir)"""
    if variant == 'default':
        return [], {}, '', ''
    if variant == 'both':
        return ['[conf]', 'home = hd', 'act-home = ahd'], {}, 'hd', 'ahd'
    if variant == 'home':
        return ['[conf]', 'home = hd'], {}, 'hd', ''
    if variant == 'acthome':
        return ['[conf]', 'act-home = ahd'], {}, '', 'ahd'
    if variant == 'inc':  # settings in an included file are relative to the location of THAT file
        return ['[conf]', 'including cfg/conf.xly'], {'cfg/conf.xly': 'home = hd2\nact-home = ../ahd\n'}, 'cfg/hd2', 'ahd'
    raise ValueError(variant)


def _home_files(home, acthome, need=()):
    """Few files (file creation is the dominating cost here).  Every home directory gets keep/me.txt."""
    fs = {}
    for hd in {home, acthome}:
        p = (hd + '/') if hd else ''
        fs[p + 'keep/me.txt'] = 'keep@%s\n' % hd
    hp = (home + '/') if home else ''
    ap = (acthome + '/') if acthome else ''
    if 'src' in need:
        fs[hp + 'src.txt'] = 'src@%s\n' % home
    if 'src@act-home' in need:
        fs[ap + 'src.txt'] = 'src@%s\n' % acthome
    if 'srcd' in need:
        fs[ap + 'srcd/in.txt'] = 'in@%s\n' % acthome
    return fs


def _string_defs():
    return ['def string %s = %s' % (n, pm.STRING_SYMBOLS[n][0]) for n in sorted(pm.STRING_SYMBOLS)]


def _probe_line(out, ident, args, act=False):
    return '%s%s %s %s %s' % ('' if act else '% ', probe.PROBE, out, probe.ctrl(id=ident), ' '.join(args))


_LETTERS = 'ABCDEFGH'


def _rename(expr, letter):
    """P<k> -> <letter><k> (the chains of one test case have disjoint symbol names)."""
    e = dict(expr)
    if 'sym' in e and e['sym'].startswith('P'):
        e['sym'] = letter + e['sym'][1:]
    return e


def build_r(case, out):
    """-> (files, expectations, home, acthome)
    expectations: list of (probe id, cd loc, [(chain index | None, label, kind, loc, prefix)])"""
    m = pm.Model()
    conf_lines, files, home, acthome = _conf(case['conf'])
    files.update(_home_files(home, acthome))
    L = list(conf_lines)
    L.append('[setup]')
    L += _string_defs()
    L += ['dir -rel-tmp w1/w2', 'dir -rel-act a1/a2']
    plan = CD_PLANS[case['plan']]
    exp = []
    defined = [[] for _ in case['chains']]

    def emit_defs(point):
        ds = []
        for j, ch in enumerate(case['chains']):
            for k, (e, p) in enumerate(zip(ch['chain'], ch['place'])):
                if p == point:
                    ds.append((j, '%s%d' % (_LETTERS[j], k + 1), _rename(e, _LETTERS[j])))
        if not ds:
            return
        if case['inc'] and point == 0:  # -rel-here is relative to the location of the file holding the definition
            files['inc/defs.xly'] = ''.join('def path %s = %s\n' % (nm, pm.render(e, _ABS_OUT)) for _, nm, e in ds)
            L.append('including inc/defs.xly')
            here = 'inc'
        else:
            for _, nm, e in ds:
                L.append('def path %s = %s' % (nm, pm.render(e, _ABS_OUT)))
            here = 'case'
        for j, nm, e in ds:
            m.define(nm, e, here)
            defined[j].append(nm)

    def emit_probe(ident, act=False, existing=False):
        args, items = [], []
        for j, names in enumerate(defined):
            for nm in names:
                args.append('@[%s]@' % nm)
                items.append((j, nm, 'path', m.locate({'form': 'plain', 'sym': nm}), ''))
            if names:
                last = names[-1]
                loc = m.locate({'form': 'plain', 'sym': last})
                args.append('"@[%s]@"' % last)
                items.append((j, '"%s"' % last, 'path', loc, ''))
                args.append('pre=@[%s]@/t' % last)
                items.append((j, 'pre=%s/t' % last, 'concat', (loc[0], pm.join(loc[1], 't')), 'pre='))
        for b in BUILTINS:
            args.append('@[%s]@' % b)
            items.append((None, b, 'path', (pm.BUILTIN_PATH_SYMBOLS[b], ''), ''))
        if existing:  # reading usage: PATH arguments of another relativity configuration (default: home)
            # (also with the FILE-NAME being exactly one reference to a STRING symbol: a relative name like any other,
            # bound to the default relativity of the argument, here the home directory, not to the current directory)
            if not any(x.startswith('def string SKEEP ') for x in L):
                L.append('def string SKEEP = keep')
                L.append('def string SKEEPME = keep/me.txt')
            for txt, loc in (('-existing-dir keep', ('home', 'keep')),
                             ('-existing-dir @[SKEEP]@', ('home', 'keep')),
                             ('-existing-file @[SKEEPME]@', ('home', 'keep/me.txt')),
                             ('-existing-path "@[SKEEP]@"', ('home', 'keep')),
                             ('-existing-file -rel-act-home @[SKEEPME]@', ('act-home', 'keep/me.txt')),
                             ('-existing-dir @[SKEEP]@/', ('home', 'keep')),
                             ('-existing-file -rel-act-home keep/me.txt', ('act-home', 'keep/me.txt')),
                             ('-existing-file -rel-home keep/me.txt', ('home', 'keep/me.txt')),
                             ('-existing-dir -rel-act a1', ('act', 'a1')),
                             ('-existing-dir -rel-tmp w1', ('tmp', 'w1')),
                             ('-existing-dir -rel-cd .', m.cd),
                             ('-existing-path -rel EXACTLY_TMP w1/w2', ('tmp', 'w1/w2')),
                             ('-existing-path @[EXACTLY_ACT_HOME]@/keep', ('act-home', 'keep'))):
                args.append(txt)
                items.append((None, txt, 'path', loc, ''))
        L.append(_probe_line(out, ident, args, act))
        exp.append((ident, m.cd, items))

    def emit_cd(k):
        txt, req, res = _CD[plan[k]]
        if txt is not None:
            assert req is None or req == m.cd
            L.append(txt)
            m.cd = res

    emit_defs(0)
    emit_probe('u0')
    emit_cd(0)
    emit_defs(1)
    emit_probe('u1', existing=True)
    if case['act']:
        L.append('[act]')
        emit_probe('act', act=True)
    L.append('[before-assert]')
    emit_cd(1)
    emit_defs(2)
    emit_probe('u2')
    L.append('[assert]')
    emit_cd(2)
    emit_defs(3)
    emit_probe('u3', existing=True)
    L.append('[cleanup]')
    emit_cd(3)
    emit_probe('u4')
    files['t.case'] = '\n'.join(L) + '\n'
    return files, exp, home, acthome


_ABS_OUT = {'out': '/c12-abs-root/x'}
# the 'abs' base in W cases points INTO the home directory (a symbol with that value must be rejected)
_ABS_IN_HOME = {'out': '$HOME$/absbase'}

_FILE_TEXT = 'c12 text'


def _instr_lines(instr, p, accepted):
    """-> (lines, expected object, needed home files)
    object: ('f', content) | ('d', {name: content}); content str or a location whose contents was copied.
    `accepted`: pre-create the target for the += forms."""
    if instr == 'file':
        return ['file ' + p], ('f', ''), ()
    if instr == 'file=':
        return ['file %s = "%s"' % (p, _FILE_TEXT)], ('f', _FILE_TEXT), ()
    if instr == 'file+=':
        pre = ['file %s = "one"' % p] if accepted else []
        return pre + ['file %s += "two"' % p], ('f', 'onetwo'), ()
    if instr == 'dir':
        return ['dir ' + p], ('d', {}), ()
    if instr == 'dir=':
        return ['dir %s = {' % p, '  file inner.txt = "in"', '}'], ('d', {'inner.txt': 'in'}), ()
    if instr == 'dir+=':
        pre = ['dir ' + p] if accepted else []
        return pre + ['dir %s += {' % p, '  file added.txt', '}'], ('d', {'added.txt': ''}), ()
    if instr == 'copyf':  # SOURCE: default relativity is the home directory
        return ['copy src.txt ' + p], ('f', ('home', 'src.txt')), ('src',)
    if instr == 'copyd':
        return ['copy -rel-act-home srcd ' + p], ('d', {'in.txt': ('act-home', 'srcd/in.txt')}), ('srcd',)
    raise ValueError(instr)


def _w_skeleton(case, pre_defs, body, need):
    conf_lines, files, home, acthome = _conf(case['conf'])
    files.update(_home_files(home, acthome, need))
    L = list(conf_lines)
    L.append('[setup]')
    L += _string_defs()
    if case.get('cd') == 1:
        L.append('dir -rel-tmp w1')
    elif case.get('cd') == 2:
        L.append('dir -rel-act a1')
    L += pre_defs
    for ph in PHASES:
        if ph != 'setup':
            L.append('[%s]' % ph)
        if ph == case['phase']:
            L += body
    files['t.case'] = '\n'.join(L) + '\n'
    return files, home, acthome


def build_w(case):
    m = pm.Model()
    defs = []
    abs_with_ref = False
    for k, e in enumerate(case['chain']):
        nm = 'P%d' % (k + 1)
        defs.append('def path %s = %s' % (nm, pm.render(e, _ABS_IN_HOME)))
        m.define(nm, e, 'case')
    use = case['use']
    body = []
    cdk = case.get('cd', 0)
    if cdk == 1:
        # (the directory given relative to a SYMBOL: `cd` accepts the same relativities as a creating argument, and
        # absolute paths in addition - the two sets of restrictions must stay apart)
        body.append('cd -rel EXACTLY_TMP w1' if len(case['chain']) % 2 else 'cd -rel-tmp w1')
        m.cd = ('tmp', 'w1')
    elif cdk == 2:
        body.append('cd a1')
        m.cd = ('act', 'a1')
    rel = m.ultimate_relativity(use, 'creation')
    direct = use['form'] in ('opt', 'dflt')
    if direct:
        verdict = 'SYNTAX_ERROR' if rel in pm.CREATION_OPTION_REJECTED else 'PASS'
    else:
        verdict = 'VALIDATION_ERROR' if rel in pm.CREATION_SYMBOL_REJECTED else 'PASS'
    assert verdict != 'PASS' or rel in pm.CREATION_ACCEPTED
    if rel == 'abs':
        base = m.ultimate_base(use)
        abs_with_ref = base['sfx']['q'] != 'hard' and any(p[0] == 's' for p in base['sfx']['parts'])
    lines, obj, need = _instr_lines(case['instr'], pm.render(use, _ABS_IN_HOME), verdict == 'PASS')
    pre_defs = []
    if case.get('late'):
        body += defs
    else:
        pre_defs = defs
    body += lines
    files, home, acthome = _w_skeleton(case, pre_defs, body, need)
    # where the object is (accepted) / would be if the restriction were not applied (rejected): for the witness
    loc = m.locate(use, 'creation')
    if rel == 'abs' and case['instr'] in ('file+=', 'dir+='):
        # the object to MODIFY exists in the home directory, so that a missing protection shows as a modification
        t = os.path.normpath(os.path.join(home, 'absbase', loc[1]))
        files[t] = 'orig' if case['instr'] == 'file+=' else ('dir',)
    return files, home, acthome, {'verdict': verdict, 'rel': rel, 'loc': loc, 'obj': obj,
                                  'abs_with_ref': abs_with_ref, 'path_arg': pm.render(use, _ABS_IN_HOME),
                                  'defs': defs}


def build_k(case):
    """Absolute file name under a relativity / via a string symbol.  -> files, home, acthome, info"""
    kform, instr = case['kform'], case['instr']
    H = '$HOME$' if case['which'] == 'home' else '$ACTHOME$'
    T = 'src.txt' if instr == 'file+=' else 'esc-c12'
    sa = 'def string SA = ' + H
    defs = []
    group = 'explicit-relativity'
    if kform in ('opt-act', 'opt-tmp', 'opt-cd'):
        p = '%s %s/%s' % (pm.REL_OPTION[kform[4:]], H, T)
    elif kform == 'literal':
        p = '%s/%s' % (H, T)
        group = 'literal'
    elif kform == 'opt-strsym':
        defs, p = [sa], '-rel-tmp @[SA]@/%s' % T
    elif kform == 'dflt-strsym':
        defs, p, group = [sa], '@[SA]@/%s' % T, 'symref-no-relativity'
    elif kform == 'relsym-abs-sfx':
        defs, p = ['def path PK = -rel-act kx'], '-rel PK %s/%s' % (H, T)
    elif kform.startswith('sym-rel-act-strsym:'):
        defs = [sa, 'def path PK = -rel-act @[SA]@']
        p = ('-rel PK %s' % T) if kform.endswith(':relsym') else '@[PK]@/%s' % T
    elif kform == 'sym-rel-act-abs:relsym':
        defs, p = ['def path PK = -rel-act %s' % H], '-rel PK %s' % T
    elif kform == 'sym-dflt-strsym:relsym':
        defs, p, group = [sa, 'def path PK = @[SA]@'], '-rel PK %s' % T, 'symref-no-relativity'
    elif kform.startswith('sym2-rel-tmp-strsym:'):
        defs = [sa, 'def path PK = -rel-tmp @[SA]@']
        if kform.endswith(':relsym'):
            defs.append('def path PK2 = @[PK]@')
            p = '-rel PK2 %s' % T
        else:
            defs.append('def path PK2 = -rel PK %s' % T)
            p = '@[PK2]@'
    else:
        raise ValueError(kform)
    lines, obj, need = _instr_lines(instr, p, False)
    need = set(need)
    if instr == 'file+=':
        need.add('src' if case['which'] == 'home' else 'src@act-home')
    files, home, acthome = _w_skeleton(case, defs, lines, need)
    return files, home, acthome, {'group': group, 'target': T, 'obj': obj, 'path_arg': p, 'defs': defs}


# =====================================================================================================
# monitors
# =====================================================================================================
_W1 = ('open-w', 'os.mkdir', 'os.rmdir', 'os.remove', 'os.chmod', 'os.truncate', 'os.utime', 'os.chown',
       'shutil.rmtree', 'tempfile.mkdtemp', 'tempfile.mkstemp')
_W2 = ('shutil.copyfile', 'shutil.copytree', 'shutil.copymode', 'shutil.copystat', 'os.symlink', 'os.link')
_W12 = ('os.rename', 'shutil.move')


def m1_write_targets(audit, cwd0):
    """(event, absolute path) written/created/removed/changed according to the M1 events (relative paths resolved
    against the chdir history)."""
    cwd = cwd0
    out = []

    def ab(p):
        if not isinstance(p, str):
            return None
        return os.path.normpath(p if os.path.isabs(p) else os.path.join(cwd, p))

    for ev in audit:
        name = ev[0]
        if name == 'os.chdir':
            t = ab(ev[1])
            if t:
                cwd = t
            continue
        ts = []
        if name in _W1:
            ts = [ev[1]]
        elif name in _W2:
            ts = [ev[2]] if len(ev) > 2 else []
        elif name in _W12:
            ts = [ev[1], ev[2]] if len(ev) > 2 else [ev[1]]
        for t in ts:
            a = ab(t)
            if a:
                out.append((name, a))
    return out


def _below(p, root):
    return p == root or p.startswith(root + '/')


def _diff(before, after):
    added = sorted(k for k in after if k not in before)
    removed = sorted(k for k in before if k not in after)
    changed = sorted(k for k in after if k in before and before[k] != after[k])
    return {'added': added, 'removed': removed, 'changed': changed}


def _read(p):
    try:
        with open(p, 'rb') as f:
            return f.read().decode('utf-8', 'replace')
    except OSError as ex:
        return '<unreadable: %s>' % ex


# =====================================================================================================
# execution
# =====================================================================================================
def run_s(case, ctx):
    ses = ctx.get_session()
    d = os.path.realpath(ses.new_case_dir({'src.txt': 'source text', 'sub/src.txt': 'source text'}))
    opt = {'home': '-rel-home', 'act-home': '-rel-act-home', 'here': '-rel-here', 'act': '-rel-act', 'tmp': '-rel-tmp'}
    base = case['base']
    defs = ['def path D1 = %s .' % opt[base]]
    x = 'D1'
    if case['depth'] == 2:
        defs.append('def path D2 = @[D1]@/sub')
        x = 'D2'
    pre = []
    if base in ('act', 'tmp'):
        if case['depth'] == 2:
            pre.append('dir @[D1]@/sub')
        pre.append('file @[%s]@/src.txt = "source text"' % x)
    if case['form'] == 'lead':
        instr = 'copy @[%s]@/src.txt @[%s]@/generated.txt' % (x, x)
    elif case['form'] == 'relsym':
        instr = 'copy -rel %s src.txt -rel %s generated.txt' % (x, x)
    elif case['form'] == 'mixed':
        instr = 'copy -rel %s src.txt @[%s]@/generated.txt' % (x, x)
    else:
        # the reading instruction comes first, in [setup]
        defs = defs + pre + ['copy @[%s]@/src.txt -rel-tmp read-legally.txt' % x,
                             'def path READ_TOO = -rel %s src.txt' % x]
        pre = []
        if case['form'] == 'sep-file':
            instr = 'file @[%s]@/generated.txt = "source text"' % x
        elif case['form'] == 'sep-dir':
            instr = 'dir -rel %s generated.txt' % x
        else:
            instr = 'copy -rel-tmp read-legally.txt -rel %s generated.txt' % x
    L = ['[setup]'] + defs
    if case['phase'] == 'setup':
        L += pre + [instr]
    L += ['[act]', '$ true', '[%s]' % case['phase']] if case['phase'] != 'setup' else ['[act]', '$ true']
    if case['phase'] != 'setup':
        L += pre + [instr]
    text = '\n'.join(L) + '\n'
    with open(os.path.join(d, 't.case'), 'w') as f:
        f.write(text)
    elsewhere = os.path.join(ctx.scratch, 'c12-elsewhere')
    os.makedirs(elsewhere, exist_ok=True)
    before = snapshot_tree(d)
    r = ses.run(['--keep', os.path.join(d, 't.case')], cwd=d if case.get('cwd') == 'case' else elsewhere, mode='keep')
    after = snapshot_tree(d)
    viol, inconc = [], []
    ident = first_line(r.err)
    label = 'S %s/%s/depth%d copy@%s' % (base, case['form'], case['depth'], case['phase'])

    def bad(msg):
        viol.append({'what': 'C12 %s: %s' % (label, msg),
                     'detail': {'case_text': text, 'observed': {'rc': r.rc, 'ident': ident, 'stderr': r.err[:800]}}})

    if r.timed_out:
        inconc.append('watchdog')
    elif r.exc is not None:
        bad('exception escaped MainProgram.execute')
    else:
        ctx.count('c12.creation_verdicts_compared')
        ctx.count('c12.home_snapshots_compared')
        hd = _diff(before, after)
        if base in ('home', 'act-home', 'here'):
            if not (r.rc == 65 and ident == 'VALIDATION_ERROR'):
                bad('the same path symbol (relative to %s) read legally and then used as destination (%s): the '
                    'destination must be '
                    'rejected before execution (VALIDATION_ERROR/65), got %s/%r' % (base, case['form'], ident, r.rc))
            if r.new_tmp_entries or any(e[0] == 'tempfile.mkdtemp' for e in r.audit):
                bad('a sandbox was created although the case must be rejected before execution')
            if any(hd.values()):
                bad('home directories modified: %r' % (hd,))
        else:
            if not (r.rc == 0 and ident == 'PASS'):
                bad('copy within %s through the same symbol must PASS, got %s/%r' % (base, ident, r.rc))
            else:
                sds = r.out.strip()
                sub = {'act': 'act', 'tmp': 'tmp'}[base]
                gp = os.path.join(sds, sub, 'sub' if case['depth'] == 2 else '', 'generated.txt')
                if case['form'] == 'sep-dir':
                    if not os.path.isdir(gp):
                        bad('the directory is not created at %s' % os.path.relpath(gp, sds))
                elif _read(gp) != 'source text':
                    bad('the copied file is not at %s with the source contents' % os.path.relpath(gp, sds))
            if any(hd.values()):
                bad('home directories modified: %r' % (hd,))
    ses.clean_tmp()
    ses.drop(d)
    return {'classes': [('S', base, case['form'], case['depth'], case['phase'])], 'viol': viol, 'inconclusive': inconc}


def run_case(case, ctx):
    if case['t'] == 'S':
        return run_s(case, ctx)
    if case['t'] == 'D':
        return run_d(case, ctx)
    if case['t'] == 'L':
        return run_l(case, ctx)
    if case['t'] == 'H':
        return run_h(case, ctx)
    if case['t'] == 'F':
        return run_f(case, ctx)
    if case['t'] == 'E':
        return run_e(case, ctx)
    ses = ctx.get_session()
    out = os.path.join(ses.io_dir, 'c12-probe.jsonl')
    try:
        os.remove(out)
    except OSError:
        pass
    d = os.path.realpath(ses.new_case_dir({}))
    t = case['t']
    info = exp = None
    if t == 'R':
        files, exp, home, acthome = build_r(case, out)
    elif t == 'W':
        files, home, acthome, info = build_w(case)
    else:
        files, home, acthome, info = build_k(case)
    home_abs = os.path.normpath(os.path.join(d, home))
    acthome_abs = os.path.normpath(os.path.join(d, acthome))
    for k in list(files):
        if isinstance(files[k], str):
            files[k] = files[k].replace('$HOME$', home_abs).replace('$ACTHOME$', acthome_abs)
    write_files(d, files)
    case_text = files['t.case']
    elsewhere = os.path.join(ctx.scratch, 'c12-elsewhere')
    os.makedirs(elsewhere, exist_ok=True)
    run_cwd = d if case.get('cwd') == 'case' else elsewhere  # the process cwd must not matter
    before = snapshot_tree(d)
    r = ses.run(['--keep', os.path.join(d, 't.case')], cwd=run_cwd, mode='keep')
    after = snapshot_tree(d)
    viol, inconc = [], []
    ident = first_line(r.err)
    observed = {'rc': r.rc, 'ident': ident, 'stdout': r.out[:300], 'stderr': r.err[:1200], 'exc': r.exc}
    if t == 'R':
        label = 'R'
    else:
        label = '%s %s %s@%s' % (t, '/'.join(str(x) for x in (case.get('key') or [case.get('kform')])),
                                 case['instr'], case['phase'])

    def bad(msg, **detail):
        dd = {'case_text': case_text.replace(probe.PROBE, 'PROBE'), 'observed': observed}
        dd.update(detail)
        viol.append({'what': 'C12 %s: %s' % (label, msg), 'detail': dd})

    sample = None
    classes = []
    n_eval = 1
    if r.timed_out:
        inconc.append('watchdog')
    elif r.exc is not None:
        bad('exception escaped MainProgram.execute')
    else:
        # ---- M8 + M1 on the home directories (the whole case directory): in EVERY case ---------------
        hd = _diff(before, after)
        ctx.count('c12.home_snapshots_compared')
        writes = m1_write_targets(r.audit, r.cwd_before)
        ctx.count('c12.m1_events_checked', len(r.audit))
        below = sorted({'%s %s' % (n, os.path.relpath(p, d)) for n, p in writes if _below(p, d)})
        observed['home_diff'] = hd
        observed['m1_writes_below_home'] = below
        observed['sandbox_created'] = bool(r.new_tmp_entries) or any(e[0] == 'tempfile.mkdtemp' for e in r.audit)
        sds = r.out[:-1] if r.out.endswith('\n') else r.out
        env = {'case': case, 'ctx': ctx, 'd': d, 'home': home, 'acthome': acthome, 'home_abs': home_abs,
               'acthome_abs': acthome_abs, 'sds': sds, 'ident': ident, 'r': r, 'bad': bad,
               'case_text': case_text.replace(probe.PROBE, 'PROBE'), 'hd': hd, 'below': below,
               'home_changed': any(hd.values()) or bool(below)}
        if t == 'R':
            if env['home_changed']:
                bad('home directories were modified by a case that only defines and renders paths',
                    home_diff=hd, m1_writes_below_home=below)
            rres, sample = _judge_r(env, exp, probe.read_records(out))
            classes, n_eval = rres['classes'], rres['evaluations']
        elif t == 'W':
            classes, sample = _judge_w(env, info)
        else:
            classes, sample = _judge_k(env, info)
    ses.clean_tmp()
    ses.drop(d)
    res = {'classes': classes, 'viol': viol, 'inconclusive': inconc, 'evaluations': n_eval}
    if sample is not None:
        res['sample'] = sample
    return res


def _roots(env):
    d = env['d']
    roots = {'home': env['home_abs'], 'act-home': env['acthome_abs'], 'case': d, 'inc': os.path.join(d, 'inc'),
             'abs:out': _ABS_OUT['out']}
    for k, sub in pm.SDS_SUBDIR.items():
        roots[k] = os.path.join(env['sds'], sub)
    return roots


def _conf_class(conf):
    return 'conf-default' if conf == 'default' else 'conf-set'


def _sds_ok(env):
    sds = env['sds']
    return bool(sds) and os.path.isabs(sds) and os.path.isdir(sds) and \
        os.path.basename(sds) in env['r'].new_tmp_entries


def _judge_r(env, exp, recs):
    case, ctx, bad, r = env['case'], env['ctx'], env['bad'], env['r']
    keys = [('R',) + tuple(ch['key']) + (_conf_class(case['conf']),) for ch in case['chains']]
    res = {'classes': keys, 'evaluations': len(keys)}
    if env['ident'] != 'PASS' or r.rc != 0:
        bad('a case that only defines and renders paths must PASS, got %s/%s' % (env['ident'], r.rc))
        return res, None
    if not _sds_ok(env):
        bad('--keep did not print the sandbox directory created by this run: %r' % env['sds'])
        return res, None
    roots = _roots(env)
    by_id = {}
    for x in recs:
        by_id.setdefault(x['id'], []).append(x)
    sample_items = []
    for ident_, cd, items in exp:
        rs = by_id.get(ident_, [])
        if len(rs) != 1:
            bad('use point %s: expected exactly one probe record, got %d' % (ident_, len(rs)))
            continue
        rec = rs[0]
        exp_cd = pm.absolute(cd, roots)
        ctx.count('c12.probe_cwd_compared')
        if pm.norm_abs(rec['cwd']) != exp_cd:
            bad('use point %s: the process was started in %r, the current directory is %r'
                % (ident_, rec['cwd'], exp_cd), use_point=ident_, expected=exp_cd, got=rec['cwd'])
        argv = rec['argv']
        if len(argv) != len(items):
            bad('use point %s: %d arguments rendered, %d expected' % (ident_, len(argv), len(items)),
                use_point=ident_, argv=argv)
            continue
        for (j, lab, kind, loc, prefix), got in zip(items, argv):
            want = pm.absolute(loc, roots)
            ctx.count('c12.renderings_compared')
            if kind == 'concat':
                ok = got.startswith(prefix) and pm.norm_abs(got[len(prefix):]) == want
                want_s = prefix + want
            else:
                ok = got.startswith('/') and pm.norm_abs(got) == want
                want_s = want
            if not ok:
                ck = '' if j is None else ' [chain %s]' % '/'.join(str(x) for x in case['chains'][j]['key'])
                bad('use point %s (cd=%s/%s): %s%s rendered %r, expected %r = root(%s) + %r'
                    % (ident_, cd[0], cd[1], lab, ck, got, want_s, loc[0], loc[1]),
                    use_point=ident_, symbol=lab, expected=want_s, got=got, root=loc[0], suffix=loc[1],
                    cd=list(cd))
            if j is not None and j == case.get('sample') and len(sample_items) < 12:
                sample_items.append({'use_point': ident_, 'cd': '%s/%s' % cd, 'symbol': lab, 'expected': want_s,
                                     'observed': got})
    sample = None
    if case.get('sample') is not None:
        sample = {'kind': 'R (chain %s of the case)' % _LETTERS[case['sample']], 'case_text': env['case_text'],
                  'comparisons': sample_items}
    return res, sample


def _check_object(path, obj, roots):
    """-> None | problem text"""
    kind, content = obj
    if kind == 'f':
        if not os.path.isfile(path) or os.path.islink(path):
            return 'no regular file at %s' % path
        want = _read(pm.absolute(content, roots)) if isinstance(content, tuple) else content
        got = _read(path)
        if got != want:
            return 'file %s has contents %r, expected %r' % (path, got[:80], want[:80])
        return None
    if not os.path.isdir(path) or os.path.islink(path):
        return 'no directory at %s' % path
    names = sorted(os.listdir(path))
    if names != sorted(content):
        return 'directory %s contains %r, expected %r' % (path, names, sorted(content))
    for n, c in content.items():
        want = _read(pm.absolute(c, roots)) if isinstance(c, tuple) else c
        got = _read(os.path.join(path, n))
        if got != want:
            return 'file %s/%s has contents %r, expected %r' % (path, n, got[:80], want[:80])
    return None


def _predicted_escape(target_rel, obj, instr, before_exists):
    """Effect on the case directory IF the object were created at the absolute place named by the argument
    (doc/BUGS.rst): the object, its documented contents and the missing intermediate directories."""
    if instr == 'file+=':
        return {'added': [], 'removed': [], 'changed': [target_rel]}
    if instr == 'dir+=':
        return {'added': sorted(os.path.join(target_rel, n) for n in obj[1]), 'removed': [], 'changed': []}
    added = [target_rel] + ([os.path.join(target_rel, n) for n in obj[1]] if obj[0] == 'd' else [])
    parent = os.path.dirname(target_rel)
    while parent and not before_exists(parent):
        added.append(parent)
        parent = os.path.dirname(parent)
    return {'added': sorted(added), 'removed': [], 'changed': []}


def _judge_rejection(env, what_arg, verdicts, extra_detail):
    """Common to W (rejected) and K: documented verdict, nothing executed, home directories unchanged.
    ONE violation per case, listing every deviation."""
    r, ident = env['r'], env['ident']
    problems = []
    if ident not in verdicts or r.rc != 65:
        problems.append('%s must be rejected before execution with %s/65, got %s/%s'
                        % (what_arg, ' or '.join(verdicts), ident, r.rc))
    if env['home_changed']:
        problems.append('home directories modified: %r' % {k: v for k, v in env['hd'].items() if v})
    if ident in verdicts and (env['observed_sandbox'] or r.out != ''):
        problems.append('rejected, yet a sandbox was created (so execution had begun): %r' % r.new_tmp_entries)
    if problems:
        env['bad']('; '.join(problems), expected={'ident': list(verdicts), 'rc': 65, 'sandbox_created': False,
                                                    'home': 'unchanged'}, **extra_detail)


def _judge_w(env, info):
    case, ctx, bad, r, ident = env['case'], env['ctx'], env['bad'], env['r'], env['ident']
    verdict = info['verdict']
    key = ('W', case['instr'], case['phase']) + tuple(case['key']) + (verdict,)
    ctx.count('c12.creation_verdicts_compared')
    env['observed_sandbox'] = bool(r.new_tmp_entries) or any(e[0] == 'tempfile.mkdtemp' for e in r.audit)
    sample = None
    if verdict != 'PASS':
        detail = {'kind': 'w-reject', 'relativity': info['rel'], 'path_argument': info['path_arg'],
                  'defs': info['defs']}
        if info['abs_with_ref']:
            # an absolute path that contains a symbol reference: separately labelled (KNOWN)
            roots = {'abs:out': os.path.join(env['home'], 'absbase')}
            target = os.path.normpath(pm.absolute(info['loc'], roots).lstrip('/'))
            before_exists = lambda rel: os.path.lexists(os.path.join(env['d'], rel)) and rel not in env['hd']['added']
            detail.update(kind='abs-escape', group='symref-no-relativity', kform='symbol-abs-with-symref',
                          instr=case['instr'], target=target,
                          predicted_defect=_predicted_escape(target, info['obj'], case['instr'], before_exists))
        _judge_rejection(env, 'a creation argument whose ultimate relativity is %r' % info['rel'], (verdict,), detail)
        if case.get('sample'):
            sample = {'kind': 'W-rejected', 'case_text': env['case_text'],
                      'expected': {'ident': verdict, 'rc': 65, 'sandbox_created': False, 'home': 'unchanged'},
                      'observed': {'ident': ident, 'rc': r.rc, 'sandbox_created': env['observed_sandbox'],
                                   'home_diff': env['hd']}}
        return [key], sample
    problems = []
    pr = target = None
    if env['home_changed']:
        problems.append('home directories modified: %r' % {k: v for k, v in env['hd'].items() if v})
    if ident != 'PASS' or r.rc != 0:
        problems.append('a creation argument with relativity %r is accepted by the manual, got %s/%s'
                        % (info['rel'], ident, r.rc))
    elif not _sds_ok(env):
        problems.append('--keep did not print the sandbox directory created by this run: %r' % env['sds'])
    else:
        roots = _roots(env)
        target = pm.absolute(info['loc'], roots)
        ctx.count('c12.created_objects_located')
        pr = _check_object(target, info['obj'], roots)
        if pr is not None:
            snap = sorted(k for k in snapshot_tree(env['sds']) if not k.startswith('internal'))
            problems.append('%s did not create its object at root(%s) + %r: %s; sandbox holds %r'
                            % (case['instr'], info['loc'][0], info['loc'][1], pr, snap[:30]))
    if problems:
        bad('; '.join(problems), kind='w-accept', expected={'ident': 'PASS', 'object_at': target},
            relativity=info['rel'], path_argument=info['path_arg'], defs=info['defs'])
    if case.get('sample'):
        sample = {'kind': 'W-accepted', 'case_text': env['case_text'],
                  'expected': {'ident': 'PASS', 'object_at': target}, 'observed': {'ident': ident, 'problem': pr}}
    return [key], sample


def _judge_k(env, info):
    case, ctx, r, ident = env['case'], env['ctx'], env['r'], env['ident']
    ctx.count('c12.k_class_cases')
    ctx.count('c12.creation_verdicts_compared')
    env['observed_sandbox'] = bool(r.new_tmp_entries) or any(e[0] == 'tempfile.mkdtemp' for e in r.audit)
    key = ('K', case['kform'], case['instr'], ident)
    hrel = env['home'] if case['which'] == 'home' else env['acthome']
    target = os.path.normpath(os.path.join(hrel, info['target']))  # relative to the case dir
    before_exists = lambda rel: os.path.lexists(os.path.join(env['d'], rel)) and rel not in env['hd']['added']
    detail = {'kind': 'abs-escape', 'group': info['group'], 'kform': case['kform'], 'instr': case['instr'],
              'path_argument': info['path_arg'], 'defs': info['defs'], 'target': target,
              'predicted_defect': _predicted_escape(target, info['obj'], case['instr'], before_exists)}
    what = {'explicit-relativity': 'an absolute file name combined with a relativity (manual: "If FILE-NAME is an '
                                   'absolute path, then RELATIVITY must not be given")',
            'symref-no-relativity': 'an absolute path (given without relativity, containing a symbol reference) as '
                                    'creation target or as value of a path symbol used for creation (creation accepts '
                                    'only act/tmp/cd; a symbol whose value is absolute is to be rejected)',
            'literal': 'a constant absolute path as creation target (creation accepts only the act, tmp and current '
                       'directories)'}[info['group']]
    _judge_rejection(env, what, ('SYNTAX_ERROR', 'VALIDATION_ERROR'), detail)
    sample = None
    if case.get('sample'):
        sample = {'kind': 'K ' + info['group'], 'case_text': env['case_text'],
                  'expected': {'ident': 'SYNTAX_ERROR or VALIDATION_ERROR', 'home': 'unchanged'},
                  'observed': {'ident': ident, 'home_diff': env['hd'], 'm1_writes_below_home': env['below']}}
    return [key], sample


# =====================================================================================================
# known findings (keyed by mechanism: input class AND the specific defective observation)
# =====================================================================================================
def _is_exact_escape(v, group):
    """The witness is: an absolute-file-name case of the given group, the case PASSed (the instruction was accepted
    and executed), and the ONLY effect on the home directories is the creation/modification of exactly the object the
    absolute file name designates (with its documented contents and missing parents) -- any other observation on
    these inputs stays a violation."""
    dd = v.get('detail') or {}
    if dd.get('kind') != 'abs-escape' or dd.get('group') != group:
        return False
    ob = dd.get('observed') or {}
    if ob.get('ident') != 'PASS' or ob.get('rc') != 0 or ob.get('exc') is not None:
        return False
    pred = dd.get('predicted_defect') or {}
    hd = ob.get('home_diff') or {}
    for k in ('added', 'removed', 'changed'):
        if sorted(hd.get(k, ['<missing>'])) != sorted(pred.get(k, ['<none>'])):
            return False
    touched = set(pred.get('added', [])) | set(pred.get('changed', []))
    if not touched:
        return False
    target = dd.get('target') or ''
    for w in ob.get('m1_writes_below_home', []):
        ev, p = w.split(' ', 1)
        if p in touched:
            continue
        if ev == 'os.mkdir' and (p == '.' or target == p or target.startswith(p + '/')):
            continue  # mkdir(exist_ok) of an existing ancestor of the object: changes nothing
        return False
    return True


KNOWN = {
    # doc/BUGS.rst "When PathPart is absolute THEN PathDdv will be absolute": an EXPLICIT relativity (option or
    # -rel SYM) with an absolute FILE-NAME (constant, or through a string symbol; directly or in the definition of a
    # path symbol): `file -rel-act /abs/home/x`, `-rel SYM /abs/..`, `-rel-tmp @[ABS_STRING]@/x` -- accepted by
    # file/dir/copy, the object is made at /abs/..
    'S9-abs-file-name-under-explicit-relativity': lambda v: _is_exact_escape(v, 'explicit-relativity'),
    # an absolute path given WITHOUT relativity but containing a symbol reference (`@[ABS_STRING]@/x`,
    # `/abs/home/@[S]@`, `"/abs/home/d q/@[S]@"`) is bound to the default relativity (cd): as creation argument it is
    # accepted, and a path symbol defined so passes the relativity restriction although its value is absolute
    'abs-path-with-symbol-reference-taken-as-relative': lambda v: _is_exact_escape(v, 'symref-no-relativity'),
    # a CONSTANT absolute path written directly as the creation argument (`file /abs/home/x`) is accepted although
    # creation arguments accept only act/tmp/cd (the same value through a path symbol IS rejected)
    'abs-literal-accepted-as-creation-target': lambda v: _is_exact_escape(v, 'literal'),
}
