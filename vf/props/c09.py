"""C09 String syntax: quoting, concatenation, `:>`, here-documents denote one exact string (D1, M7).

Generated string syntax is placed in real test cases and run through the real CLI; observation points:
  * contents of the file created by `file fK = SYNTAX` (read from the sandbox kept with --keep),
  * the argv received by the probe in `% PROBE OUT CTRL ARG...` / `run ( % PROBE ... )`,
  * the elements of `def list LK = ...` (spliced into a probe's argv, and joined inside soft quotes),
  * `def string SK = SYNTAX` (observed through a file),
  * the name of the file created by `file [-rel-act] SYNTAX = 'cK'` (FILE-NAME of a PATH is a STRING),
  * syntax-error reports for unterminated quotes / here-documents / unquoted reserved words.
Oracle: vf/models/strings.py (independent reader of the documented syntax, reads the whole case text), cross
checked in every case against the value the generator knows by construction.
"""
import itertools
import os
import re

from vf import common, probe
from vf.models import strings as M

ID = 'C09'
LEVEL = 'exploration'
RULE = ('items = (string over the hostile alphabet, split into <= 3 adjacent fragments, quoting kind per fragment) x '
        'context (file / def string / probe argv / def list) x next-token kind (end of line, trailing blanks / tab, plain, '
        'hard/soft quoted, option-like, empty string, symbol reference, list reference, `)`, `\\` continuation, `:>`, '
        'here-document, -transformed-by); plus `:>` texts, here-document bodies built from marker / header / comment / '
        'instruction look-alikes and blank lines, and erroneous items (unterminated quote, unterminated '
        'here-document, unquoted reserved word). About 12 items are batched per test case; a batch whose status is '
        'not the expected one is re-run item by item. Class keys: (context, fragment-kind pattern or form, next-token '
        'kind, outcome), ("content", context, features of the characters involved, outcome) and, for strings that '
        'are neighbours in one list, (context-neighbours, pattern, features, outcome). An item is non-trivial when its '
        'observation (file content / argv / list elements / error report) was compared with the independent reading '
        'of the case text; evaluations = number of generated strings / texts / here-documents so compared')
ASSUMPTIONS = [
    'quoted fragments never contain a line end (the manual does not say whether a quoted string may span lines); '
    'after an unterminated quote no later line contains that quote character',
    'a symbol reference never straddles a fragment boundary (e.g. @[\'a\']@): the manual speaks of references '
    '"appearing in the string" without saying whether that is the fragment or the concatenation',
    'no text of the form @[NAME]@ where NAME contains non-ASCII letters (manual: "alphanumeric" is not defined further)',
    'in a LIST / argument list, a token that merely ENDS with a naked backslash is never the last token of a line '
    '(manual: \'an unquoted "\\" at END-OF-LINE\' - only the lone `\\` token is generated as continuation); the line '
    'after a continuation always holds at least one element',
    'a whole-token naked reference to a LIST symbol is generated only in LIST / PROGRAM-ARGUMENT positions (manual: '
    'naked conversion works "in most places")',
    'here-document header `<<MARKER` is followed directly by the line end; MARKER is a word of letters, digits, `_`, `-`; '
    'markers with other characters (`E.O.F`, `EOF!`, `é`) only in a small dedicated group (see finding H1)',
    'white space = blank and tab; no CR, FF, NUL characters',
    'as FILE-NAME of a PATH: only strings that denote a plain non-empty file name, and no naked option-like word '
    '(`file -rel-act -x = ...` is rejected as an unexpected option; the manual does not say so, but an option is not a '
    'file name); only the 15-symbol alphabet',
    '`:>` is always followed by white space or the line end',
    'a reserved word is either entirely unquoted (=> not a string) or all its characters are quoted (=> a string); '
    'forms like (\'\' or &"&" are not generated',
    'error reports: demanded are exit code 65, SYNTAX_ERROR, "line N" of the first line of the instruction and '
    'that line\'s text on stderr - not the wording of the message',
]
EXHAUSTIVE_NOTE = ('every string of <= 3 alphabet symbols x every split into <= 3 adjacent fragments x every '
                   'admissible assignment of different quoting kinds to adjacent fragments (about 65 000 renderings) is '
                   'rendered in both tiers: strings of <= 2 symbols in all four contexts (file, def string, probe argv, '
                   'def list) with the next-token kinds rotating; strings of 3 symbols once each - a third as `file` '
                   'contents, the others as neighbours (<= 10 per line) in a probe argument list or a `def list`. Also '
                   'complete: every single pool line (3 markers x 3 contexts) and every ordered pair of pool lines as '
                   'here-document body; `:>` texts of <= 2 symbols; all reserved words quoted / unquoted / as part of '
                   'a longer token in all contexts; unterminated quotes for all renderings of <= 2 symbols that end '
                   'with a quoted fragment; unterminated here-documents with every marker look-alike')
MIN_OBS = {
    'quick': {'evaluations': 70000, 'c09.file_contents_compared': 20000, 'c09.argv_compared': 25000,
              'c09.list_elements_compared': 14000, 'c09.error_reports_checked': 1400, 'c09.file_names_compared': 800,
              'c09.here_documents_compared': 3000, 'c09.text_until_eol_compared': 1000,
              'c09.model_vs_construction_agree': 38000, 'classes': 3000},
    'thorough': {'evaluations': 100000, 'c09.file_contents_compared': 30000, 'c09.argv_compared': 30000,
                 'c09.list_elements_compared': 18000, 'c09.error_reports_checked': 2500, 'c09.file_names_compared': 1500,
                 'c09.here_documents_compared': 6000, 'c09.text_until_eol_compared': 3000,
                 'c09.model_vs_construction_agree': 60000, 'classes': 4000},
}

# ---------------------------------------------------------------------------------------------
# the world of every generated case
# ---------------------------------------------------------------------------------------------
HEADER = ["def string X = 'V #x'", "def string a = 'A'", "def list L = p 'q r'", 'def list E =']
SYM = {'X': ('string', 'V #x'), 'a': ('string', 'A'), 'L': ('list', ['p', 'q r']), 'E': ('list', [])}

ATOMS = ['a', ' ', '"', "'", '@[X]@', '@[', ']@', '#', '\\', '-x', '(', '=', ':', '!', 'é']
MORE_ATOMS = ATOMS + ['@[L]@', '@[E]@', '@[a]@', ')', '[', '|', '&&', '$', '*', '\t', 'b', '}', ';', '`', '~', '%']
RESERVED = ('(', ')', '[', ']', '{', '}', '=', '|', ':', '!', '&&', '||')

_REF = re.compile(r'@\[([A-Za-z0-9_]+)\]@')
_REF_UNICODE = re.compile(r'@\[(\w+)\]@', re.UNICODE)

BATCH = 12
CTXS = ('file', 'argv', 'list', 'defstr')
CTXS5 = CTXS + ('fname',)  # + the FILE-NAME (a STRING) of a PATH: `file -rel-act SYNTAX = 'cK'`

# next-token kinds: name -> (source tokens after the string, their elements by construction)
POSTS = {
    'eol': ('', []),
    'blanks': ('  ', []),
    'tab-eol': ('\t', []),
    'plain': (' n', ['n']),
    'plain-2sp': ('   n  m', ['n', 'm']),
    'tab-plain': ('\tn', ['n']),
    'hard': (" 'q q'", ['q q']),
    'soft': (' "s s"', ['s s']),
    'option': (' -x', ['-x']),
    'long-option': (' --opt=v', ['--opt=v']),
    'empty-hard': (" ''", ['']),
    'empty-soft': (' ""', ['']),
    'ref': (' @[X]@', ['V #x']),
    'listref': (' @[L]@', ['p', 'q r']),
    'emptylistref': (' @[E]@ z', ['z']),
    'quoted-resv': (" ')' \"=\"", [')', '=']),
}
POST_ORDER = ['eol', 'plain', 'hard', 'soft', 'option', 'blanks', 'empty-hard', 'ref', 'listref', 'tab-plain',
              'long-option', 'empty-soft', 'plain-2sp', 'emptylistref', 'quoted-resv', 'tab-eol']
# argv / list only
SPECIAL_ARGV = ['paren', 'cont', 'eol-text', 'here', 'paren-close-blank']
PRES = [('', []), ('p ', ['p']), ("'h h' ", ['h h']), ('-o  ', ['-o']), ('"" ', ['']), ('@[L]@ ', ['p', 'q r']),
        ('\\ x ', ['\\', 'x'])]
FILE_TAILS = ['eol', 'blanks', 'transformed', 'paren', 'tab-eol', 'paren-transformed', 'transformed-blanks']


# ---------------------------------------------------------------------------------------------
# knowledge by construction
# ---------------------------------------------------------------------------------------------
def subst(raw):
    def f(m):
        t, v = SYM[m.group(1)]
        return v if t == 'string' else ' '.join(v)

    return _REF.sub(f, raw)


def quote(kind, raw):
    return raw if kind == 'N' else '"%s"' % raw if kind == 'S' else "'%s'" % raw


def feasible(kind, raw):
    if kind == 'N':
        return raw != '' and not any(c in raw for c in ' \t"\'')
    if kind == 'S':
        return '"' not in raw
    return "'" not in raw


def admissible(frags):
    """frags: [(kind, raw)].  False for renderings outside what the manual defines (see ASSUMPTIONS)."""
    whole = ''.join(r for _, r in frags)
    # references must lie inside one fragment; names must be known, ASCII
    bounds = []
    p = 0
    for _, r in frags:
        bounds.append((p, p + len(r)))
        p += len(r)
    for m in _REF_UNICODE.finditer(whole):
        if not _REF.fullmatch(m.group(0)) or m.group(1) not in SYM:
            return False
        if not any(b0 <= m.start() and m.end() <= b1 for b0, b1 in bounds):
            return False
    # a reserved word of which only a part is quoted, or that is accompanied by an empty quoted fragment (('', &"&"):
    # the manual does not say whether that counts as "quoted"
    if whole in RESERVED and len(frags) > 1 and any(k == 'N' for k, _ in frags):
        return False
    # overlapping candidates such as @[a]@[a]@ : leave out
    if re.search(r'@\[\w+\]@\[\w+\]@', whole):
        return False
    # a fragment must not, by concatenation of NAKED neighbours, change its reading: adjacent N-N is one fragment
    for (k1, _), (k2, _) in zip(frags, frags[1:]):
        if k1 == 'N' and k2 == 'N':
            return False
    return all(feasible(k, r) for k, r in frags)


def value_of(frags):
    return ''.join(r if k == 'H' else subst(r) for k, r in frags)


def source_of(frags):
    return ''.join(quote(k, r) for k, r in frags)


def elements_of(frags):
    """elements the token contributes to a LIST / argument list"""
    if len(frags) == 1 and frags[0][0] == 'N':
        m = _REF.fullmatch(frags[0][1])
        if m and SYM[m.group(1)][0] == 'list':
            return list(SYM[m.group(1)][1])
    return [value_of(frags)]


def is_reserved_token(frags):
    return len(frags) == 1 and frags[0][0] == 'N' and frags[0][1] in RESERVED


def starts_with_naked_hash(frags):
    return frags[0][0] == 'N' and frags[0][1].startswith('#')


def ends_with_naked_backslash(frags):
    return frags[-1][0] == 'N' and frags[-1][1].endswith('\\')


def is_whole_naked_list_ref(frags):
    if len(frags) == 1 and frags[0][0] == 'N':
        m = _REF.fullmatch(frags[0][1])
        return bool(m) and SYM[m.group(1)][0] == 'list'
    return False


def features(frags):
    f = set()
    for k, r in frags:
        if _REF.search(r):
            f.add('ref-in-hard' if k == 'H' else 'ref')
        rest = _REF.sub('', r)
        if '@[' in rest or ']@' in rest:
            f.add('delim')
        if '#' in r:
            f.add('hash' if k != 'N' else 'naked-hash')
        if '\\' in r:
            f.add('bs')
        if ' ' in r or '\t' in r:
            f.add('blank')
        if '"' in r or "'" in r:
            f.add('quote-char')
        if any(ord(c) > 127 for c in r):
            f.add('non-ascii')
        if k == 'N' and r.startswith('-'):
            f.add('option-like')
        if any(c in r for c in '()=:![]{}|&'):
            f.add('resv-char')
        if r == '':
            f.add('empty-frag')
    return '+'.join(sorted(f)) or 'plain'


# ---------------------------------------------------------------------------------------------
# enumeration of renderings
# ---------------------------------------------------------------------------------------------
def splits(atoms, max_frags=3, same_kind_adjacent=False):
    """all admissible renderings [(kind, raw), ...] of the atom sequence"""
    n = len(atoms)
    for k in range(1, min(n, max_frags) + 1):
        for cuts in itertools.combinations(range(1, n), k - 1):
            b = [0] + list(cuts) + [n]
            pieces = [''.join(atoms[b[i]:b[i + 1]]) for i in range(k)]
            for kinds in itertools.product('NSH', repeat=k):
                if not same_kind_adjacent and any(kinds[i] == kinds[i + 1] for i in range(k - 1)):
                    continue
                fr = list(zip(kinds, pieces))
                if admissible(fr):
                    yield [list(x) for x in fr]


def has_naked_hash(fr):
    return any(k == 'N' and '#' in r for k, r in fr)


def fname_ok(fr):
    """may the string be used as FILE-NAME of `file -rel-act FILE-NAME = ...` ? (a plain, non-empty file name; not a
    naked option-like word - an option is not a file name; not a whole-token list reference)"""
    if is_reserved_token(fr):
        return True  # expected: SYNTAX_ERROR ("To use any of them as a file name, it must be quoted")
    v = value_of(fr)
    if v in ('', '.', '..') or '/' in v or len(v.encode()) > 200:
        return False
    if fr[0][0] == 'N' and fr[0][1].startswith('-'):
        return False
    # routing around S7: if what precedes the first naked `#` denotes the empty string, the cut token is an empty file
    # name, and what the implementation then does (validation error / "list index out of range") is not predictable
    prefix = []
    for k, r in ([] if starts_with_naked_hash(fr) else fr):
        if k == 'N' and '#' in r:
            prefix.append([k, r[:r.index('#')]])
            if value_of([x for x in prefix if x[1] != '' or x[0] != 'N']) == '':
                return False
            break
        prefix.append([k, r])
    return not is_whole_naked_list_ref(fr)


GROUP = 10


def core_string_items():
    """Strings of 1 and 2 symbols: every rendering in all four contexts.  Strings of 3 symbols: every rendering once -
    a third of them as `file` contents, the others as neighbours in one argument list / LIST (<= GROUP strings per
    line; a string with a naked `#` closes its line, so that the known deviation S7 - rest of the line dropped - does
    not hide the strings after it)."""
    idx = 0
    group = []
    ngroups = 0
    for n in (1, 2, 3):
        for atoms in itertools.product(ATOMS, repeat=n):
            for fr in splits(atoms):
                if n < 3:
                    for ctx in CTXS5:
                        if ctx == 'fname' and not fname_ok(fr):
                            continue
                        yield {'t': 's', 'fr': fr, 'ctx': ctx, 'v': idx}
                        idx += 1
                    continue
                idx += 1
                if is_reserved_token(fr):
                    yield {'t': 's', 'fr': fr, 'ctx': CTXS[idx % 4], 'v': idx}
                elif starts_with_naked_hash(fr):
                    yield {'t': 's', 'fr': fr, 'ctx': ('argv', 'list')[idx % 2], 'v': idx}
                elif idx % 3 == 0:
                    yield {'t': 's', 'fr': fr, 'ctx': 'file', 'v': idx}
                else:
                    group.append(fr)
                    if len(group) >= GROUP or has_naked_hash(fr):
                        yield {'t': 'multi', 'frs': group, 'ctx': ('argv', 'argv', 'list')[ngroups % 3], 'v': ngroups}
                        ngroups += 1
                        group = []
    if group:
        yield {'t': 'multi', 'frs': group, 'ctx': 'argv', 'v': ngroups}


def _rand_frags(rng, atoms_pool, max_atoms):
    for _ in range(50):
        n = rng.randint(1, max_atoms)
        atoms = [rng.choice(atoms_pool) for _ in range(n)]
        k = rng.randint(1, min(3, n))
        cuts = sorted(rng.sample(range(1, n), k - 1)) if k > 1 else []
        b = [0] + cuts + [n]
        pieces = [''.join(atoms[b[i]:b[i + 1]]) for i in range(k)]
        # sometimes an empty quoted fragment is inserted
        fr = []
        for p in pieces:
            kinds = [kd for kd in 'NSH' if feasible(kd, p)]
            if not kinds:
                fr = None
                break
            fr.append([rng.choice(kinds), p])
        if fr is None:
            continue
        if rng.random() < 0.15:
            fr.insert(rng.randint(0, len(fr)), [rng.choice('SH'), ''])
        if admissible(fr):
            return fr
    return [['N', 'a']]


HERE_MARKERS = ['EOF', 'END', '-', 'eof', 'a-b', 'M1', '---', 'EOF2',
                # every character of the documented marker alphabet (letters, digits, `_`, `-`) occurs in some marker
                '0', 'E0F', 'END_10', '0123456789', '9', '_', '_x_', 'abcdefghijklm', 'nopqrstuvwxyz', 'ABCDEFGHIJKLM',
                'NOPQRSTUVWXYZ', 'Z', 'z', 'a', 'A']
ODD_MARKERS = ['E.O.F', 'EOF!', 'é']  # "Any single-word string may be used as MARKER"


def here_pool(marker):
    look = [marker + ' ', ' ' + marker, marker + 'X', 'X' + marker, marker + marker, '<<' + marker, marker + '\t',
            "'%s'" % marker, '"%s"' % marker]
    if len(marker) > 1:
        look.append(marker[:-1])
    if marker.lower() != marker:
        look.append(marker.lower())
    if marker.upper() != marker:
        look.append(marker.upper())
    other = ['[assert]', '[setup]', '[act]', '[cleanup]', '# comment', '#', '', '   ', '\t', 'file x = y',
             'def string Q = v', "it's", 'say "hi', '@[X]@', "'@[X]@'", '"@[X]@"', 'x@[a]@y @[X]@', '@[ X ]@',
             '@[L]@', '@[E]@', 'a\\', '\\', ':> x', '`descr`', 'é ü', 'plain text', '  indented',
             'trailing  ', 'including x', '-x', '[no-such-phase]', '#@[X]@', ')', '<<' , '@[X', 'X]@']
    return look, other


EOL_TEXT_EDGES = [(' ', ''), ('  ', '  '), ('\t', '\t '), (' ', ' \t'), ('   ', '')]


def _eol_text_ok(txt):
    for m in _REF_UNICODE.finditer(txt):
        if not _REF.fullmatch(m.group(0)) or m.group(1) not in SYM:
            return False
    if re.search(r'@\[\w+\]@\[\w+\]@', txt):
        return False
    return True


def core_other_items():
    """here-documents, `:>` texts, quoted reserved words -> items (all expected to succeed)"""
    v = 0
    # here-documents
    for mi, marker in enumerate(HERE_MARKERS[:3]):
        look, other = here_pool(marker)
        pool = look + other
        for line in pool:
            for ctx in ('file', 'defstr', 'argv'):
                yield {'t': 'here', 'marker': marker, 'lines': [line], 'ctx': ctx, 'v': v}
                v += 1
        if mi == 0:
            for l1 in pool:
                for l2 in pool:
                    yield {'t': 'here', 'marker': marker, 'lines': [l1, l2], 'ctx': 'file', 'v': v}
                    v += 1
        else:
            for l1 in look:
                for l2 in look:
                    yield {'t': 'here', 'marker': marker, 'lines': [l1, l2, l1], 'ctx': ('file', 'argv')[v % 2], 'v': v}
                    v += 1
    for marker in HERE_MARKERS:
        for ctx in ('file', 'defstr', 'argv'):
            yield {'t': 'here', 'marker': marker, 'lines': [], 'ctx': ctx, 'v': v}
            yield {'t': 'here', 'marker': marker, 'lines': ['body ' + marker, marker + marker, ''], 'ctx': ctx, 'v': v + 1}
            v += 1
    for marker in ODD_MARKERS:
        for ctx in ('file', 'defstr', 'argv'):
            for lines in ([], ['x', marker + ' ']):
                yield {'t': 'here', 'marker': marker, 'lines': lines, 'ctx': ctx, 'v': v}
                v += 1
    # `:>`
    for n in (0, 1, 2):
        for atoms in itertools.product(ATOMS, repeat=n):
            txt = ''.join(atoms)
            if not _eol_text_ok(txt):
                continue
            for ctx in ('file', 'defstr', 'argv'):
                yield {'t': 'eol', 'txt': txt, 'ctx': ctx, 'v': v}
                v += 1
    # reserved words, quoted
    for w in RESERVED:
        for kind in 'SH':
            for ctx in CTXS5:
                yield {'t': 's', 'fr': [[kind, w]], 'ctx': ctx, 'v': v}
                v += 1
        # and as part of a longer naked token
        for fr in ([['N', w + 'a']], [['N', 'a' + w]], [['H', w], ['N', 'a']], [['N', 'a'], ['S', w]]):
            for ctx in CTXS:
                yield {'t': 's', 'fr': fr, 'ctx': ctx, 'v': v}
                v += 1


def core_error_items():
    v = 0
    # unterminated quote: renderings of <= 2 atoms whose last fragment is quoted, closing quote removed
    for n in (0, 1, 2):
        for atoms in itertools.product(ATOMS, repeat=n):
            cands = list(splits(atoms)) if n else []
            cands = [fr for fr in cands if fr[-1][0] in 'SH']
            if n == 0:
                cands = [[['S', '']], [['H', '']]]
            for fr in cands:
                yield {'t': 'unq', 'fr': fr, 'ctx': CTXS5[v % 5], 'v': v}
                v += 1
    # unterminated here-document
    for marker in HERE_MARKERS[:4]:
        look, other = here_pool(marker)
        for lines in [[]] + [[l] for l in look] + [[look[0], other[0], look[1]], ['x', ''], [other[0], other[4]]]:
            for nonl in (False, True):
                if nonl and not lines:
                    continue
                yield {'t': 'unh', 'marker': marker, 'lines': lines, 'ctx': ('file', 'defstr', 'argv')[v % 3],
                       'nonl': nonl, 'v': v}
                v += 1
    # unquoted reserved words where a string is expected
    for w in RESERVED:
        for ctx in CTXS5:
            yield {'t': 's', 'fr': [['N', w]], 'ctx': ctx, 'v': v}
            v += 1


FRAGILE_POSTS = ('cont', 'here', 'paren', 'paren-close-blank')
FRAGILE_TAILS = ('paren', 'paren-transformed')


def choose_post(item):
    """next-token kind of an item in an argv / list context"""
    v, ctx, t = item['v'], item['ctx'], item['t']
    last = item['frs'][-1] if t == 'multi' else item['fr']
    if t == 'unq':
        return ('eol', 'plain', 'option')[v % 3]
    kinds = POST_ORDER + (SPECIAL_ARGV if ctx == 'argv' else ['cont'])
    post = kinds[(v // 3 if t == 'multi' else v) % len(kinds)]
    if ends_with_naked_backslash(last) and post in ('eol', 'blanks', 'tab-eol'):
        post = 'plain'  # see ASSUMPTIONS
    return post


def choose_tail(item):
    """what follows the string of an item in a file / def string context"""
    v, ctx, t = item['v'], item['ctx'], item['t']
    if t == 'unq':
        return ('eol', 'blanks', 'plain')[v % 3]
    tails = FILE_TAILS if ctx == 'file' else ['eol', 'blanks', 'tab-eol']
    return tails[v % len(tails)]


def needs_single(item):
    """Items get a test case of their own when their expected outcome is an error, or when a KNOWN deviation would
    turn the whole batch into an error (routing only - the expectation is not affected): a naked `#` (S7 drops the
    rest of the line) where the dropped rest contains `)`, a continuation or a here-document header, or where the
    next line is swallowed in a file / def string context."""
    t = item['t']
    if t in ('unq', 'unh'):
        return True
    if t == 'here':
        return item['marker'] in ODD_MARKERS  # H1
    if t not in ('s', 'multi'):
        return False
    frs = item['frs'] if t == 'multi' else [item['fr']]
    if any(is_reserved_token(fr) for fr in frs):
        return True
    if item['ctx'] == 'fname':
        return has_naked_hash(frs[0])  # S7 cuts the name (collisions) or swallows the next line
    if item['ctx'] in ('file', 'defstr'):
        if starts_with_naked_hash(frs[0]):
            return True
        return has_naked_hash(frs[0]) and choose_tail(item) in FRAGILE_TAILS
    if any(has_naked_hash(fr) for fr in frs):
        if any(starts_with_naked_hash(fr) for fr in frs) and t == 'multi':
            return True
        return choose_post(item) in FRAGILE_POSTS
    return False


def cases(tier, seed):
    for c in _unicode_symbol_cases():
        yield c
    for c in _quote_follow_cases():
        yield c
    batch = []
    names = set()
    weight = [0]
    n_case = [0]

    def flush():
        if batch:
            c = {'items': list(batch), 'n': n_case[0]}
            n_case[0] += 1
            del batch[:]
            names.clear()
            return c
        return None

    def feed(items):
        for it in items:
            if needs_single(it):
                n_case[0] += 1
                yield {'items': [it], 'n': n_case[0], 'single': True}
            else:
                if it['ctx'] == 'fname':
                    name = value_of(it['fr'])
                    if name in names:
                        weight[0] = 0
                        yield flush()
                    names.add(name)
                batch.append(it)
                weight[0] += 3 if it['t'] == 'multi' else 1
                if weight[0] >= BATCH:
                    weight[0] = 0
                    yield flush()
        weight[0] = 0
        c = flush()
        if c:
            yield c

    for c in feed(core_string_items()):
        yield c
    for c in feed(core_other_items()):
        yield c
    for c in feed(core_error_items()):
        yield c
    # ---- seeded part ---------------------------------------------------------------------------------
    rng = common.rng_for(seed, ID)
    n_seeded = 4000 if tier == 'quick' else 45000
    for c in feed(seeded_items(rng, n_seeded)):
        yield c


def seeded_items(rng, n):
    for i in range(n):
        r = rng.random()
        v = rng.randrange(1 << 30)
        if r < 0.62:
            pool = MORE_ATOMS if rng.random() < 0.6 else ATOMS
            fr = _rand_frags(rng, pool, 6)
            ctx = rng.choice(CTXS5)
            if ctx == 'fname' and not (pool is ATOMS and fname_ok(fr)):
                ctx = 'file'
            yield {'t': 's', 'fr': fr, 'ctx': ctx, 'v': v}
        elif r < 0.70:
            # several generated strings as neighbours in one list / argv
            frs = [_rand_frags(rng, MORE_ATOMS, 4) for _ in range(rng.randint(2, 5))]
            hashed = [f for f in frs if has_naked_hash(f) and not starts_with_naked_hash(f)]
            frs = ([f for f in frs if not has_naked_hash(f)] + hashed[:1]) or [[['N', 'a']]]
            yield {'t': 'multi', 'frs': frs, 'ctx': rng.choice(('argv', 'list')), 'v': v}
        elif r < 0.80:
            for _ in range(20):
                txt = ''.join(rng.choice(MORE_ATOMS) for _ in range(rng.randint(0, 7)))
                if _eol_text_ok(txt):
                    break
            else:
                txt = 'a'
            yield {'t': 'eol', 'txt': txt, 'ctx': rng.choice(('file', 'defstr', 'argv')), 'v': v}
        elif r < 0.93:
            marker = rng.choice(HERE_MARKERS) if rng.random() < 0.985 else rng.choice(ODD_MARKERS)
            look, other = here_pool(marker)
            lines = [rng.choice(look) if rng.random() < 0.45 else rng.choice(other)
                     for _ in range(rng.randint(0, 6))]
            yield {'t': 'here', 'marker': marker, 'lines': lines, 'ctx': rng.choice(('file', 'defstr', 'argv')), 'v': v}
        elif r < 0.97:
            fr = _rand_frags(rng, MORE_ATOMS, 4)
            if fr[-1][0] == 'N':
                fr.append([rng.choice('SH'), rng.choice(['', 'a', ' ', 'a b', '#', '@[X]@'])])
                if not admissible(fr):
                    fr = [['S', 'a b']]
            yield {'t': 'unq', 'fr': fr, 'ctx': rng.choice(CTXS), 'v': v}
        else:
            marker = rng.choice(HERE_MARKERS)
            look, other = here_pool(marker)
            lines = [rng.choice(look) if rng.random() < 0.6 else rng.choice(other) for _ in range(rng.randint(0, 4))]
            yield {'t': 'unh', 'marker': marker, 'lines': lines, 'ctx': rng.choice(('file', 'defstr', 'argv')),
                   'nonl': bool(lines) and rng.random() < 0.3, 'v': v}


# ---------------------------------------------------------------------------------------------
# rendering of items into instruction lines
# ---------------------------------------------------------------------------------------------
class Rendered:
    """lines + what is known by construction:
       obs: [('file', name, content) | ('probe', id, argv)] ; error: None | 'SYNTAX_ERROR' ; cls/feat/more_cls: class keys"""
    __slots__ = ('lines', 'obs', 'error', 'cls', 'feat', 'more_cls', 'counter', 'n_strings')


def _probe_line(paths, ident, args_src, paren=False):
    head = '%% %s %s %s' % (paths['probe'], paths['out'], probe.ctrl(id=ident))
    if paren:
        return 'run ( ' + head + args_src + ')'
    return head + args_src


def render_item(item, k, paths):
    """k: number of the item inside the case (names are derived from it)."""
    t = item['t']
    v = item['v']
    ctx = item['ctx']
    r = Rendered()
    r.error = None
    r.more_cls = []
    r.n_strings = 1
    fname = 'f%d' % k
    pid = 'p%d' % k

    if t == 's' or t == 'unq' or t == 'multi':
        if t == 'multi':
            frs = item['frs']
            seps = (' ', '  ', '\t', ' ', '   ')
            src = ''.join(source_of(f) + (seps[(v + i) % 5] if i < len(frs) - 1 else '') for i, f in enumerate(frs))
            r.n_strings = len(frs)
            r.more_cls = [(ctx + '-neighbours', '+'.join(kd for kd, _ in f), features(f)) for f in frs]
            elems = []
            for fr in frs:
                elems.extend(elements_of(fr))
            fr = frs[-1]
            pattern = 'multi%d' % len(frs)
            feat = features([x for f in frs for x in f])
            any_reserved = any(is_reserved_token(f) for f in frs)
        else:
            fr = item['fr']
            src = source_of(fr)
            elems = elements_of(fr)
            pattern = '+'.join(kd for kd, _ in fr)
            feat = features(fr)
            any_reserved = is_reserved_token(fr)
        if t == 'unq':
            # remove the closing quote of the last fragment
            src = src[:-1]
            r.error = 'SYNTAX_ERROR'
            pattern += '-unterminated'
        elif any_reserved:
            r.error = 'SYNTAX_ERROR'
            pattern += '-reserved'
        val = value_of(fr) if t != 'multi' else None

        if ctx == 'fname':
            eq = (' = ', '   =   ', '\t= ', ' =\t')[v % 4]
            rel = '-rel-act ' if v % 2 else ''  # with / without explicit relativity (default: current dir = act)
            if t == 'unq':
                r.lines = ['file %s%s%sx' % (rel, src, eq)]
            elif (v // 4) % 5 == 0:
                r.lines = ['file %s%s%s' % (rel, src, ('', '  ', '\t')[(v // 20) % 3])]  # "file PATH": empty file
                r.obs = [] if r.error else [('file', val, '')]
                eq = 'no-contents'
            else:
                r.lines = ["file %s%s%s'c%d'" % (rel, src, eq, k)]
            if t == 'unq' or r.error:
                r.obs = []
            elif eq != 'no-contents':
                r.obs = [('file', val, 'c%d' % k)]
            r.cls = (ctx + ('-rel' if rel else ''), pattern, 'eq%d' % (v % 4) if eq != 'no-contents' else eq)
            r.feat = feat
            r.counter = 'c09.file_names_compared'
            return r

        if ctx == 'file' or ctx == 'defstr':
            if t == 'multi':
                raise ValueError('multi only in list contexts')
            if is_whole_naked_list_ref(fr):
                # not defined for this position: use the soft quoted form
                fr = [['S', fr[0][1]]]
                src = source_of(fr)
                pattern = 'S'
            tail = choose_tail(item)
            sep = (' ', '  ', '\t', ' ')[(v // 7) % 4]
            body = {'eol': src, 'blanks': src + '   ', 'tab-eol': src + '\t', 'plain': src + ' n',
                    'transformed': src + ' -transformed-by identity',
                    'transformed-blanks': src + '   -transformed-by   identity  ',
                    'paren': '( ' + src + ' )', 'paren-transformed': '( ' + src + ' -transformed-by identity )'}[tail]
            if ctx == 'file':
                r.lines = ['file %s =%s%s' % (fname, sep, body)]
            else:
                sname = 'S%d' % k
                how = (v // 3) % 3
                use = ('@[%s]@', '"@[%s]@"', "x@[%s]@'y'")[how] % sname
                r.lines = ['def string %s =%s%s' % (sname, sep, body)]
                if not r.error:
                    r.lines.append('file %s = %s' % (fname, use))
                if how == 2 and val is not None:
                    val = 'x' + val + 'y'
            r.obs = [] if r.error else [('file', fname, val)]
            r.cls = (ctx, pattern, tail)
            r.feat = feat
            r.counter = 'c09.file_contents_compared'
            return r

        # argv / list
        pre_src, pre_el = PRES[(v // 12) % len(PRES)] if ((v // 4) % 3 == 0) else PRES[0]
        post = choose_post(item)
        # a string that starts with a naked `#` is followed by a buffer line: the known deviation S7 swallows the line
        # after it, which would otherwise turn the whole batch into an error
        buffer_line = [_probe_line(paths, 'b%d' % k, ' buffer')] if (t == 's' and starts_with_naked_hash(fr)) else []
        post_el = []
        extra_lines = []
        paren = False
        if post in POSTS:
            post_src, post_el = POSTS[post]
        elif post == 'cont':
            # the continuation marker is separated from the element before it by one blank, several blanks or a tab,
            # and may be followed by blanks before the line ends
            post_src, l2 = [(' \\', '   c1 \\'), ('  \\', 'c1\t\\'), ('\t\\', '   c1    \\'), (' \\ ', ' c1 \t \\  '),
                            ('   \\', 'c1 \\')][v % 5]
            extra_lines = [l2, "\t'c 2'"]
            post_el = ['c1', 'c 2']
        elif post == 'paren':
            post_src = ' '
            paren = True
        elif post == 'paren-close-blank':
            post_src = '   '
            paren = True
        elif post == 'eol-text':
            post_src = " :>  rest 'of  @[X]@ "
            post_el = ["rest 'of  V #x"]
        elif post == 'here':
            post_src = ' <<EOT'
            extra_lines = [' h @[a]@', 'EOT ', 'EOT']
            post_el = [' h A\nEOT \n']
        else:
            raise ValueError(post)
        args_src = ' ' + pre_src + src + post_src
        expected_argv = list(pre_el) + elems + list(post_el)
        if ctx == 'argv':
            r.lines = [_probe_line(paths, pid, args_src, paren)] + extra_lines + buffer_line
            r.obs = [] if r.error else [('probe', pid, expected_argv)]
            r.counter = 'c09.argv_compared'
        else:
            lname = 'L%d' % k
            r.lines = ['def list %s =%s' % (lname, args_src)] + extra_lines + buffer_line
            if not r.error:
                r.lines.append(_probe_line(paths, pid, " @[%s]@ '|' \"@[%s]@\" '|' x@[%s]@" % (lname, lname, lname)))
            joined = ' '.join(expected_argv)
            r.obs = [] if r.error else [('probe', pid, expected_argv + ['|', joined, '|', 'x' + joined])]
            r.counter = 'c09.list_elements_compared'
        if buffer_line and not r.error:
            r.obs.append(('probe', 'b%d' % k, ['buffer']))
        r.cls = (ctx, pattern, post + ('/pre' if pre_src else ''))
        r.feat = feat
        return r

    if t == 'eol':
        txt = item['txt']
        lead, trail = EOL_TEXT_EDGES[v % len(EOL_TEXT_EDGES)]
        if txt == '' and v % 2:
            lead = trail = ''
        src = ':>' + lead + txt + trail
        val = subst(txt.strip(' \t'))
        feat = features([['S', txt]])
        if ctx == 'file':
            r.lines = ['file %s = %s' % (fname, src)]
            r.obs = [('file', fname, val)]
        elif ctx == 'defstr':
            r.lines = ['def string S%d = %s' % (k, src), 'file %s = "@[S%d]@"' % (fname, k)]
            r.obs = [('file', fname, val)]
        else:
            pre_src, pre_el = PRES[v % len(PRES)]
            r.lines = [_probe_line(paths, pid, ' ' + pre_src + src)]
            r.obs = [('probe', pid, list(pre_el) + [val])]
        r.cls = (ctx, ':>', 'edges%d' % (v % len(EOL_TEXT_EDGES)))
        r.feat = feat
        r.counter = 'c09.text_until_eol_compared'
        return r

    if t == 'here' or t == 'unh':
        marker = item['marker']
        lines = item['lines']
        val = ''.join(subst(l) + '\n' for l in lines)
        body = list(lines)
        look = set(here_pool(marker)[0])
        feat = '+'.join(sorted({('marker-look-alike' if l in look else
                                 'header-look-alike' if re.fullmatch(r'\[[a-z-]+\]', l) else
                                 'comment-look-alike' if l.startswith('#') else
                                 'blank-line' if l.strip() == '' else
                                 'instruction-look-alike' if re.match(r'(file|def|including) ', l) else
                                 'quote-char' if ('"' in l or "'" in l) else
                                 'reference' if _REF.search(l) else 'other') for l in lines})) or 'empty-body'
        if t == 'here':
            body.append(marker)
        else:
            r.error = 'SYNTAX_ERROR'
        if ctx == 'file':
            r.lines = ['file %s = <<%s' % (fname, marker)] + body
            r.obs = [('file', fname, val)]
        elif ctx == 'defstr':
            r.lines = ['def string S%d = <<%s' % (k, marker)] + body
            if t == 'here':
                r.lines.append('file %s = @[S%d]@' % (fname, k))
            r.obs = [('file', fname, val)]
        else:
            pre_src, pre_el = PRES[v % len(PRES)]
            r.lines = [_probe_line(paths, pid, ' ' + pre_src + '<<' + marker)] + body
            r.obs = [('probe', pid, list(pre_el) + [val])]
        if t == 'unh':
            r.obs = []
        r.cls = (ctx, '<<' + ('-unterminated' if t == 'unh' else ''), 'lines=%d' % min(len(lines), 3))
        r.feat = feat
        r.counter = 'c09.here_documents_compared'
        return r
    raise ValueError(t)


PRE_LINES = [[], [''], ['# a comment', ''], ['', '# c1', '#c2', '', ''], ['file pre1 = x'], ['file pre1 = x', '', "file pre2 = 'y'"]]


def build_case(items, paths, single, n):
    """-> (text, rendered[], line numbers of the first line of each item)"""
    lines = ['[setup]'] + HEADER
    rendered = []
    first_lines = []
    for k, it in enumerate(items):
        if single:
            lines.extend(PRE_LINES[(it['v'] + n) % len(PRE_LINES)])
        elif (it['v'] + k) % 5 == 0:
            lines.append('')
        elif (it['v'] + k) % 11 == 0:
            lines.append('# comment between instructions')
        r = render_item(it, k, paths)
        first_lines.append(len(lines) + 1)
        lines.extend(r.lines)
        rendered.append(r)
    last_item = items[-1]
    if last_item['t'] == 'unh' and last_item.get('nonl'):
        return '\n'.join(lines), rendered, first_lines  # the text ends inside the unterminated here-document
    ends_with_marker = last_item['t'] == 'here' and last_item['ctx'] in ('file', 'argv')
    if ends_with_marker and last_item['v'] % 4 == 0:
        # the end marker is the last line of the file, with (or without) a final new-line
        text = '\n'.join(lines) + ('' if last_item['v'] % 8 == 0 else '\n')
        return text, rendered, first_lines
    # sentinel: detects a swallowed following line.  No quote characters here (see ASSUMPTIONS)
    lines.append('file zz = sentinel')
    text = '\n'.join(lines) + '\n'
    return text, rendered, first_lines


# ---------------------------------------------------------------------------------------------
# execution and comparison
# ---------------------------------------------------------------------------------------------
def _observe(ses, text, d, out_path):
    """-> (observation dict, RunResult)"""
    if os.path.exists(out_path):
        os.remove(out_path)
    from vf import driver
    driver.write_files(d, {'t.case': text})
    r = ses.run(['--keep', os.path.join(d, 't.case')], cwd=d, mode='keep')
    obs = {'status': None, 'line': None, 'files': {}, 'probes': {}, 'rc': r.rc}
    if r.timed_out or r.exc is not None:
        return obs, r
    first = r.err.split('\n', 1)[0]
    obs['status'] = first
    m = re.search(r'\bline\s+(\d+)', r.err)
    if m:
        obs['line'] = int(m.group(1))
    sds = r.out.strip()
    if sds and os.path.isdir(os.path.join(sds, 'act')):
        act = os.path.join(sds, 'act')
        for name in os.listdir(act):
            p = os.path.join(act, name)
            if os.path.isfile(p):
                with open(p, 'rb') as f:
                    obs['files'][name] = f.read().decode('utf-8', 'surrogateescape')
    for rec in probe.read_records(out_path):
        obs['probes'].setdefault(rec['id'], []).append(rec['argv'])
    ses.clean_tmp()
    return obs, r


_STATUS_RC = {'PASS': 0, 'SYNTAX_ERROR': 65, 'VALIDATION_ERROR': 65}


class _Acc:
    """what one case descriptor produced"""

    def __init__(self):
        self.viol = []
        self.classes = []
        self.samples = []
        self.inconclusive = []
        self.evaluations = 0

    def emit(self, r, outcome):
        self.classes.append(tuple(r.cls) + (outcome,))
        self.classes.append(('content', r.cls[0], r.feat, outcome))
        for c in r.more_cls:
            self.classes.append(tuple(c) + (outcome,))
        self.evaluations += r.n_strings


def _evaluate(ctx, ses, items, case_n, single, acc):
    """Runs one test case made of `items`.  -> True (evaluated) | False (the batch has to be re-run item by item)"""
    d = ses.new_case_dir({})
    out_path = os.path.join(d, 'rec')
    paths = {'probe': probe.PROBE, 'out': out_path}
    try:
        text, rendered, first_lines = build_case(items, paths, single, case_n)
        exp = M.interpret(text, probe.PROBE)
        # ---- self check of the oracle: independent reading == value known by construction -------------
        con_status = 'PASS'
        con_line = None
        for r, fl in zip(rendered, first_lines):
            if r.error:
                con_status, con_line = r.error, fl
                break
        problems = []
        if exp['status'] != con_status or (con_status != 'PASS' and exp['line'] != con_line):
            problems.append('status %r line %r vs construction %r line %r' % (exp['status'], exp['line'], con_status,
                                                                              con_line))
        elif con_status == 'PASS':
            for r in rendered:
                for kind, name, val in r.obs:
                    got = exp['files'].get(name) if kind == 'file' else exp['probes'].get(name)
                    want = val if kind == 'file' else [val]
                    if got != want:
                        problems.append('%s %s: model %r vs construction %r' % (kind, name, got, want))
        if problems:
            raise RuntimeError('oracle self-check failed (harness bug): %s\n%s' % (problems[:3], text))
        ctx.count('c09.model_vs_construction_agree', len(rendered))

        obs, rr = _observe(ses, text, d, out_path)
        if rr.timed_out:
            acc.inconclusive.append('watchdog')
            return True
        shown_text = text.replace(d, '<CASE-DIR>')

        def bad(what, key, expected, observed, src):
            acc.viol.append({'what': 'C09 ' + what,
                             'detail': {'case_text': text, 'probe_path': probe.PROBE, 'obs': key, 'expected': expected,
                                        'observed': observed, 'source': src, 'stderr': rr.err[:600], 'rc': rr.rc}})

        if rr.exc is not None:
            bad('exception escaped MainProgram.execute', 'status', [exp['status'], exp['line']], ['EXCEPTION', None],
                text)
            return True
        status_ok = (obs['status'] == exp['status'] and rr.rc == _STATUS_RC.get(exp['status']))
        if not status_ok and not single:
            return False  # attribute by re-running item by item
        # ---- expected: an error report ------------------------------------------------------------------
        if exp['status'] != 'PASS':
            ctx.count('c09.error_reports_checked')
            r0 = [r for r in rendered if r.error][0]
            src_line = r0.lines[0]
            if not status_ok:
                bad('%s expected at line %d (%s), got %s rc=%s: %r' % (exp['status'], exp['line'], exp['why'],
                                                                     obs['status'], rr.rc, src_line),
                    'status', [exp['status'], exp['line']], [obs['status'], obs['line']], src_line)
            else:
                if obs['line'] != exp['line']:
                    bad('%s reported at line %r, the instruction that contains the error starts at line %d: %r'
                        % (exp['status'], obs['line'], exp['line'], src_line),
                        'status', [exp['status'], exp['line']], [obs['status'], obs['line']], src_line)
                if src_line.rstrip() not in rr.err:
                    bad('error report does not show the source line of the instruction: %r' % src_line,
                        'report-source', src_line, rr.err[:400], src_line)
                if obs['files'] or obs['probes']:
                    bad('instructions were executed although the case has a syntax error', 'executed',
                        {}, {'files': sorted(obs['files']), 'probes': sorted(obs['probes'])}, src_line)
            acc.emit(r0, obs['status'] if obs['status'] in _STATUS_RC else 'other')
            if not acc.samples and r0.cls[1].startswith('<<'):
                acc.samples.append({'case_text': shown_text, 'expected': [exp['status'], 'line %d' % exp['line']],
                                    'observed': [obs['status'], 'line %s' % obs['line']],
                                    'stderr': rr.err[:300]})
            return True
        # ---- expected: PASS --------------------------------------------------------------------------------
        if not status_ok:
            r0 = rendered[0]
            bad('expected PASS, got %s rc=%s for: %r' % (obs['status'], rr.rc, r0.lines[:2]),
                'status', ['PASS', None], [obs['status'], obs['line']], '\n'.join(r0.lines))
            acc.emit(r0, obs['status'] if obs['status'] in _STATUS_RC else 'other')
            return True
        for r in rendered:
            ok = True
            ctx.count(r.counter, r.n_strings)
            for kind, name, _ in r.obs:
                if kind == 'file':
                    want = exp['files'][name]
                    got = obs['files'].get(name)
                    if got != want and got is None:
                        ok = False
                        bad('no file with the denoted name %r was created by %r; files created: %r'
                            % (name, r.lines[0][:120], sorted(set(obs['files']) - set(exp['files']))),
                            'file:' + name, want, got, '\n'.join(r.lines))
                    elif got != want:
                        ok = False
                        bad('file contents differ from the documented reading of %r: expected %r, observed %r'
                            % (r.lines[0][:120], want, got), 'file:' + name, want, got, '\n'.join(r.lines))
                else:
                    want = exp['probes'][name]
                    got = obs['probes'].get(name)
                    if got != want:
                        ok = False
                        bad('argv differs from the documented reading of %r: expected %r, observed %r'
                            % (r.lines[0].replace(out_path, 'OUT')[-140:], want[0], got[0] if got else got),
                            'probe:' + name, want, got, '\n'.join(r.lines))
            acc.emit(r, 'ok' if ok else 'differs')
        # nothing else may have been created / run, and the following instruction (sentinel) must be intact
        extra_files = sorted(set(obs['files']) - set(exp['files']))
        missing_files = sorted(n for n in set(exp['files']) - set(obs['files']) if n in ('zz', 'pre1', 'pre2'))
        if extra_files or missing_files:
            bad('set of created files differs: unexpected %r, missing %r' % (extra_files, missing_files), 'fileset',
                sorted(exp['files']), sorted(obs['files']), text)
        for n in ('zz', 'pre1', 'pre2'):
            if n in exp['files'] and n in obs['files'] and obs['files'][n] != exp['files'][n]:
                bad('a neighbouring instruction was read differently (file %s)' % n, 'file:' + n, exp['files'][n],
                    obs['files'][n], text)
        extra_probes = sorted(set(obs['probes']) - set(exp['probes']))
        if extra_probes:
            bad('unexpected probe invocations %r' % extra_probes, 'probeset', sorted(exp['probes']),
                sorted(obs['probes']), text)
        if not acc.samples:
            acc.samples.append({'case_text': shown_text,
                                'expected': {'files': exp['files'], 'probes': exp['probes']},
                                'observed': {'files': obs['files'], 'probes': obs['probes']}})
        return True
    finally:
        ses.drop(d)


_KNOWN_KEPT = {}
_KEEP_PER_KEY = 3


def _thin_out_known(ctx, viol):
    """The worker stores at most 200 violations; S7/S8 produce thousands of witnesses of one mechanism each.  A
    violation that the KNOWN predicate of an OPEN known-findings key recognises is counted; only the first few per
    key and worker are passed on (the parent classifies those again with the same predicate).  Everything else -
    also everything when the key is not listed as open - is passed on unchanged."""
    try:
        from vf import known
        open_keys = [k for k in known.open_keys(ID) if k in KNOWN]
    except Exception:
        open_keys = []
    if not open_keys:
        return viol
    kept = []
    for v in viol:
        key = None
        for k in open_keys:
            try:
                if KNOWN[k](v):
                    key = k
                    break
            except Exception:
                pass
        if key is None:
            kept.append(v)
            continue
        ctx.count('c09.known_%s_witnesses' % key)
        if _KNOWN_KEPT.get(key, 0) < _KEEP_PER_KEY:
            _KNOWN_KEPT[key] = _KNOWN_KEPT.get(key, 0) + 1
            kept.append(v)
    return kept


# ---------------------------------------------------------------------------------------------
# symbol names with non-ASCII alphanumeric characters (SYMBOL-NAME: "a combination of alphanumeric characters and
# underscores"; `def` accepts them): references to them must be substituted like any other, in every string form
# ---------------------------------------------------------------------------------------------
UNICODE_NAMES = ['größe', 'naïve', 'é', 'x_ü9', 'Ω']


def _unicode_symbol_cases():
    for i, name in enumerate(UNICODE_NAMES):
        for lname in ('lïst', 'L2'):
            yield {'kind': 'unicode-sym', 'name': name, 'lname': lname, 'n': i}


def run_unicode_sym(case, ctx):
    from vf import probe
    import os
    ses = ctx.get_session()
    name, lname = case['name'], case['lname']
    d = ses.new_case_dir({})
    rec = os.path.join(d, 'rec.jsonl')
    V = 'V 2'
    lines = ['[setup]',
             "def string %s = '%s'" % (name, V),
             'def list %s = p q' % lname,
             'file f1 = @[%s]@' % name,
             'file f2 = "pre@[%s]@post"' % name,
             "file f3 = 'hard @[%s]@'" % name,
             'file f4 = <<EOF', 'here @[%s]@ doc' % name, 'EOF',
             'file f5 = :> text @[%s]@ end' % name,
             'file f6 = x@[%s]@' % name,
             '%% %s %s id=u @[%s]@ x@[%s]@ "@[%s]@" @[%s]@ \'@[%s]@\'' % (probe.PROBE, rec, name, name, lname, lname, name),
             '[act]', '$ true']
    text = '\n'.join(lines) + '\n'
    with open(os.path.join(d, 't.case'), 'w', encoding='utf-8') as f:
        f.write(text)
    r = ses.run(['--keep', os.path.join(d, 't.case')], cwd=d, mode='keep')
    viol, inconc = [], []
    want_files = {'f1': V, 'f2': 'pre' + V + 'post', 'f3': 'hard @[%s]@' % name, 'f4': 'here %s doc\n' % V,
                  'f5': 'text %s end' % V, 'f6': 'x' + V}
    want_argv = [V, 'x' + V, 'p q', 'p', 'q', '@[%s]@' % name]
    nev = 0
    if r.timed_out:
        inconc.append('watchdog')
    elif r.exc is not None or r.rc != 0:
        viol.append({'what': 'C09 symbol named %r (alphanumeric, accepted by def): case using references to it does not '
                             'PASS: %s' % (name, (r.err or str(r.exc))[:200]), 'detail': {'case_text': text}})
    else:
        sds = r.out.strip()
        for fn, want in want_files.items():
            nev += 1
            ctx.count('c09.unicode_symbol_observations')
            try:
                with open(os.path.join(sds, 'act', fn), encoding='utf-8') as f:
                    got = f.read()
            except OSError as ex:
                got = '<%s>' % ex
            if got != want:
                viol.append({'what': 'C09 reference to the symbol %r in `%s`: file holds %r, the syntax denotes %r' %
                                     (name, [l for l in lines if l.startswith('file ' + fn)][0], got, want),
                             'detail': {'case_text': text, 'kind': 'unicode-sym'}})
        recs = probe.read_records(rec)
        nev += 1
        ctx.count('c09.unicode_symbol_observations')
        if len(recs) != 1 or recs[0]['argv'] != want_argv:
            viol.append({'what': 'C09 references to the symbols %r / %r as program arguments: argv %r, the syntax denotes %r'
                                 % (name, lname, recs[0]['argv'] if recs else None, want_argv),
                         'detail': {'case_text': text, 'kind': 'unicode-sym'}})
    ses.clean_tmp()
    ses.drop(d)
    return {'classes': [('unicode-sym', name, lname)], 'viol': viol, 'inconclusive': inconc, 'evaluations': max(nev, 1),
            'sample': {'case_text': text.replace(probe.PROBE, 'PROBE'), 'expected_files': want_files,
                       'expected_argv': want_argv} if name == 'größe' and lname == 'L2' else None}


# ---------------------------------------------------------------------------------------------
# quote characters inside here-documents / :> text that are followed by MORE tokens of the same instruction, and quoted
# words that look like options (a quoted word is a STRING, never an option)
# ---------------------------------------------------------------------------------------------
QUOTE_WORDS = ["don't panic", "it's \"x", '"open', "a 'b", "''' x", 'say "hi']
OPTION_WORDS = ['-existing-file', '-existing-dir', '-existing-path', '-python', '-rel-act', '-contents-of', '-stdout-from',
                '-stderr-from', '-transformed-by', '-stdin', '-ignore-exit-code', '-rel-home',
                # quoted look-alikes of the markers that start a text-until-end-of-line / a here-document
                ':>', '<<EOF', '<<', '-rel']


def _quote_follow_cases():
    for i, w in enumerate(QUOTE_WORDS):
        yield {'kind': 'quote-follow', 'word': w, 'n': i}
    for i in range(0, len(OPTION_WORDS), 4):
        for q in ("'", '"'):
            yield {'kind': 'quoted-option', 'words': OPTION_WORDS[i:i + 4], 'q': q, 'n': i}


def run_quote_follow(case, ctx):
    from vf import probe
    import os
    ses = ctx.get_session()
    d = ses.new_case_dir({'data.txt': 'data'})
    rec = os.path.join(d, 'rec.jsonl')
    want_files = {}
    want_argv = None
    if case['kind'] == 'quote-follow':
        w = case['word']
        lines = ['[setup]',
                 'file f1 = <<EOF', w, 'EOF', ' -transformed-by identity',
                 'dir d = {', '  file a = <<EOF', w, 'EOF', '  file b = :> ' + w, '  file c', '}',
                 'file f4 = :> ' + w,
                 'file f5 = <<EOF', w, 'second line', 'EOF',
                 'def string AFTER = after',
                 'file f6 = @[AFTER]@',
                 '[act]', '$ true',
                 '[assert]',
                 'contents f1 : ( equals <<EOF', w, 'EOF', ' )',
                 'contents f5 : ( num-lines == 2 && equals <<EOF', w, 'second line', 'EOF', ' )']
        want_files = {'f1': w + '\n', 'd/a': w + '\n', 'd/b': w, 'd/c': '', 'f4': w, 'f5': w + '\nsecond line\n',
                      'f6': 'after'}
    else:
        q = case['q']
        ws = case['words']
        lines = ['[setup]']
        for k, ow in enumerate(ws):
            lines.append('file o%d = %s%s%s' % (k, q, ow, q))
            want_files['o%d' % k] = ow
        lines.append('%% %s %s id=q %s data.txt last' % (probe.PROBE, rec, ' '.join(q + ow + q for ow in ws)))
        lines.append('def list OL = %s' % ' '.join(q + ow + q for ow in ws))
        lines.append('%% %s %s id=l @[OL]@' % (probe.PROBE, rec))
        lines += ['[act]', '$ true']
        want_argv = [ws + ['data.txt', 'last'], list(ws)]
    text = '\n'.join(lines) + '\n'
    with open(os.path.join(d, 't.case'), 'w', encoding='utf-8') as f:
        f.write(text)
    r = ses.run(['--keep', os.path.join(d, 't.case')], cwd=d, mode='keep')
    viol, inconc = [], []
    nev = 0
    label = 'quote followed by more tokens (%r)' % case.get('word') if case['kind'] == 'quote-follow' else \
        'quoted option-like words %r' % (case['words'],)
    if r.timed_out:
        inconc.append('watchdog')
    elif r.exc is not None or r.rc != 0:
        viol.append({'what': 'C09 %s: the case does not PASS: %s' % (label, (r.err or str(r.exc))[:300]),
                     'detail': {'case_text': text}})
    else:
        sds = r.out.strip()
        for fn, want in want_files.items():
            nev += 1
            ctx.count('c09.quote_follow_observations')
            try:
                with open(os.path.join(sds, 'act', fn), encoding='utf-8') as f:
                    got = f.read()
            except OSError as ex:
                got = '<%s>' % ex
            if got != want:
                viol.append({'what': 'C09 %s: file %s holds %r, the syntax denotes %r' % (label, fn, got, want),
                             'detail': {'case_text': text}})
        if want_argv is not None:
            recs = [x['argv'] for x in probe.read_records(rec)]
            nev += 1
            ctx.count('c09.quote_follow_observations')
            if recs != want_argv:
                viol.append({'what': 'C09 %s as program arguments / list elements: argv %r, the syntax denotes %r' %
                                     (label, recs, want_argv), 'detail': {'case_text': text}})
    ses.clean_tmp()
    ses.drop(d)
    return {'classes': [(case['kind'], case['n'], case.get('q', ''))], 'viol': viol, 'inconclusive': inconc,
            'evaluations': max(nev, 1)}


def run_case(case, ctx):
    if case.get('kind') in ('quote-follow', 'quoted-option'):
        return run_quote_follow(case, ctx)
    if case.get('kind') == 'unicode-sym':
        r = run_unicode_sym(case, ctx)
        if r.get('sample') is None:
            r.pop('sample', None)
        return r
    ses = ctx.get_session()
    items = case['items']
    single = len(items) == 1
    acc = _Acc()
    n = case.get('n', 0)
    if not _evaluate(ctx, ses, items, n, single, acc):
        ctx.count('c09.batches_rerun_item_by_item')
        for it in items:
            _evaluate(ctx, ses, [it], n, True, acc)
    out = {'classes': acc.classes, 'viol': _thin_out_known(ctx, acc.viol), 'inconclusive': acc.inconclusive,
           'evaluations': acc.evaluations}
    if acc.samples and (n % 331 == 5 or (single and n % 53 == 0)):
        out['sample'] = acc.samples[0]
    return out


# ---------------------------------------------------------------------------------------------
# known findings: keyed by mechanism = the observation equals what the documented reading PLUS the named deviation
# predicts (vf/models/strings.py, `defects`), for the very case text that was run
# ---------------------------------------------------------------------------------------------
def _observation_of(result, key):
    if key == 'status':
        return [result['status'], result['line']]
    if key.startswith('file:'):
        return result['files'].get(key[5:])
    if key.startswith('probe:'):
        return result['probes'].get(key[6:])
    if key == 'fileset':
        return sorted(result['files'])
    if key == 'probeset':
        return sorted(result['probes'])
    return NotImplemented


_DEFECTS = ('S7', 'S8', 'H1')


def _predicted_by(defect):
    """Predicate of the known finding `defect`: the observation is exactly what the documented reading of the case
    text predicts when the named deviation (vf/models/strings.py, `defects`) is switched on - alone, or together with
    other deviations that are listed as open, provided that this one is needed to explain the observation."""

    def pred(v):
        d = v.get('detail') or {}
        key = d.get('obs')
        if key is None or 'case_text' not in d:
            return False
        observed = d.get('observed')
        if key == 'status' and isinstance(observed, list) and observed and observed[0] == 'EXCEPTION':
            return False
        others = []
        try:
            from vf import known
            others = [k for k in known.open_keys(ID) if k in _DEFECTS and k != defect]
        except Exception:
            pass
        text, pp = d['case_text'], d.get('probe_path')

        def predicted(ds):
            p = M.interpret(text, pp, ds)
            if p['status'] == 'UNPREDICTABLE':
                return NotImplemented
            return _observation_of(p, key)

        if predicted(()) == observed:
            return False
        for n in range(len(others) + 1):
            for sub in itertools.combinations(others, n):
                if predicted((defect,) + sub) == observed and (not sub or predicted(sub) != observed):
                    return True
        return False

    return pred


KNOWN = {
    'S7': _predicted_by('S7'),
    'S8': _predicted_by('S8'),
    'H1': _predicted_by('H1'),
}
