"""C06 Expression grammar: precedence, associativity, parentheses, layout, laziness, malformed input.
Generated expression trees are rendered with minimal / redundant parentheses and hostile (but permitted) layout in
every host type through its instruction; the observed value (verdict, selected lines, output text) and the trace of
evaluated operands (probe programs as primitives) must be those of the generating tree."""
import itertools
import os

from vf import common, probe

ID = 'C06'
LEVEL = 'exploration'
RULE = ('one case = one real CLI run holding up to 12 instructions, one per rendered expression, each in the polarity '
        'the generating tree predicts (so the case must PASS; otherwise each is re-run singly); line and transformer '
        'hosts are observed through output files, laziness through the log written by probe primitives; malformed '
        'token sequences must be rejected (exit 65) unless an independent recogniser of the documented grammar accepts '
        'them. evaluations = expressions judged. class key = (host, tree shape, layout style) or (malformed, host, '
        'defect kind, accepted-by-recogniser)')
ASSUMPTIONS = ['line breaks are generated only inside parentheses (after "(", before ")", before/after an infix '
               'operator, after "!"): elsewhere the manual does not define the result',
               'operators and parentheses are separated by whitespace (manual); glued forms are other tokens',
               'integer-matcher evaluation order is unobservable at the boundary and only its value is claimed',
               'a malformed expression may be rejected as SYNTAX_ERROR or, when the stray token is a plain word in '
               'operand position (read as a symbol name), as VALIDATION_ERROR for an undefined symbol: both are '
               'rejections, neither is a silent re-reading']
EXHAUSTIVE_NOTE = ('all trees with <=3 leaves (binary/ternary/negated shapes) x leaf truth assignments, rendered with '
                   'minimal and with full parentheses, in each of the five matcher hosts; all 1-3 step transformer '
                   'chains x all parenthesisations')
MIN_OBS = {'quick': {'evaluations': 4500, 'c06.values_compared': 4000, 'c06.laziness_traces_compared': 500,
                     'c06.malformed_judged': 400},
           'thorough': {'evaluations': 60000, 'c06.values_compared': 50000, 'c06.laziness_traces_compared': 8000,
                        'c06.malformed_judged': 6000}}

HOSTS = ['integer', 'text', 'line', 'file', 'files']
BATCH = 12
TEXT = 'a\nb\nc\n'


# ============================================================================================ trees
# tree:  ['p', truth, kind_index] | ['not', t] | ['and', [t...]] | ['or', [t...]]

def ev(t):
    k = t[0]
    if k == 'p':
        return t[1]
    if k == 'not':
        return not ev(t[1])
    if k == 'and':
        return all(ev(x) for x in t[1])
    return any(ev(x) for x in t[1])


def trace(t, out):
    """ids of probe primitives evaluated under lazy left-to-right evaluation, in order; returns the value"""
    k = t[0]
    if k == 'p':
        if len(t) > 3 and t[3] is not None:
            out.append(t[3])
        return t[1]
    if k == 'not':
        return not trace(t[1], out)
    if k == 'and':
        for x in t[1]:
            if not trace(x, out):
                return False
        return True
    for x in t[1]:
        if trace(x, out):
            return True
    return False


def shape(t):
    k = t[0]
    if k == 'p':
        return 'r' if (len(t) > 3 and t[3] is not None) else 'p'
    if k == 'not':
        return '!' + shape(t[1])
    return ('&' if k == 'and' else '|') + '(' + ''.join(shape(x) for x in t[1]) + ')'


PREC = {'or': 1, 'and': 2, 'not': 3, 'p': 4}


def prim_src(host, truth, kind, pid, log):
    """source text of a primitive of `host` with the given truth value on the fixed model"""
    if pid is not None:
        ctrl = probe.ctrl(mark='%s:%s' % (log, pid), rc=0 if truth else 1)
        if host == 'text':
            return ['(', 'run', '%', probe.PROBE, '-', ctrl, ')']
        if host == 'file':
            return ['(', 'run', '%', probe.PROBE, '-', ctrl, ')']
    if host == 'integer':     # model: exit code 2
        T = [['==', '2'], ['>', '1'], ['<=', '2'], ['!=', '3'], ['constant', 'true'], ['>=', '-1']]
        F = [['==', '1'], ['<', '2'], ['>', '2'], ['!=', '2'], ['constant', 'false'], ['==', '1+2']]
    elif host == 'text':      # model: 'a\nb\nc\n'
        T = [['num-lines', '==', '3'], ['matches', 'b'], ['constant', 'true'], ['any', 'line', ':', 'line-num', '==', '3'],
             ['every', 'line', ':', 'contents', 'matches', '.'], ['equals', '<<EOF\na\nb\nc\nEOF\n']]
        F = [['is-empty'], ['num-lines', '>', '3'], ['matches', 'z'], ['constant', 'false'],
             ['any', 'line', ':', 'line-num', '>', '3'], ['matches', '-full', 'a']]
    elif host == 'file':      # model: regular file f.txt
        T = [['type', 'file'], ['name', 'f*'], ['constant', 'true'], ['suffix', '.txt'], ['contents', 'matches', 'a']]
        F = [['type', 'dir'], ['name', 'z*'], ['constant', 'false'], ['type', 'symlink'], ['contents', 'is-empty']]
    elif host == 'files':     # model: directory with x, y
        T = [['num-files', '==', '2'], ['constant', 'true'], ['every', 'file', ':', 'type', 'file'],
             ['num-files', '>=', '1']]
        F = [['is-empty'], ['num-files', '>', '2'], ['constant', 'false'], ['any', 'file', ':', 'type', 'dir']]
    else:
        raise ValueError(host)
    L = T if truth else F
    return list(L[kind % len(L)])


def line_prim(kind):
    """line-matcher primitives: (tokens, predicate(n, text))"""
    P = [(['line-num', '==', '2'], lambda n, t: n == 2),
         (['line-num', '>', '1'], lambda n, t: n > 1),
         (['line-num', '<=', '2'], lambda n, t: n <= 2),
         (['contents', 'matches', 'a'], lambda n, t: 'a' in t),
         (['contents', 'matches', '[bc]'], lambda n, t: t in 'bc' and t != ''),
         (['constant', 'true'], lambda n, t: True),
         (['constant', 'false'], lambda n, t: False),
         (['line-num', '!=', '3'], lambda n, t: n != 3)]
    return P[kind % len(P)]


def ev_line(t, n, text):
    k = t[0]
    if k == 'p':
        return line_prim(t[2])[1](n, text)
    if k == 'not':
        return not ev_line(t[1], n, text)
    if k == 'and':
        return all(ev_line(x, n, text) for x in t[1])
    return any(ev_line(x, n, text) for x in t[1])


def tokens(t, host, log, paren_mode, rng, parent_prec=0):
    """token list of the rendered tree.  paren_mode: 'min' | 'full' | 'rand'"""
    k = t[0]
    if k == 'p':
        if host == 'line':
            toks = list(line_prim(t[2])[0])
        else:
            toks = prim_src(host, t[1], t[2], t[3] if len(t) > 3 else None, log)
        if toks and toks[0] == '(':
            return toks
        # a primitive with arguments inside a `!` or infix context is still a primitive; redundant parens optional
        if paren_mode == 'full' or (paren_mode == 'rand' and rng.random() < 0.25):
            return ['('] + toks + [')']
        return toks
    if k == 'not':
        inner = tokens(t[1], host, log, paren_mode, rng, PREC['not'])
        toks = ['!'] + inner
    else:
        op = '&&' if k == 'and' else '||'
        toks = []
        for i, x in enumerate(t[1]):
            if i:
                toks.append(op)
            toks.extend(tokens(x, host, log, paren_mode, rng, PREC[k]))
    need = PREC[k] < parent_prec or (PREC[k] == parent_prec and k != 'not' and False)
    if need or paren_mode == 'full' or (paren_mode == 'rand' and rng.random() < 0.3):
        return ['('] + toks + [')']
    return toks


def layout(toks, style, rng):
    """join tokens; styles: 0 single blanks, 1 extra blanks/tabs, 2 line breaks at permitted places (inside parens)"""
    out = []
    depth = 0
    for i, tok in enumerate(toks):
        sep = ' '
        if i == 0:
            sep = ''
        else:
            prev = toks[i - 1]
            permitted = depth > 0 and (prev in ('(', '&&', '||', '!') or tok in (')', '&&', '||')) \
                and '\n' not in prev
            if style == 1:
                sep = rng.choice([' ', '  ', ' \t ', '   '])
            elif style == 2 and permitted and rng.random() < 0.6:
                sep = rng.choice(['\n', '\n   ', ' \n\n  ', '\n\t'])
            elif style == 2:
                sep = rng.choice([' ', '  '])
        if prev_ends_with_newline(out):
            sep = sep.lstrip(' ') if sep.strip(' \t') == '' else sep
        out.append(sep + tok)
        if tok == '(':
            depth += 1
        elif tok == ')':
            depth -= 1
    return ''.join(out)


def prev_ends_with_newline(out):
    return bool(out) and out[-1].endswith('\n')


# ============================================================================================ generation
def _shapes_small():
    """all shapes with <= 3 leaves"""
    P = lambda: ['p', None, 0, None]
    s = []
    s.append(P())
    s.append(['not', P()])
    s.append(['not', ['not', P()]])
    for op in ('and', 'or'):
        s.append([op, [P(), P()]])
        s.append([op, [P(), P(), P()]])
        s.append(['not', [op, [P(), P()]]])
        s.append([op, [['not', P()], P()]])
        s.append([op, [P(), ['not', P()]]])
        other = 'or' if op == 'and' else 'and'
        s.append([op, [[other, [P(), P()]], P()]])
        s.append([op, [P(), [other, [P(), P()]]]])
        s.append([op, [['not', [other, [P(), P()]]], P()]])
        s.append([op, [[op, [P(), P()]], P()]])
        s.append([op, [P(), [op, [P(), P()]]]])
    return s


def _leaves(t, acc):
    if t[0] == 'p':
        acc.append(t)
    elif t[0] == 'not':
        _leaves(t[1], acc)
    else:
        for x in t[1]:
            _leaves(x, acc)
    return acc


def _copy(t):
    if t[0] == 'p':
        return list(t)
    if t[0] == 'not':
        return ['not', _copy(t[1])]
    return [t[0], [_copy(x) for x in t[1]]]


def _rand_tree(rng, depth, width):
    if depth == 0 or rng.random() < 0.25:
        return ['p', rng.random() < 0.5, rng.randrange(50), None]
    r = rng.random()
    if r < 0.25:
        return ['not', _rand_tree(rng, depth - 1, width)]
    return [rng.choice(('and', 'or')), [_rand_tree(rng, depth - 1, width) for _ in range(rng.randrange(2, width + 1))]]


def _batches(it, size):
    b = []
    for x in it:
        b.append(x)
        if len(b) == size:
            yield b
            b = []
    if b:
        yield b


MAL_KINDS = ['del', 'dup', 'swap', 'unbalanced_open', 'unbalanced_close', 'op_at_start', 'op_at_end', 'double_op',
             'infix_after_simple_ctx', 'empty_parens', 'missing_operand_after_not', 'op_typo_in_chain',
             'quoted_operator']


def cases(tier, seed):
    # ---- core: all small shapes x truth assignments x {min, full} parens, each host ---------------------
    items = []
    for host in HOSTS:
        for sh in _shapes_small():
            n = len(_leaves(sh, []))
            for bits in itertools.product((True, False), repeat=n):
                for pm in ('min', 'full'):
                    t = _copy(sh)
                    for leaf, b, j in zip(_leaves(t, []), bits, range(n)):
                        leaf[1] = b
                        leaf[2] = j + (3 if pm == 'full' else 0)
                    items.append({'host': host, 'tree': t, 'parens': pm, 'style': 0 if pm == 'min' else 2,
                                  'lseed': len(items)})
    for host in HOSTS:
        for bi, b in enumerate(_batches((x for x in items if x['host'] == host), BATCH)):
            yield {'kind': 'value', 'host': host, 'items': b}
            if host == 'text' and bi % 2 == 0:
                yield {'kind': 'value', 'host': host, 'items': b, 'via': ('run', 'run-seq')[(bi // 2) % 2]}
    # ---- core: laziness with probe primitives (text and file hosts) -----------------------------------
    lz = []
    for host in ('text', 'file'):
        for sh in _shapes_small():
            n = len(_leaves(sh, []))
            if n < 2:
                continue
            for bits in itertools.product((True, False), repeat=n):
                t = _copy(sh)
                for leaf, b, j in zip(_leaves(t, []), bits, range(n)):
                    leaf[1] = b
                    leaf[3] = 'P%d' % j
                lz.append({'host': host, 'tree': t, 'parens': 'min', 'style': (len(lz) % 3), 'lseed': len(lz)})
    for x in lz:
        yield {'kind': 'lazy', 'host': x['host'], 'items': [x]}
    # ---- core: transformer chains ----------------------------------------------------------------------
    steps = [['replace', 'a', 'b'], ['replace', 'b', 'c'], ['replace', 'c', 'a'], ['char-case', '-to-upper'],
             ['replace', 'A', 'x'], ['filter', 'line-num', '>', '1'], ['strip'], ['identity']]
    chains = []
    for n in (1, 2, 3):
        for combo in itertools.product(range(len(steps)), repeat=n):
            if n == 3 and (sum(combo) % 4 != 0):
                continue
            chains.append([steps[i] for i in combo])
    for i, b in enumerate(_batches(chains, BATCH)):
        yield {'kind': 'chain', 'chains': b, 'lseed': i}
    # ---- core: malformed ----------------------------------------------------------------------------------
    mi = 0
    for host in HOSTS + ['transformer']:
        for kind in MAL_KINDS:
            for v in range((4 if tier == 'quick' else 12) * (3 if kind == 'op_typo_in_chain' else 1)):
                yield {'kind': 'malformed', 'host': host, 'defect': kind, 'variant': v}
                mi += 1
    # ---- seeded -------------------------------------------------------------------------------------------
    rng = common.rng_for(seed, ID)
    n_val = 600 if tier == 'quick' else 5000
    for _ in range(n_val):
        host = rng.choice(HOSTS)
        b = []
        for _ in range(BATCH):
            b.append({'host': host, 'tree': _rand_tree(rng, rng.choice((2, 3, 4)), rng.choice((2, 3, 4))),
                      'parens': rng.choice(('min', 'rand', 'rand', 'full')), 'style': rng.choice((0, 1, 2, 2)),
                      'lseed': rng.randrange(10 ** 6)})
        yield {'kind': 'value', 'host': host, 'items': b,
               'via': rng.choice((None, 'run', 'run-seq')) if host == 'text' else None}
    n_lazy = 1200 if tier == 'quick' else 10000
    for _ in range(n_lazy):
        host = rng.choice(('text', 'file'))
        t = _rand_tree(rng, rng.choice((2, 3)), 3)
        for j, leaf in enumerate(_leaves(t, [])):
            if rng.random() < 0.7:
                leaf[3] = 'P%d' % j
        yield {'kind': 'lazy', 'host': host, 'items': [{'host': host, 'tree': t, 'parens': rng.choice(('min', 'rand')),
                                                        'style': rng.choice((0, 1, 2)), 'lseed': rng.randrange(10 ** 6)}]}
    n_mal = 800 if tier == 'quick' else 8000
    for _ in range(n_mal):
        yield {'kind': 'malformed', 'host': rng.choice(HOSTS + ['transformer']), 'defect': rng.choice(MAL_KINDS),
               'variant': rng.randrange(10 ** 6)}


# ============================================================================================ execution
def _instr(host, expr, positive, out_name=None, via=None):
    """the instruction that hosts the expression (expression wrapped in parentheses: the host argument may be
    restricted to a simple expression; precedence INSIDE the parentheses is what is tested)"""
    e = '( ' + expr + ' )'
    if not positive:
        e = '! ' + e
    if host == 'integer':
        return 'exit-code ' + e
    if host == 'text':
        if via == 'run':
            # the model is the output of a program (a text that is cached the first time an operand reads it)
            return 'contents t.txt : -transformed-by run % cat\n ' + e
        if via == 'run-seq':
            return 'contents t.txt : -transformed-by ( run % cat\n | identity ) ' + e
        return 'contents t.txt : ' + e
    if host == 'file':
        return 'exists f.txt : ' + e
    if host == 'files':
        return 'dir-contents d : ' + e
    raise ValueError(host)


def _files():
    return {'t.txt': TEXT, 'f.txt': 'a\n', 'd/x': '', 'd/y': ''}


SETUP = ['copy t.txt', 'copy f.txt', 'copy d']


def _run(ses, d, setup, asserts, keep=False):
    text = '[setup]\n' + '\n'.join(SETUP + setup) + '\n[act]\n$ exit 2\n[assert]\n' + '\n'.join(asserts) + '\n'
    with open(os.path.join(d, 't.case'), 'w') as f:
        f.write(text)
    argv = (['--keep'] if keep else []) + [os.path.join(d, 't.case')]
    return ses.run(argv, cwd=d, mode='keep' if keep else 'normal'), text


def run_value(case, ctx):
    ses = ctx.get_session()
    d = ses.new_case_dir(_files())
    host = case['host']
    viol, inconc, classes = [], [], []
    rendered = []
    for i, it in enumerate(case['items']):
        rng = common.rng_for(it['lseed'], 'layout')
        toks = tokens(it['tree'], host, None, it['parens'], rng)
        src = layout(toks, it['style'], rng)
        rendered.append(src)
    if host == 'line':
        setup = ['file o%d = -contents-of -rel-act t.txt -transformed-by filter ( %s )' % (i, s)
                 for i, s in enumerate(rendered)]
        r, text = _run(ses, d, setup, [], keep=True)
        if r.timed_out:
            inconc.append('watchdog')
        elif r.exc is not None or r.rc != 0:
            # find the culprit(s) singly
            for i, s in enumerate(rendered):
                r1, t1 = _run(ses, d, [setup[i]], [], keep=True)
                if r1.rc != 0:
                    viol.append({'what': 'C06 line-matcher expression rejected or failing (%s): %r' %
                                         ((r1.out.strip() or r1.err[:80]), s), 'detail': {'case_text': t1, 'stderr': r1.err[:600]}})
        else:
            sds = r.out.strip()
            lines = TEXT.split('\n')[:-1]
            for i, it in enumerate(case['items']):
                want = ''.join(l + '\n' for n, l in enumerate(lines, 1) if ev_line(it['tree'], n, l))
                try:
                    with open(os.path.join(sds, 'act', 'o%d' % i)) as f:
                        got = f.read()
                except OSError:
                    got = None
                ctx.count('c06.values_compared')
                if got != want:
                    viol.append({'what': 'C06 filter ( %s ) keeps %r; the tree it was rendered from (! > && > ||) keeps %r'
                                         % (rendered[i].replace('\n', '\\n'), got, want),
                                 'detail': {'tree': it['tree'], 'rendered': rendered[i]}})
                classes.append(('line', shape(it['tree']), it['parens'], it['style']))
    else:
        asserts = [_instr(host, s, ev(it['tree']), via=case.get('via')) for s, it in zip(rendered, case['items'])]
        r, text = _run(ses, d, [], asserts)
        if r.timed_out:
            inconc.append('watchdog')
        else:
            singles = None
            if r.exc is not None or not (r.rc == 0 and r.out == 'PASS\n'):
                singles = []
                for a in asserts:
                    r1, t1 = _run(ses, d, [], [a])
                    singles.append(r1)
            for i, it in enumerate(case['items']):
                ctx.count('c06.values_compared')
                ok = True if singles is None else (singles[i].rc == 0 and singles[i].out == 'PASS\n')
                if not ok:
                    r1 = singles[i]
                    viol.append({'what': 'C06 %s expression %r: value differs from the tree it was rendered from '
                                         '(expected %s; outcome of the polarity-adjusted assertion: %s)' %
                                         (host, rendered[i].replace('\n', '\\n'), ev(it['tree']),
                                          r1.out.strip() or r1.rc),
                                 'detail': {'tree': it['tree'], 'assertion': asserts[i], 'stderr': r1.err[:500]}})
                classes.append((host, shape(it['tree']), it['parens'], it['style']))
    ses.clean_tmp()
    ses.drop(d)
    res = {'classes': classes, 'viol': viol, 'inconclusive': inconc, 'evaluations': len(case['items'])}
    if case['items'][0]['style'] == 2 and len(rendered[0]) > 30:
        res['sample'] = {'host': host, 'rendered': rendered[0], 'tree': case['items'][0]['tree'],
                         'expected_value': ev(case['items'][0]['tree']) if host != 'line' else 'lines'}
    return res


def run_lazy(case, ctx):
    ses = ctx.get_session()
    d = ses.new_case_dir(_files())
    host = case['host']
    it = case['items'][0]
    log = os.path.join(d, 'lazy.log')
    rng = common.rng_for(it['lseed'], 'layout')
    toks = tokens(it['tree'], host, log, it['parens'], rng)
    src = layout(toks, it['style'], rng)
    want_trace = []
    val = trace(it['tree'], want_trace)
    a = _instr(host, src, val)
    r, text = _run(ses, d, [], [a])
    viol, inconc = [], []
    if r.timed_out:
        inconc.append('watchdog')
    else:
        got = []
        if os.path.exists(log):
            with open(log) as f:
                got = f.read().split()
        ctx.count('c06.laziness_traces_compared')
        ctx.count('c06.values_compared')
        if r.exc is not None or not (r.rc == 0 and r.out == 'PASS\n'):
            viol.append({'what': 'C06 %s expression with program primitives %r: value differs from its tree (expected '
                                 '%s; outcome %s)' % (host, src.replace(probe.PROBE, 'PROBE').replace('\n', '\\n'), val,
                                                      r.out.strip() or r.rc),
                         'detail': {'tree': it['tree'], 'stderr': r.err[:500], 'case_text': text}})
        elif got != want_trace:
            viol.append({'what': 'C06 operands evaluated %r; lazy left-to-right evaluation of the tree evaluates %r (%s)'
                                 % (got, want_trace, shape(it['tree'])),
                         'detail': {'tree': it['tree'], 'rendered': src.replace(probe.PROBE, 'PROBE')}})
    ses.clean_tmp()
    ses.drop(d)
    res = {'classes': [('lazy', host, shape(it['tree']), it['style'])], 'viol': viol, 'inconclusive': inconc}
    if len(want_trace) >= 2 and it['style'] == 2:
        res['sample'] = {'host': host, 'rendered': src.replace(probe.PROBE, 'PROBE'), 'expected_trace': want_trace,
                         'expected_value': val}
    return res


# ---- transformer chains -----------------------------------------------------------------------------------------
def _apply_step(step, text):
    import re
    if step[0] == 'replace':
        lines = text.split('\n')
        return '\n'.join(re.sub(step[1], step[2], l) for l in lines)
    if step[0] == 'char-case':
        return text.upper()
    if step[0] == 'filter':
        ls = text.split('\n')
        body, last = ls[:-1], ls[-1]
        kept = [l + '\n' for n, l in enumerate(body, 1) if n > 1]
        if last:
            if len(body) + 1 > 1:
                kept.append(last)
        return ''.join(kept)
    if step[0] == 'strip':
        return text.strip()
    if step[0] == 'identity':
        return text
    raise ValueError(step)


def _paren_variants(n, rng):
    """token-level groupings of a chain of n steps joined by '|' (all denote the same left-to-right composition)"""
    if n == 1:
        return [[0], ['(', 0, ')']]
    if n == 2:
        return [[0, '|', 1], ['(', 0, '|', 1, ')'], ['(', 0, ')', '|', 1], [0, '|', '(', 1, ')']]
    return [[0, '|', 1, '|', 2], ['(', 0, '|', 1, ')', '|', 2], [0, '|', '(', 1, '|', 2, ')'],
            ['(', 0, '|', 1, '|', 2, ')'], ['(', '(', 0, ')', '|', 1, ')', '|', '(', 2, ')']]


def run_chain(case, ctx):
    ses = ctx.get_session()
    d = ses.new_case_dir(_files())
    rng = common.rng_for(case['lseed'], 'chain')
    setup = []
    exp = []
    k = 0
    for ch in case['chains']:
        want = TEXT
        for st in ch:
            want = _apply_step(st, want)
        for var in _paren_variants(len(ch), rng):
            toks = []
            for x in var:
                if isinstance(x, int):
                    toks.extend(ch[x])
                else:
                    toks.append(x)
            style = rng.choice((0, 1, 2))
            src = layout(['('] + toks + [')'], style, rng)
            setup.append('file c%d = -contents-of -rel-act t.txt -transformed-by %s' % (k, src))
            exp.append((src, want, ch))
            k += 1
    r, text = _run(ses, d, setup, [], keep=True)
    viol, inconc, classes = [], [], []
    if r.timed_out:
        inconc.append('watchdog')
    elif r.exc is not None or r.rc != 0:
        for i, (src, want, ch) in enumerate(exp):
            r1, t1 = _run(ses, d, [setup[i]], [], keep=True)
            if r1.rc != 0:
                viol.append({'what': 'C06 transformer expression rejected (%s): %r' % (r1.out.strip() or r1.err[:60], src),
                             'detail': {'stderr': r1.err[:500]}})
    else:
        sds = r.out.strip()
        for i, (src, want, ch) in enumerate(exp):
            try:
                with open(os.path.join(sds, 'act', 'c%d' % i)) as f:
                    got = f.read()
            except OSError:
                got = None
            ctx.count('c06.values_compared')
            if got != want:
                viol.append({'what': 'C06 transformer %r gives %r; left-to-right composition of %r gives %r' %
                                     (src.replace('\n', '\\n'), got, ch, want), 'detail': {'chain': ch}})
            classes.append(('chain', len(ch), tuple(s[0] for s in ch)))
        # the same expression as ONE object applied to several texts by one instruction (three copies of the text in a
        # directory): the structure read once must give the same value at every application
        if not viol:
            pre = ['dir dd = {', '  file 1.txt = -contents-of -rel-act t.txt', '  file 2.txt = -contents-of -rel-act t.txt',
                   '  file 3.txt = -contents-of -rel-act t.txt', '}']
            multi = []
            for i, (src, want, ch) in enumerate(exp):
                pre.append('file w%d = %s' % (i, ('<<EOF\n' + want + 'EOF') if want.endswith('\n')
                                              else '-contents-of -rel-act c%d' % i))
                multi.append('dir-contents dd : every file : contents -transformed-by %s\n equals -contents-of -rel-act w%d'
                             % (src, i))
            r2, t2 = _run(ses, d, setup + pre, multi)
            ctx.count('c06.chain_multi_application_runs')
            if r2.timed_out:
                inconc.append('watchdog')
            elif not (r2.rc == 0 and r2.out == 'PASS\n'):
                for i, (src, want, ch) in enumerate(exp):
                    r3, t3 = _run(ses, d, setup + pre, [multi[i]])
                    if not (r3.rc == 0 and r3.out == 'PASS\n'):
                        viol.append({'what': 'C06 transformer %r applied to three copies of the text by one instruction '
                                             '(every file : contents -transformed-by ..): %s; a single application gives '
                                             'the value of its structure %r' % (src.replace('\n', '\\n'),
                                                                               r3.out.strip() or r3.rc, want),
                                     'detail': {'chain': ch, 'stderr': r3.err[:600]}})
    ses.clean_tmp()
    ses.drop(d)
    res = {'classes': classes, 'viol': viol, 'inconclusive': inconc, 'evaluations': len(exp)}
    if len(exp) > 3:
        res['sample'] = {'rendered': exp[3][0], 'expected_output': exp[3][1]}
    return res


# ---- malformed --------------------------------------------------------------------------------------------------
def recognise(toks):
    """Independent recogniser of the documented grammar over whitespace separated tokens, with primitives
    `constant true|false` (matchers) or `identity` (transformers are handled by recognise_tr).
    EXPR := AND ('||' AND)* ; AND := NOT ('&&' NOT)* ; NOT := '!' NOT | PRIM ; PRIM := '(' EXPR ')' | constant B
    Returns True iff the whole token list is derived."""
    pos = [0]

    def peek():
        return toks[pos[0]] if pos[0] < len(toks) else None

    def eat(t=None):
        x = peek()
        if x is None or (t is not None and x != t):
            raise SyntaxError
        pos[0] += 1
        return x

    def prim():
        x = peek()
        if x == '(':
            eat('(')
            expr()
            eat(')')
        elif x == 'constant':
            eat()
            if peek() not in ('true', 'false'):
                raise SyntaxError
            eat()
        else:
            raise SyntaxError

    def not_():
        if peek() == '!':
            eat()
            not_()
        else:
            prim()

    def and_():
        not_()
        while peek() == '&&':
            eat()
            not_()

    def expr():
        and_()
        while peek() == '||':
            eat()
            and_()

    try:
        expr()
        return pos[0] == len(toks)
    except SyntaxError:
        return False


def recognise_tr(toks):
    """TR := SEQ ; SEQ := PRIM ('|' PRIM)* ; PRIM := '(' SEQ ')' | identity"""
    pos = [0]

    def peek():
        return toks[pos[0]] if pos[0] < len(toks) else None

    def prim():
        x = peek()
        if x == '(':
            pos[0] += 1
            seq()
            if peek() != ')':
                raise SyntaxError
            pos[0] += 1
        elif x == 'identity':
            pos[0] += 1
        else:
            raise SyntaxError

    def seq():
        prim()
        while peek() == '|':
            pos[0] += 1
            prim()

    try:
        seq()
        return pos[0] == len(toks)
    except SyntaxError:
        return False


def _const_tree_tokens(rng, depth):
    t = _rand_tree(rng, depth, 3)
    out = []

    def go(t, parent):
        k = t[0]
        if k == 'p':
            return ['constant', 'true' if t[1] else 'false']
        if k == 'not':
            inner = go(t[1], 3)
            toks = ['!'] + inner
        else:
            op = '&&' if k == 'and' else '||'
            toks = []
            for i, x in enumerate(t[1]):
                if i:
                    toks.append(op)
                toks.extend(go(x, PREC[k]))
        if PREC[k] < parent or rng.random() < 0.3:
            return ['('] + toks + [')']
        return toks

    return go(t, 0), t


def _mutate(toks, defect, rng, is_tr):
    t = list(toks)
    op_tokens = ['|'] if is_tr else ['&&', '||']
    struct = [i for i, x in enumerate(t) if x in ('(', ')', '&&', '||', '!', '|')]
    if defect == 'del':
        if not struct:
            return None
        del t[rng.choice(struct)]
    elif defect == 'dup':
        if not struct:
            return None
        i = rng.choice(struct)
        t.insert(i, t[i])
    elif defect == 'swap':
        if len(t) < 2:
            return None
        i = rng.randrange(len(t) - 1)
        t[i], t[i + 1] = t[i + 1], t[i]
    elif defect == 'unbalanced_open':
        t.insert(rng.randrange(len(t) + 1), '(')
    elif defect == 'unbalanced_close':
        t.insert(rng.randrange(1, len(t) + 1), ')')
    elif defect == 'op_at_start':
        t.insert(0, rng.choice(op_tokens))
    elif defect == 'op_at_end':
        t.append(rng.choice(op_tokens))
    elif defect == 'double_op':
        idx = [i for i, x in enumerate(t) if x in op_tokens]
        if not idx:
            t = t + [op_tokens[0], op_tokens[-1]] + (['identity'] if is_tr else ['constant', 'true'])
        else:
            i = rng.choice(idx)
            t.insert(i, rng.choice(op_tokens))
    elif defect == 'empty_parens':
        i = rng.randrange(len(t) + 1)
        t[i:i] = ['(', ')']
    elif defect == 'missing_operand_after_not':
        if is_tr:
            return None
        t.append('&&')
        t.append('!')
    elif defect == 'quoted_operator':
        # an operator, `!` or a parenthesis written inside quotes is a string, not that operator: the expression is
        # no longer one of the grammar
        if not struct:
            return None
        i = rng.choice(struct)
        q = rng.choice(("'", '"'))
        t[i] = q + t[i] + q
    elif defect == 'infix_after_simple_ctx':
        return 'ctx'
    return t


def run_malformed(case, ctx):
    ses = ctx.get_session()
    d = ses.new_case_dir(_files())
    host = case['host']
    rng = common.rng_for(case['variant'], 'mal', host, case['defect'])
    is_tr = host == 'transformer'
    viol, inconc = [], []
    if is_tr:
        n = rng.randrange(1, 4)
        base = []
        for i in range(n):
            if i:
                base.append('|')
            if rng.random() < 0.3:
                base += ['(', 'identity', ')']
            else:
                base.append('identity')
        tree_val = None
    else:
        base, tree = _const_tree_tokens(rng, rng.choice((1, 2, 3)))
        tree_val = ev(tree)
    if case['defect'] == 'op_typo_in_chain':
        # a flat chain of one operator (inside parentheses, or not) in which ONE operator, at any position, is
        # replaced by a look-alike that is not an operator of the grammar
        n = 3 + case['variant'] % 3
        op = '|' if is_tr else ('&&', '||')[case['variant'] // 3 % 2]
        prim = ['identity'] if is_tr else ['constant', 'true' if op == '&&' else 'false']
        base = []
        for i in range(n):
            if i:
                base.append(op)
            base += prim
        pos = [i for i, x in enumerate(base) if x == op]
        typos = {'&&': ['&', '&&&', '&|', '&amp;&amp;'], '||': ['|', '|||', '|&', '//'], '|': ['||', '|&', '¦', '\\|']}[op]
        mut = list(base)
        mut[pos[(case['variant'] // 2) % len(pos)]] = typos[(case['variant'] // 6 + case['variant']) % len(typos)]
        if case['variant'] % 2:
            mut = ['('] + mut + [')']
    else:
        mut = _mutate(base, case['defect'], rng, is_tr)
    if mut is None:
        ses.drop(d)
        return {'classes': [], 'viol': [], 'evaluations': 0}
    if mut == 'ctx':
        # an infix operator directly after a construct that takes only a SIMPLE expression belongs to the enclosing
        # level: the value must be that of the enclosing-level reading
        if host == 'text':
            # num-lines takes a simple integer matcher:  num-lines == 3 && is-empty  ==  (num-lines == 3) && is-empty
            a = 'contents t.txt : ! ( num-lines == 3 && is-empty )'
            b = 'contents t.txt : ( num-lines == 3 || is-empty )'
            c = 'contents t.txt : ( every line : contents matches . && num-lines == 3 )'
            c2 = 'contents t.txt : ! ( any line : line-num == 1 && is-empty )'
            # -transformed-by T M takes a SIMPLE matcher: a following infix operator applies to the ORIGINAL text.
            # (operands whose value differs between the original and the transformed text)
            d1 = 'contents t.txt : -transformed-by char-case -to-upper matches A && matches a'
            d2 = 'contents t.txt : ! ( -transformed-by char-case -to-upper matches A && matches B )'
            d3 = 'contents t.txt : -transformed-by ( filter line-num == 1 ) num-lines == 1 && num-lines == 3'
            d4 = 'contents t.txt : ( -transformed-by char-case -to-upper matches a || matches a )'
            d5 = 'contents t.txt : ! ( -transformed-by ( filter line-num == 1 ) num-lines == 3 || num-lines == 1 )'
            d6 = 'stdout -from $ echo a\n -transformed-by char-case -to-upper\n matches A && ! matches a'
            asserts = [a, b, c, c2, d1, d2, d3, d4, d5]
        elif host == 'files':
            asserts = ['dir-contents d : ! ( num-files == 2 && is-empty )',
                       'dir-contents d : ( every file : type file && num-files == 2 )',
                       'dir-contents d : -selection name x ( num-files == 1 && ! is-empty )',
                       # -selection FM M takes a simple files-matcher: the infix operator sees the UNSELECTED model
                       'dir-contents d : -selection name x num-files == 1 && num-files == 2',
                       'dir-contents d : ! ( -selection name x num-files == 1 && num-files == 1 )',
                       'dir-contents d : ( -selection name x num-files == 2 || num-files == 2 )']
        elif host == 'file':
            asserts = ['exists f.txt : ( contents matches a && type file )',
                       'exists f.txt : ! ( contents matches a && type dir )',
                       # contents TEXT-MATCHER takes a simple text-matcher: `type file` is a FILE-matcher operand
                       'exists f.txt : contents -transformed-by char-case -to-upper matches A && type file',
                       'exists d : dir-contents num-files == 2 && type dir']
        elif host == 'line':
            asserts = ['contents t.txt : ( every line : ( line-num >= 1 && contents matches . ) )',
                       'contents t.txt : ( any line : ( line-num == 2 && contents matches b ) )']
        elif host == 'integer':
            asserts = ['exit-code ( ! == 1 && == 2 )', 'exit-code ! ( ! == 2 || == 1 )']
        else:
            # -transformed-by takes a simple transformer: a composition must be inside parentheses
            asserts = ['contents t.txt : -transformed-by ( replace a b | replace b c ) equals <<EOF\nc\nc\nc\nEOF',
                       'contents t.txt : -transformed-by ( replace a b | replace b c ) ! matches b',
                       'contents t.txt : -transformed-by ( replace a b | replace b c ) ( ! matches b && matches c )']
        r, text = _run(ses, d, [], asserts)
        ctx.count('c06.malformed_judged')
        if r.timed_out:
            inconc.append('watchdog')
        elif not (r.rc == 0 and r.out == 'PASS\n'):
            for a_ in asserts:
                r1, t1 = _run(ses, d, [], [a_])
                if not (r1.rc == 0 and r1.out == 'PASS\n'):
                    viol.append({'what': 'C06 an infix operator after a construct that takes a simple expression must '
                                         'belong to the enclosing level: %r gives %s' % (a_, r1.out.strip() or r1.rc),
                                 'detail': {'stderr': r1.err[:500]}})
        ses.clean_tmp()
        ses.drop(d)
        return {'classes': [('ctx', host)], 'viol': viol, 'inconclusive': inconc, 'evaluations': len(asserts)}
    accepted = recognise_tr(mut) if is_tr else recognise(mut)
    src = ' '.join(mut)
    if is_tr:
        instr = 'contents t.txt : -transformed-by ( ' + src + ' ) num-lines == 3'
        if not accepted:
            instr = 'contents t.txt : -transformed-by ' + src + '\n num-lines == 3' if rng.random() < 0.3 else instr
    elif host == 'line':
        instr = 'contents t.txt : every line : ( ' + src + ' )'
    else:
        instr = _instr(host, src, True)
    r, text = _run(ses, d, [], [instr])
    ctx.count('c06.malformed_judged')
    if r.timed_out:
        inconc.append('watchdog')
    elif r.exc is not None:
        viol.append({'what': 'C06 exception escaped on malformed expression %r' % src, 'detail': {'exc': r.exc[-300:]}})
    else:
        ident = r.out.strip()
        if not accepted:
            if not (r.rc == 65 and ident in ('SYNTAX_ERROR', 'VALIDATION_ERROR')):
                viol.append({'what': 'C06 malformed %s expression %r (%s) is not rejected: outcome %s/%r' %
                                     (host, src, case['defect'], ident, r.rc),
                             'detail': {'instruction': instr, 'stderr': r.err[:400]}})
            elif ident == 'VALIDATION_ERROR' and 'ymbol' not in r.err:
                viol.append({'what': 'C06 malformed %s expression %r rejected as VALIDATION_ERROR for another reason '
                                     'than an undefined symbol' % (host, src), 'detail': {'stderr': r.err[:400]}})
        else:
            # the mutation produced another well-formed expression: it is an ordinary expression
            if r.rc == 65:
                viol.append({'what': 'C06 well-formed %s expression %r (by the documented grammar) is rejected: %s' %
                                     (host, src, ident), 'detail': {'stderr': r.err[:400]}})
    ses.clean_tmp()
    ses.drop(d)
    return {'classes': [('malformed', host, case['defect'], 'accepted-by-grammar' if accepted else 'malformed')],
            'viol': viol, 'inconclusive': inconc,
            'sample': {'host': host, 'defect': case['defect'], 'tokens': src, 'documented_grammar_accepts': accepted,
                       'outcome': r.out.strip()} if case['defect'] == 'swap' else None} \
        if True else None


def run_case(case, ctx):
    k = case['kind']
    if k == 'value':
        r = run_value(case, ctx)
    elif k == 'lazy':
        r = run_lazy(case, ctx)
    elif k == 'chain':
        r = run_chain(case, ctx)
    else:
        r = run_malformed(case, ctx)
    if r.get('sample') is None:
        r.pop('sample', None)
    return r
