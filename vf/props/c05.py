"""C05 Text assertions and text transformers mean what the reference manual says (D1; reference evaluator).

One generated test case observes ~10 matcher verdicts and ~5 transformer outputs of the REAL program on one text:

    [setup]   copy in.txt / file litK.txt = LITERAL            <- the tested text as file / literal
              file oK = TEXT-SOURCE -transformed-by T          <- transformer outputs, read from the kept sandbox
    [act]     probe prints the text on stdout and stderr       <- the tested text as output of the action
    [assert]  contents in.txt : M | stdout M | stderr M | stdout -from PROBE.. M | contents litK.txt : M

Every assertion is written in the polarity the reference evaluator (vf/models/text.py, written from the manual)
predicts - `M` or `! ( M )` - so the case must PASS; in a third of the cases the last assertion is written in the
WRONG polarity, so the case must FAIL, at exactly that instruction.  Anything else is bisected by re-running every
item in a case of its own.
"""
import os
import re

from vf import common, probe
from vf.models import text as T

ID = 'C05'
LEVEL = 'exploration'
RULE = ('evaluations = matcher verdicts + transformer output texts of the real program compared with the reference '
        'evaluator written from the manual (about 15 per executed test case). Deterministic core: every primitive '
        'form of TEXT-MATCHER (incl. equals x 5 expected-text kinds x prefix/suffix/one-char-off variants) and of '
        'TEXT-TRANSFORMER x a fixed corpus of 64 texts (60 short, 4 longer than 100 characters), source kinds rotated; seeded part: random expression-text '
        'pairs (matcher trees depth <= 3, transformer chains <= 3, regex family with anchors/classes/groups/'
        'quantifiers/back-references). Class key = (m|t, root form incl. options, kind of source of the tested '
        'text, predicted verdict | output changed?, class of text: empty/blank/one line/multi line x final '
        'newline). Every counted evaluation is non-trivial: the reference value was computed and compared with '
        'what the program did (verdict in the predicted polarity, FAIL at the one wrong-polarity instruction, or '
        'the bytes of the produced file).')
ASSUMPTIONS = [
    'Python `re` is trusted (REGEX = "A regular expression, using Python syntax"; replacement STRING = re.sub '
    'template); the reference runs in the same interpreter as the program, so version differences of `re` cancel',
    'whitespace = what str.strip() removes; cased characters = str.lower()/str.upper()',
    'no lines in the empty text: `every line` holds, `any line` does not',
    'a line number denoted by a negative LINE-NUMBER-RANGE bound that lies before the first line is clipped to the '
    'first line for `N:` and denotes nothing for `N` and `:N` (boundary analysis proper: C13)',
    'text alphabet {a b A B blank tab newline . * ( ) [ \\ $ ^ | + ? digits e-acute}; \\r \\f \\v U+2028 and other '
    'line-break-like characters are left to C14',
    'left out: `run` matcher/transformer (C10), `replace-test-case-dirs`, symbol references (C08), replacement '
    'templates that re rejects (C18), hostile layout (C06: here only the two layouts "fully parenthesised" and '
    '"minimal parentheses", with line breaks only where a here-document, `:>` or `-line-nums` ends a line)',
    '`filter LINE-MATCHER` is always rendered with a parenthesised matcher when it contains && or || (the program '
    'rejects `filter A || B` although the manual has no such note for filter - grammar is C06)',
]
EXHAUSTIVE_NOTE = ('core: each of the ~125 matcher primitives and ~105 transformer primitives is applied to each of '
                   'the 64 corpus texts in both tiers (seed independent)')
MIN_OBS = {
    'quick': {'evaluations': 20000, 'classes': 2000, 'c05.exactly_lib_is_from_VERIF_REPO': 1,
              'c05.matcher_verdicts': 9000, 'c05.transformer_outputs': 6000,
              'c05.wrong_polarity_FAIL_observed': 250,
              'c05.src.m.file': 1000, 'c05.src.m.act': 1000, 'c05.src.m.acterr': 500, 'c05.src.m.prog': 1000,
              'c05.src.m.lit': 500,
              'c05.src.t.file': 1000, 'c05.src.t.str': 200, 'c05.src.t.heredoc': 500, 'c05.src.t.prog': 1000,
              'c05.equals.str': 100, 'c05.equals.eol': 50, 'c05.equals.heredoc': 100, 'c05.equals.file': 300,
              'c05.equals.prog': 300},
    'thorough': {'evaluations': 120000, 'classes': 3000, 'c05.exactly_lib_is_from_VERIF_REPO': 1,
                 'c05.matcher_verdicts': 80000,
                 'c05.transformer_outputs': 35000, 'c05.wrong_polarity_FAIL_observed': 2500,
                 'c05.src.m.file': 10000, 'c05.src.m.act': 10000, 'c05.src.m.acterr': 5000, 'c05.src.m.prog': 10000,
                 'c05.src.m.lit': 5000,
                 'c05.src.t.file': 5000, 'c05.src.t.str': 1000, 'c05.src.t.heredoc': 2500, 'c05.src.t.prog': 5000,
                 'c05.equals.str': 1000, 'c05.equals.eol': 500, 'c05.equals.heredoc': 1000, 'c05.equals.file': 3000,
                 'c05.equals.prog': 3000},
}

M_SRC = ('file', 'act', 'acterr', 'prog', 'lit')
T_SRC = ('file', 'str', 'heredoc', 'prog')

# ---------------------------------------------------------------------------------------------
# fixed corpus of 64 texts
# ---------------------------------------------------------------------------------------------
CORPUS = [
    '', '\n', '\n\n', 'a', 'a\n', 'a\nb', 'a\nb\n', ' ', '\t', ' \n',
    '  a  ', ' a\n', 'a \n', '\na', '\n\na\n\n', 'a\n\nb', 'A', 'aA\n', 'Ab\naB\n', 'é',
    'É\né', 'a.b', '.*', 'a*\n', '(a', '[a\n', 'a\\b', '\\', '$', '^a',
    'a$\n', '^', '1', '12\n7', '0\n', 'aaa', 'ababab', 'abab\nabab\n', 'a b', 'a\tb\n',
    '\ta', 'a\t', 'ab\nab\nab', 'a\nb\na\nb\na\nb\n', 'a\nb\nA\nB\n1\n2', 'b\nb\nb\nb\nb\na', ' \n \n', '\n \n', 'a\n ',
    'a\n\n', 'a\n\n\n', 'aa\nab\nba\nbb\n', 'A b.\n', '1\n2\n3\n', 'a1b2', '(a|b)*\n', '[ab]+$', '\\n', 'a\\nb\n',
    ' a b \n\tb a\t\n\n',
]
# four texts longer than the 100 characters that `equals` reads beyond the length of the other operand
CORPUS += [
    'ab ab ab ab ab ab ab\n' * 12,
    'ab' * 130,
    'abab a\n' * 40,
    'aba aba aba\n' * 10 + 'end',
]
assert len(CORPUS) == 64 and len(set(CORPUS)) == 64


def form_of(ast):
    """class-key name of an expression: root form incl. options, refined by the form of its main operand"""
    h = ast[0]
    n = T.name_of(ast)
    if h in ('every', 'any', 'num-lines', 'filter', 'not'):
        return n + '/' + T.name_of(ast[1])
    if h == 'transformed':
        return n + '/' + T.name_of(ast[1]) + '/' + T.name_of(ast[2])
    if h in ('and', 'or', 'seq'):
        return '%s/%d' % (n, len(ast) - 1)
    if h == 'filter-nums':
        return n + '/%d' % len(ast[1])
    return n


def text_class(t):
    if t == '':
        return 'empty'
    n = T.num_lines_of(t)
    nl = 'nl' if t.endswith('\n') else 'nonl'
    if t.strip() == '':
        return 'blank-%s' % nl
    return ('one-' if n == 1 else 'multi-') + nl


# ---------------------------------------------------------------------------------------------
# which source kinds can denote a text
# ---------------------------------------------------------------------------------------------
def t_src_ok(kind, text):
    if kind == 'str':
        return T.str_ok(text)
    if kind == 'heredoc':
        return T.heredoc_ok(text)
    if kind == 'eol':
        return T.eol_ok(text)
    return True


def m_src_ok(kind, text):
    if kind == 'lit':
        return T.str_ok(text) or T.heredoc_ok(text)
    return True


def _pick_src(kinds, ok, text, i):
    """deterministic rotation over the kinds that can denote `text`"""
    n = len(kinds)
    for j in range(n):
        k = kinds[(i + j) % n]
        if ok(k, text):
            return k
    raise AssertionError


def _change_char(ch):
    return 'b' if ch != 'b' else 'a'


# ---------------------------------------------------------------------------------------------
# deterministic core: primitives as functions of the text
# ---------------------------------------------------------------------------------------------
def _eq_variants(t, i):
    """equals: the four+1 ways of writing the expected text x expected texts around the tested text:
    same, one char longer / shorter at the end, last / first char changed, final newline added / removed."""
    ls = [c + s for c, s in T.lines_of(t)]
    variants = [t, t + 'a', t + '\n', t[:-1], t[:-1] + _change_char(t[-1:]) if t else 'a',
                (_change_char(t[0]) + t[1:]) if t else '\n', t.rstrip('\n'), '', t + t,
                ''.join(ls[:-1]),  # the expected text ends where a line of the tested text ends
                ''.join(ls[:1]), t + 'b\n']
    ret = []
    for vi, exp in enumerate(variants):
        kinds = [k for k in ('str', 'eol', 'heredoc', 'file', 'prog') if t_src_ok(k, exp)]
        if vi == 0:
            use = kinds  # the equal text in every kind that can denote it
        else:
            use = [kinds[(i + vi) % len(kinds)], ('file', 'prog')[(i + vi) % 2]]
        for k in dict.fromkeys(use):
            ret.append(T.equals(exp, k, alias=(vi + i) % 4 == 0))
    # expected text with a transformation of its own
    ret.append(T.equals(t.upper(), 'file', tr=T.char_case('lower')))
    ret.append(T.equals(t + '\n\n', 'prog', tr=T.strip('trailing-new-lines')))
    ret.append(T.equals(' ' + t, 'file', tr=T.strip()))
    if T.heredoc_ok(t + '\n'):
        ret.append(T.equals(t + '\n', 'heredoc', tr=T.strip('trailing-new-lines')))
    if T.str_ok(t):
        ret.append(T.equals(t, 'str', tr=T.replace('a', 'b')))
    return ret


_CORE_RX = [
    # (regex, full, icase)
    ('a', False, False), ('^a', False, False), ('a$', False, False), ('b\\n', False, False), ('^$', False, False),
    ('.', False, False), ('\\n\\n', False, False), ('a.b', False, False), ('(?s)a.b', False, False),
    ('(?m)^b', False, False), ('^b', False, False), ('[ab]+', False, False), ('\\s', False, False),
    ('^\\s*$', False, False), ('A', False, True), ('é', False, True), ('\\\\', False, False),
    ('\\.\\*', False, False), ('\\$', False, False), ('', False, False), ('b\\Z', False, False),
    ('.*', True, False), ('(.|\\n)*', True, False), ('a', True, False), ('a\\n', True, False),
    ('[^\\n]*\\n?', True, False), ('(.*\\n)*', True, False), ('', True, False), ('ab', True, True),
    ('(a|b)\\n\\1', False, False), ('a\\n?b', True, False), ('\\w+$', True, False),
]

_CORE_IM = [
    T.cmp_('==', 0), T.cmp_('==', 1), T.cmp_('==', 2), T.cmp_('==', 3), T.cmp_('==', 6), T.cmp_('!=', 1),
    T.cmp_('<', 2), T.cmp_('<=', 2), T.cmp_('>', 0), T.cmp_('>=', 6),
    T.and_(T.cmp_('>', 1), T.cmp_('<', 4)), T.not_(T.cmp_('==', 0)), T.or_(T.cmp_('==', 1), T.cmp_('==', 3)),
]

_CORE_LM = [
    T.l_contents(T.is_empty()), T.l_contents(T.matches('a')), T.l_contents(T.matches('[ab]*', full=True)),
    T.l_contents(T.matches('a$')), T.l_contents(T.matches('\\s$')),
    T.l_num(T.cmp_('<=', 3)), T.l_num(T.cmp_('==', 1)), T.l_contents(T.equals('a')),
    T.l_contents(T.equals('a\n', 'heredoc')),
    T.or_(T.l_num(T.cmp_('==', 1)), T.l_contents(T.matches('b'))),
    T.and_(T.l_num(T.cmp_('>', 1)), T.l_contents(T.matches('^a'))),
    T.not_(T.l_contents(T.is_empty())), T.const(True), T.const(False),
    T.l_contents(T.num_lines(T.cmp_('==', 1))), T.l_contents(T.not_(T.matches('\\n'))),
    # expected text with external dependencies against a text without (a line): 3rd comparison strategy of equals
    T.l_contents(T.equals('a', 'file')), T.l_contents(T.equals('', 'prog')), T.l_contents(T.equals('\n', 'file')),
    T.l_contents(T.equals('ab', 'prog')), T.l_contents(T.equals('a\nb', 'file')),
    T.l_contents(T.equals('A', 'file', tr=T.char_case('lower'))),
]


def core_matchers(t, i):
    ms = [T.is_empty(), T.const(True), T.const(False)]
    ms += _eq_variants(t, i)
    ms += [T.matches(rx, full, ic, alias=(j + i) % 5 == 0) for j, (rx, full, ic) in enumerate(_CORE_RX)]
    ms += [T.num_lines(im) for im in _CORE_IM]
    ms += [T.every_line(lm) for lm in _CORE_LM]
    ms += [T.any_line(lm) for lm in _CORE_LM]
    first = T.lines_of(t)[0] if t else ('', '')
    ms += [
        T.on_transformed(T.strip(), T.is_empty()),
        T.on_transformed(T.char_case('upper'), T.matches('a|b')),
        T.on_transformed(T.filter_(T.l_num(T.cmp_('==', 1))), T.equals(first[0] + first[1], 'file')),
        T.on_transformed(T.replace('a', 'b'), T.matches('a')),
        T.on_transformed(T.replace('\\n', ''), T.num_lines(T.cmp_('<=', 1))),
        T.on_transformed(T.replace('b', '\\n', preserve_nl=True), T.num_lines(T.cmp_('==', len(T.lines_of(t)) + t.count('b')))),
        T.on_transformed(T.replace('a', 'x\\ny', preserve_nl=True), T.every_line(T.l_contents(T.matches('\\n', False)))),
        T.on_transformed(T.replace('a', '\\n', preserve_nl=True), T.any_line(T.l_contents(T.matches('a')))),
        T.on_transformed(T.replace('b', '\\n'), T.num_lines(T.cmp_('>', len(T.lines_of(t))))),
        T.on_transformed(T.seq(T.grep('a'), T.char_case('upper')), T.every_line(T.l_contents(T.matches('A')))),
        T.on_transformed(T.identity(), T.equals(t, 'prog')),
        T.on_transformed(T.strip('trailing-new-lines'), T.matches('\\n\\Z')),
        T.not_(T.is_empty()),
        T.or_(T.is_empty(), T.num_lines(T.cmp_('==', 1))),
        T.and_(T.not_(T.is_empty()), T.matches('a')),
        T.and_(T.matches('a'), T.matches('b'), T.not_(T.matches('A'))),
        T.or_(T.and_(T.is_empty(), T.const(True)), T.every_line(T.l_contents(T.matches('.')))),
    ]
    return ms


_CORE_REPLACE = [
    # (regex, replacement, icase)
    ('a', 'X', False), ('a', '', False), ('b', '\\n', False), ('\\n', '', False), ('\\n', '-', False),
    ('$', 'X', False), ('^', '>', False), ('a\\n', 'X', False), ('(a)(b)', '\\2\\1', False),
    ('(a)|b', '[\\1]', False), ('.', '\\g<0>\\g<0>', False), ('a', '\\&', False), ('\\s+', ' ', False),
    ('\\s+$', '', False), ('A', 'x', True), ('[ab]', '\\\\', False), ('b*', '-', False), ('a$', 'E', False),
    ('^\\s+', '', False), ('(?P<n>a+)', '<\\g<n>>', False), ('\\.|\\*|\\(|\\[|\\$|\\^', '_', False),
    ('\\Z', 'Z', False), ('a', '\\t', False), ('', '.', False),
]
_CORE_AT = [
    T.l_num(T.cmp_('==', 1)), T.l_num(T.cmp_('>=', 2)), T.l_contents(T.matches('a')),
    T.not_(T.l_contents(T.is_empty())), T.const(False),
    T.or_(T.l_num(T.cmp_('==', 2)), T.l_contents(T.matches('^b'))),
]
_CORE_FILTER_LM = [
    T.l_num(T.cmp_('==', 1)), T.l_num(T.cmp_('==', 2)), T.l_num(T.cmp_('>=', 2)), T.l_num(T.cmp_('<=', 1)),
    T.l_num(T.cmp_('!=', 1)), T.l_num(T.cmp_('<', 3)), T.l_num(T.cmp_('>', 5)),
    T.l_contents(T.is_empty()), T.not_(T.l_contents(T.is_empty())), T.l_contents(T.matches('a')),
    T.l_contents(T.equals('a')), T.l_contents(T.matches('b', full=True)),
    T.or_(T.l_num(T.cmp_('==', 1)), T.l_num(T.cmp_('==', 3))),
    T.l_num(T.and_(T.cmp_('>=', 2), T.cmp_('<=', 3))),
    T.and_(T.l_num(T.cmp_('>=', 2)), T.l_contents(T.matches('a|b'))),
    T.not_(T.l_num(T.cmp_('==', 2))), T.const(True), T.const(False),
]
_CORE_RANGES = [
    [[1]], [[-1]], [[2, None]], [[None, 2]], [[2, 3]], [[-2, None]], [[None, -2]], [[1], [-1]], [[7]],
    [[3], [1]], [[1, 2], [-2, None]], [[2, 1]],
    # ranges that overlap, lie inside one another, or touch (every order of listing)
    [[2, 5], [3, 4]], [[3, 4], [2, 5]], [[2, 4], [3, 6]], [[2, 3], [4, 5]], [[2, None], [3, 4]], [[-5, -2], [-4, -3]],
    [[2, 6], [3], [5]], [[4, 5], [2, 6], [3]],
]
_CORE_GREP = [('a', False, False), ('a', True, False), ('[ab]*', True, False), ('A', False, True),
              ('^$', False, False), ('$', False, False), ('\\s', False, False), ('.', False, False)]


def core_transformers(t, i):
    ts = [T.identity(), T.strip(), T.strip('trailing-space'), T.strip('trailing-new-lines'),
          T.char_case('lower'), T.char_case('upper')]
    for rx, repl, ic in _CORE_REPLACE:
        ts.append(T.replace(rx, repl, icase=ic))
    for rx, repl, ic in _CORE_REPLACE[:8] + _CORE_REPLACE[12:14] + _CORE_REPLACE[16:18] + _CORE_REPLACE[21:22]:
        ts.append(T.replace(rx, repl, icase=ic, preserve_nl=True))
    for j, at in enumerate(_CORE_AT):
        rx, repl, ic = _CORE_REPLACE[(i + j) % 8]
        ts.append(T.replace(rx, repl, icase=ic, preserve_nl=(i + j) % 2 == 0, at=at))
        ts.append(T.replace('[ab]', '<\\g<0>>', at=at))
    ts += [T.filter_(lm) for lm in _CORE_FILTER_LM]
    ts += [T.filter_line_nums(r) for r in _CORE_RANGES]
    ts += [T.grep(rx, full, ic) for rx, full, ic in _CORE_GREP]
    ts += [
        T.seq(T.replace('a', 'b'), T.replace('b', 'c')),
        T.seq(T.replace('b', 'c'), T.replace('a', 'b')),
        T.seq(T.filter_(T.l_num(T.cmp_('==', 1))), T.strip()),
        T.seq(T.strip(), T.filter_(T.l_num(T.cmp_('==', 1)))),
        T.seq(T.char_case('upper'), T.grep('A')),
        T.seq(T.grep('A'), T.char_case('upper')),
        T.seq(T.replace('\\n', ''), T.filter_(T.l_num(T.cmp_('==', 1)))),
        T.seq(T.replace('b', '\\n'), T.filter_(T.l_num(T.cmp_('==', 2)))),
        T.seq(T.replace('b', '\\n'), T.replace('^', '>', preserve_nl=True)),
        # a replacement that ADDS new-lines (the \\n escape), with and without -preserve-new-lines, followed by a
        # line-wise consumer: the text must be re-divided into lines after the substitution
        T.seq(T.replace('b', '\\n', preserve_nl=True), T.filter_(T.l_num(T.cmp_('==', 2)))),
        T.seq(T.replace('a', 'x\\ny', preserve_nl=True), T.grep('y')),
        T.seq(T.replace('a', '\\n', preserve_nl=True), T.replace('^', '>', preserve_nl=True)),
        T.seq(T.replace(' ', '\\n', preserve_nl=True), T.filter_line_nums([[2, None]])),
        T.seq(T.replace('b', '1\\n2\\n3', preserve_nl=True), T.filter_(T.l_num(T.cmp_('>=', 2))), T.strip()),
        T.seq(T.replace('[ab]', '\\n\\g<0>', preserve_nl=True), T.grep('a', True)),
        T.seq(T.strip('trailing-new-lines'), T.replace('$', '!'), T.char_case('upper')),
        T.seq(T.filter_line_nums([[2, None]]), T.filter_line_nums([[1]]), T.identity()),
        T.seq(T.identity(), T.seq(T.grep('a'), T.replace('a', 'aa')), T.strip('trailing-space')),
        # nested compositions in which `identity` is first, last or everything of a group
        T.seq(T.replace('a', 'b'), T.seq(T.char_case('upper'), T.identity())),
        T.seq(T.seq(T.grep('a'), T.identity()), T.replace('a', 'x')),
        T.seq(T.identity(), T.seq(T.identity(), T.strip()), T.identity()),
        T.seq(T.seq(T.identity(), T.identity()), T.char_case('upper')),
        T.seq(T.strip(), T.seq(T.seq(T.replace('b', 'c'), T.identity()), T.identity())),
        T.seq(T.seq(T.identity(), T.replace('a', 'A')), T.seq(T.replace('A', 'b'), T.identity()), T.replace('b', 'B')),
    ]
    return ts


def _chunks(xs, n):
    return [xs[k:k + n] for k in range(0, len(xs), n)]


def _rot(xs, k):
    k %= len(xs)
    return xs[k:] + xs[:k]


N_M_PER_CASE = 10
N_T_PER_CASE = 10


def _core_cases():
    for ti, t in enumerate(CORPUS):
        ms = _rot(core_matchers(t, ti), ti * 3)
        ts = _rot(core_transformers(t, ti), ti * 3)
        for ci, chunk in enumerate(_chunks(ms, N_M_PER_CASE)):
            items = []
            for k, m in enumerate(chunk):
                items.append({'k': 'm', 'ast': m, 'src': _pick_src(M_SRC, m_src_ok, t, ti + ci + k)})
            yield {'part': 'core-m', 'text': t, 'items': items, 'wrong_last': (ti + ci) % 3 == 0,
                   'style': 'full' if (ti + ci) % 2 == 0 else 'min', 'tag': 'core-m-%d-%d' % (ti, ci)}
        for ci, chunk in enumerate(_chunks(ts, N_T_PER_CASE)):
            items = []
            for k, tr in enumerate(chunk):
                items.append({'k': 't', 'ast': tr, 'src': _pick_src(T_SRC, t_src_ok, t, ti + ci + k)})
            yield {'part': 'core-t', 'text': t, 'items': items, 'wrong_last': False,
                   'style': 'full' if (ti + ci) % 2 == 0 else 'min', 'tag': 'core-t-%d-%d' % (ti, ci)}


# ---------------------------------------------------------------------------------------------
# seeded part: random texts, regexes, expressions
# ---------------------------------------------------------------------------------------------
_ALPHA = (['a'] * 7 + ['b'] * 6 + ['A'] * 2 + ['B'] + [' '] * 3 + ['\t'] +
          ['.', '*', '(', ')', '[', '\\', '$', '^', '|', '+', '?', '1', '2', '7', 'é'])


def gen_line(rng):
    n = rng.choice([0, 1, 1, 2, 2, 3, 3, 4, 5])
    s = ''.join(rng.choice(_ALPHA) for _ in range(n))
    r = rng.random()
    if r < 0.12:
        s = rng.choice([' ', '\t', '  ']) + s
    elif r < 0.24:
        s = s + rng.choice([' ', '\t', '  '])
    return s


def gen_text(rng):
    r = rng.random()
    if r < 0.08:
        return rng.choice(CORPUS)
    n = rng.choice([0, 1, 1, 2, 2, 3, 3, 4, 5, 6])
    if n == 0:
        return ''
    lines = [gen_line(rng) for _ in range(n)]
    if rng.random() < 0.3:  # repeated lines make back-references and `every line` interesting
        lines[rng.randrange(n)] = lines[rng.randrange(n)]
    t = '\n'.join(lines)
    if rng.random() < 0.6:
        t += '\n'
    if rng.random() < 0.08:
        t = '\n' + t
    if rng.random() < 0.08:
        t += '\n'
    return t


_RX_META = '.^$*+?{}[]\\|()'


def rx_lit(s):
    out = []
    for ch in s:
        if ch == '\n':
            out.append('\\n')
        elif ch == '\t':
            out.append('\\t')
        elif ch in _RX_META:
            out.append('\\' + ch)
        else:
            out.append(ch)
    return ''.join(out)


_RX_ATOMS = ['a', 'a', 'b', 'b', 'A', '.', '.', '[ab]', '[^a]', '\\d', '\\s', '\\S', '\\w', '[a-z]', '[A-Z]', ' ',
             '\\t', '\\n', '\\.', '\\*', '\\(', '\\[', '\\\\', '\\$', '\\^', 'é', '[^\\n]', '(a|b)', '(?:ab)',
             '(a)', '(.)', '(b*)', '(a|)', '[ \\t]', '[^ab\\n]']
_RX_QUANT = ['', '', '', '', '*', '+', '?', '{2}', '*?', '+?', '{1,2}']
_RX_START = ['', '', '', '', '^', '\\A', '\\b']
_RX_END = ['', '', '', '', '$', '\\Z', '\\b']


def _rx_branch(rng, sample):
    r = rng.random()
    if r < 0.35 and sample:
        a = rng.randrange(len(sample))
        b = min(len(sample), a + rng.choice([1, 1, 2, 2, 3, 4]))
        body = rx_lit(sample[a:b])
        if rng.random() < 0.25:
            body += rng.choice(['*', '+', '?'])
    else:
        body = ''.join(rng.choice(_RX_ATOMS) + rng.choice(_RX_QUANT) for _ in range(rng.choice([1, 1, 2, 2, 3])))
    if rng.random() < 0.15 and re.search(r'\((?!\?)', body):
        body += '\\1'
    return rng.choice(_RX_START) + body + rng.choice(_RX_END)


def gen_regex(rng, sample):
    for _ in range(30):
        rx = _rx_branch(rng, sample)
        if rng.random() < 0.12:
            rx = rx + '|' + _rx_branch(rng, sample)
        if "'" in rx:
            continue
        try:
            re.compile(rx)
        except re.error:
            continue
        return rx
    return 'a'


_REPL_PIECES = ['X', 'X', 'a', 'b', ' ', '-', '', '\\n', '\\t', '\\\\', '\\&', '\\g<0>', '.', '$', '(', 'ab']


def gen_repl(rng, rx):
    ngroups = re.compile(rx).groups
    for _ in range(20):
        pieces = []
        for _ in range(rng.choice([0, 1, 1, 1, 2, 2, 3])):
            if ngroups and rng.random() < 0.3:
                g = rng.randrange(1, ngroups + 1)
                pieces.append(rng.choice(['\\%d' % g, '\\g<%d>' % g]))
            else:
                pieces.append(rng.choice(_REPL_PIECES))
        repl = ''.join(pieces)
        try:
            re.compile(rx).sub(repl, 'ab \n')
            re.compile(rx).sub(repl, '')
        except (re.error, IndexError):
            continue
        return repl
    return 'X'


def gen_int_matcher(rng, n, d):
    r = rng.random()
    if d > 0 and r < 0.3:
        k = rng.choice(['not', 'and', 'or'])
        if k == 'not':
            return T.not_(gen_int_matcher(rng, n, d - 1))
        xs = [gen_int_matcher(rng, n, d - 1) for _ in range(rng.choice([2, 2, 3]))]
        return (T.and_ if k == 'and' else T.or_)(*xs)
    if r > 0.97:
        return T.const(rng.random() < 0.5)
    return T.cmp_(rng.choice(T.CMP_OPS), max(0, n + rng.choice([-2, -1, -1, 0, 0, 0, 1, 1, 2])))


def _some_line(rng, text):
    ls = T.lines_of(text)
    return rng.choice(ls)[0] if ls else ''


def gen_line_matcher(rng, text, d):
    r = rng.random()
    if d > 0 and r < 0.3:
        k = rng.choice(['not', 'and', 'or'])
        if k == 'not':
            return T.not_(gen_line_matcher(rng, text, d - 1))
        xs = [gen_line_matcher(rng, text, d - 1) for _ in range(rng.choice([2, 2, 3]))]
        return (T.and_ if k == 'and' else T.or_)(*xs)
    if r > 0.96:
        return T.const(rng.random() < 0.5)
    if rng.random() < 0.4:
        return T.l_num(gen_int_matcher(rng, rng.randint(0, T.num_lines_of(text) + 1), max(0, d - 1)))
    return T.l_contents(gen_matcher(rng, _some_line(rng, text), max(0, d - 1), line_level=True))


def _mutate(rng, t):
    r = rng.random()
    if r < 0.15:
        return t + rng.choice(['a', '\n', ' ', 'b\n'])
    if r < 0.3 and t:
        return t[:-1]
    if r < 0.45 and t:
        k = rng.randrange(len(t))
        return t[:k] + _change_char(t[k]) + t[k + 1:]
    if r < 0.55 and t:
        k = rng.randrange(len(t))
        return t[:k] + t[k + 1:]
    if r < 0.65:
        return t.rstrip('\n')
    if r < 0.72:
        return t.swapcase()
    if r < 0.8:
        return t.strip()
    if r < 0.9:
        return gen_text(rng)
    return ''


def gen_equals(rng, text):
    exp = text if rng.random() < 0.5 else _mutate(rng, text)
    tr = None
    r = rng.random()
    if r < 0.06:
        exp, tr = exp.upper(), T.char_case('lower')
    elif r < 0.1:
        exp, tr = exp + rng.choice(['\n', '\n\n', '']), T.strip('trailing-new-lines')
    elif r < 0.13:
        exp, tr = rng.choice([' ', '\n', '']) + exp + rng.choice([' ', '\t\n', '']), T.strip()
    elif r < 0.16:
        tr = T.identity()
    kinds = [k for k in ('str', 'eol', 'heredoc', 'file', 'prog') if t_src_ok(k, exp) and not (k == 'eol' and tr)]
    return T.equals(exp, rng.choice(kinds), tr=tr, alias=rng.random() < 0.25)


def gen_matcher(rng, text, d, line_level=False):
    """text: the text the matcher will be applied to (used only to make interesting values likely)."""
    r = rng.random()
    if d > 0 and r < 0.45:
        k = rng.choice(['not', 'and', 'or', 'transformed', 'transformed', 'every', 'any', 'every', 'any']
                       if not line_level else ['not', 'and', 'or', 'transformed', 'every', 'any'])
        if k == 'not':
            return T.not_(gen_matcher(rng, text, d - 1, line_level))
        if k in ('and', 'or'):
            xs = [gen_matcher(rng, text, d - 1, line_level) for _ in range(rng.choice([2, 2, 3]))]
            return (T.and_ if k == 'and' else T.or_)(*xs)
        if k == 'transformed':
            tr = gen_transformer(rng, text, d - 1)
            return T.on_transformed(tr, gen_matcher(rng, T.apply_transformer(tr, text), d - 1, line_level))
        lm = gen_line_matcher(rng, text, d - 1)
        return T.every_line(lm) if k == 'every' else T.any_line(lm)
    k = rng.choice(['is-empty', 'equals', 'equals', 'equals', 'matches', 'matches', 'matches', 'matches',
                    'num-lines', 'num-lines', 'const', 'every', 'any'] if not line_level else
                   ['is-empty', 'equals', 'equals', 'matches', 'matches', 'matches', 'matches', 'num-lines', 'const'])
    if k == 'is-empty':
        return T.is_empty()
    if k == 'equals':
        return gen_equals(rng, text)
    if k == 'matches':
        return T.matches(gen_regex(rng, text), full=rng.random() < 0.35, icase=rng.random() < 0.2,
                         alias=rng.random() < 0.2)
    if k == 'num-lines':
        return T.num_lines(gen_int_matcher(rng, T.num_lines_of(text), min(d, 1)))
    if k == 'const':
        return T.const(rng.random() < 0.5)
    lm = gen_line_matcher(rng, text, 0)
    return T.every_line(lm) if k == 'every' else T.any_line(lm)


def gen_ranges(rng, n):
    def bound():
        return rng.choice([1, 1, 2, 2, 3, n, max(1, n - 1), n + 1, -1, -1, -2, -n if n else -1, -(n + 1),
                           rng.randint(1, max(1, n)), rng.randint(2, max(2, n)), -rng.randint(1, max(1, n))])

    rs = []
    for _ in range(rng.choice([1, 1, 1, 2, 2, 3, 3, 4])):
        f = rng.randrange(4)
        if f == 0:
            rs.append([bound()])
        elif f == 1:
            rs.append([None, bound()])
        elif f == 2:
            rs.append([bound(), None])
        else:
            rs.append([bound(), bound()])
    return rs


def gen_transformer(rng, text, d, chain_ok=True):
    r = rng.random()
    if chain_ok and d > 0 and r < 0.3:
        ts = []
        cur = text
        for _ in range(rng.choice([2, 2, 3])):
            t = gen_transformer(rng, cur, d - 1, chain_ok=rng.random() < 0.4)
            ts.append(t)
            cur = T.apply_transformer(t, cur)
        return T.seq(*ts)
    k = rng.choice(['identity', 'strip', 'strip', 'strip', 'char-case', 'char-case', 'replace', 'replace', 'replace',
                    'replace', 'replace', 'replace', 'filter', 'filter', 'filter', 'filter', 'filter-nums',
                    'filter-nums', 'grep', 'grep', 'grep'])
    if k == 'identity':
        return T.identity()
    if k == 'strip':
        return T.strip(rng.choice([None, 'trailing-space', 'trailing-new-lines']))
    if k == 'char-case':
        return T.char_case(rng.choice(['lower', 'upper']))
    if k == 'replace':
        rx = gen_regex(rng, text)
        at = gen_line_matcher(rng, text, max(0, d - 1)) if rng.random() < 0.35 else None
        return T.replace(rx, gen_repl(rng, rx), icase=rng.random() < 0.15, preserve_nl=rng.random() < 0.45, at=at)
    if k == 'filter':
        return T.filter_(gen_line_matcher(rng, text, d))
    if k == 'filter-nums':
        return T.filter_line_nums(gen_ranges(rng, T.num_lines_of(text)))
    return T.grep(gen_regex(rng, _some_line(rng, text)), full=rng.random() < 0.35, icase=rng.random() < 0.2)


N_SEEDED_CASES = {'quick': 700, 'thorough': 9000}
N_T_SEEDED = 5


def _seeded_cases(tier, seed):
    rng = common.rng_for(seed, ID, 'seeded')
    for ci in range(N_SEEDED_CASES[tier]):
        t = gen_text(rng)
        items = []
        for _ in range(N_M_PER_CASE):
            m = gen_matcher(rng, t, rng.choice([0, 1, 1, 2, 2, 3]))
            kinds = [k for k in M_SRC if m_src_ok(k, t)]
            items.append({'k': 'm', 'ast': m, 'src': rng.choice(kinds)})
        for _ in range(N_T_SEEDED):
            tr = gen_transformer(rng, t, rng.choice([0, 1, 2, 2]))
            kinds = [k for k in T_SRC if t_src_ok(k, t)]
            items.append({'k': 't', 'ast': tr, 'src': rng.choice(kinds)})
        # matcher items last, so that `wrong_last` always designates a matcher
        items = [x for x in items if x['k'] == 't'] + [x for x in items if x['k'] == 'm']
        yield {'part': 'seeded', 'text': t, 'items': items, 'wrong_last': rng.random() < 0.34,
               'style': rng.choice(['full', 'min']), 'tag': 'seeded-%d-%d' % (seed, ci)}


# ---------------------------------------------------------------------------------------------
# one transformer / matcher OBJECT applied to several texts by ONE instruction
# (`dir-contents d : every file : contents -transformed-by T ( run % PROBE ... )` and `... : -selection contents M`):
# nothing may be carried over from one application to the next
# ---------------------------------------------------------------------------------------------
_MULTI_TEXTS = [['a\nb\n', 'b\na\nab\n', '', 'a', ' a \n\nb'], ['ab\n' * 4, 'b\n', 'a\nb\nc\nd\ne\n'],
                ['x\n', 'a b\n', 'A\nB\n', 'ba\nab\n\n']]


def _multi_cases(tier, seed):
    n = 0
    for gi, texts in enumerate(_MULTI_TEXTS):
        ts = core_transformers(texts[0], gi)
        for k, tr in enumerate(ts):
            if tier == 'quick' and (k + gi) % 2:
                continue
            n += 1
            yield {'part': 'multi-t', 'texts': texts, 'ast': tr, 'tag': 'multi-t-%d-%d' % (gi, k)}
        ms = core_matchers(texts[0], gi)
        for k, m in enumerate(ms):
            if tier == 'quick' and (k + gi) % 3:
                continue
            yield {'part': 'multi-m', 'texts': texts, 'ast': m, 'tag': 'multi-m-%d-%d' % (gi, k)}
    rng = common.rng_for(seed, ID, 'multi')
    for i in range(60 if tier == 'quick' else 1500):
        texts = [gen_text(rng) for _ in range(rng.choice((2, 3, 4, 5)))]
        if rng.random() < 0.6:
            yield {'part': 'multi-t', 'texts': texts, 'ast': gen_transformer(rng, texts[0], 2), 'tag': 'multi-t-r%d' % i}
        else:
            yield {'part': 'multi-m', 'texts': texts, 'ast': gen_matcher(rng, texts[0], 2), 'tag': 'multi-m-r%d' % i}


def _uses_external_text(ast):
    import json as _json
    j = _json.dumps(ast)
    return any(w in j for w in ('"file"', '"prog"', '"heredoc"', 'equals'))


def run_multi(case, ctx):
    ses = ctx.get_session()
    texts = case['texts']
    ast = case['ast']
    files = {'d/f%d.txt' % k: t for k, t in enumerate(texts)}
    env = T.RenderEnv(_probe_tokens)
    viol, inconc = [], []
    try:
        kind = T.TEXT_TRANSFORMER if case['part'] == 'multi-t' else T.TEXT_MATCHER
        src = T.render(ast, kind, env, 'full')
    except Exception as ex:
        return {'classes': [], 'viol': [], 'inconclusive': [], 'evaluations': 0}
    files.update(getattr(env, 'files', {}) or {})
    d = ses.new_case_dir(files)
    rec = os.path.join(d, 'multi-rec.jsonl')
    if case['part'] == 'multi-t':
        want = sorted(T.apply_transformer(ast, t) for t in texts)
        assertion = ('dir-contents d : every file : contents -transformed-by ( %s\n ) ( run %% %s %s %s )' %
                     (src, probe.PROBE, rec, probe.ctrl(stdin=True)))
    else:
        want_true = [k for k, t in enumerate(texts) if T.eval_matcher(ast, t)]
        assertion = 'dir-contents d : -selection contents ( %s\n ) num-files == %d' % (src, len(want_true))
    text = '[setup]\ncopy d\n' + ''.join('copy %s\n' % f for f in sorted(getattr(env, 'files', {}) or {})) + \
        '[act]\n$ true\n[assert]\n' + assertion + '\n'
    with open(os.path.join(d, 't.case'), 'w', encoding='utf-8', newline='') as f:
        f.write(text)
    r = ses.run([os.path.join(d, 't.case')], cwd=d, mode='normal')
    ctx.count('c05.multi_application_cases')
    if r.timed_out:
        inconc.append('watchdog')
    elif r.exc is not None:
        viol.append({'what': 'C05 exception escaped', 'detail': {'case_text': text, 'exc': r.exc[-300:]}})
    elif case['part'] == 'multi-t':
        if r.rc != 0:
            # a syntax problem of the rendering is not a verdict; anything else is
            if r.rc == 65:
                ctx.count('c05.multi_application_rendering_rejected')
                inconc.append('multi-t case rejected: ' + r.err[:200])
            else:
                viol.append({'what': 'C05 one transformer applied to %d texts by one instruction: outcome %s/%r' %
                                     (len(texts), r.out.strip(), r.rc), 'detail': {'case_text': text, 'stderr': r.err[:500]}})
        else:
            got = sorted(x['stdin'].decode('utf-8', 'replace') for x in probe.read_records(rec))
            ctx.count('c05.multi_application_outputs', len(got))
            if got != want:
                viol.append({'what': 'C05 transformer %s applied to the %d texts %r by ONE instruction gives the outputs '
                                     '%r, the manual gives %r' % (src.replace('\n', ' '), len(texts), texts, got, want),
                             'detail': {'case_text': text, 'ast': ast}})
    else:
        if r.rc == 65:
            ctx.count('c05.multi_application_rendering_rejected')
            inconc.append('multi-m case rejected: ' + r.err[:200])
        elif not (r.rc == 0 and r.out == 'PASS\n'):
            viol.append({'what': 'C05 matcher %s applied to the %d texts %r by ONE instruction (-selection contents M): the '
                                 'manual says it holds for %d of them (%r); `num-files == %d` gives %s' %
                                 (src.replace('\n', ' '), len(texts), texts, len(want_true), want_true, len(want_true),
                                  r.out.strip() or r.rc), 'detail': {'case_text': text, 'ast': ast, 'stderr': r.err[:400]}})
    ses.clean_tmp()
    ses.drop(d)
    return {'classes': [(case['part'], T.name_of(ast) if hasattr(T, 'name_of') else str(ast[0]), len(texts))],
            'viol': viol, 'inconclusive': inconc if len(inconc) and 'watchdog' in inconc[0] else [],
            'evaluations': len(texts)}


_SAMESTAT_TEXTS = [('a\n', 'b\n'), ('ab\nab\n', 'ab\nba\n'), ('x', 'y'), ('line 1\nline 2\n', 'line 1\nline 3\n'),
                   ('ab' * 5000 + '\n', 'ab' * 4999 + 'ba\n'), (' a \n', ' b \n'), ('a\n\n', '\na\n')]


def _samestat_cases():
    """`equals` between two FILES whose contents differ but whose size and modification time coincide (files unpacked
    from an archive, copied with attributes, written within one tick of a coarse file-system clock): it is the
    contents that `equals` speaks about."""
    for i, (t1, t2) in enumerate(_SAMESTAT_TEXTS):
        assert len(t1.encode()) == len(t2.encode()) and t1 != t2
        for where in ('home', 'act'):
            yield {'part': 'samestat', 'texts': [t1, t2], 'where': where, 'tag': 'samestat-%d-%s' % (i, where)}


def run_samestat(case, ctx):
    ses = ctx.get_session()
    t1, t2 = case['texts']
    d = ses.new_case_dir({'one.txt': t1.encode(), 'two.txt': t2.encode(), 'same.txt': t1.encode()})
    stamp = 1500000000
    for n in ('one.txt', 'two.txt', 'same.txt'):
        os.utime(os.path.join(d, n), (stamp, stamp))
    rel = '-rel-home' if case['where'] == 'home' else '-rel-act'
    setup = [] if case['where'] == 'home' else ['copy one.txt', 'copy two.txt', 'copy same.txt',
                                                 '$ touch -d @%d one.txt two.txt same.txt' % stamp]
    asserts = [
        ('contents %s one.txt : ! equals -contents-of %s two.txt' % (rel, rel), True),
        ('contents %s two.txt : ! equals -contents-of %s one.txt' % (rel, rel), True),
        ('contents %s one.txt : equals -contents-of %s same.txt' % (rel, rel), True),
        ('contents %s one.txt : ! ( equals -contents-of %s two.txt || equals -contents-of %s two.txt )' % (rel, rel, rel),
         True),
        ('contents %s one.txt : equals -contents-of %s two.txt' % (rel, rel), False),
    ]
    viol, inconc = [], []
    for k, (a, holds) in enumerate(asserts):
        text = ('[setup]\n' + '\n'.join(setup) + '\n' if setup else '') + '[act]\n$ true\n[assert]\n' + a + '\n'
        with open(os.path.join(d, 't%d.case' % k), 'w') as f:
            f.write(text)
        r = ses.run([os.path.join(d, 't%d.case' % k)], cwd=d, mode='normal')
        ctx.count('c05.matcher_verdicts')
        ctx.count('c05.same_size_same_mtime_verdicts')
        if r.timed_out:
            inconc.append('watchdog')
            continue
        want = ('PASS', 0) if holds else ('FAIL', 32)
        got = (r.out.strip(), r.rc)
        if got != want:
            viol.append({'what': 'C05 equals between two files of the same size and modification time (contents %r / %r, '
                                 'in the %s directory): `%s` gives %s, the texts say %s'
                                 % (t1[:20], t2[:20], case['where'], a, got[0], want[0]),
                         'detail': {'case_text': text, 'observed': r.brief()}})
        ses.clean_tmp()
    ses.drop(d)
    return {'classes': [('samestat', case['where'], len(t1))], 'viol': viol, 'inconclusive': inconc,
            'evaluations': len(asserts)}


def cases(tier, seed):
    for c in _samestat_cases():
        yield c
    for c in _multi_cases(tier, seed):
        yield c
    for c in _core_cases():
        yield c
    for c in _seeded_cases(tier, seed):
        yield c


# ---------------------------------------------------------------------------------------------
# case text
# ---------------------------------------------------------------------------------------------
def _probe_tokens(text):
    # PROBE OUTFILE CTRL : OUTFILE "-" = no record; the text travels hex encoded, so no quoting is involved
    return [probe.PROBE, '-', probe.ctrl(out=text)]


class Built:
    def __init__(self):
        self.files = {}
        self.text = ''
        self.line_range = {}  # item index -> (first, last) line number (1-based) of its [assert] instruction
        self.out_file = {}  # item index -> name of the output file in the act directory
        self.dsl = {}  # item index -> the instruction text
        self.predicted = {}  # item index -> reference verdict (m) | reference output (t)
        self.emitted_true = {}  # item index -> whether the instruction as written is predicted to hold


def build(case, only=None):
    """only: None (all items) or a set of item indices.  wrong_last applies to the last item of the case (if
    included)."""
    text = case['text']
    style = case.get('style', 'full')
    items = case['items']
    idxs = [i for i in range(len(items)) if only is None or i in only]
    b = Built()
    env = T.RenderEnv(program_for_text=_probe_tokens, file_prefix='exp')
    b.files['in.txt'] = text
    setup, asserts = [], []
    wrong_idx = len(items) - 1 if case.get('wrong_last') and items and items[-1]['k'] == 'm' else None
    uses_file = False
    for i in idxs:
        it = items[i]
        if it['k'] == 't':
            src = it['src']
            name = 'o%d' % i
            if src == 'file':
                uses_file = True
                toks = ['-contents-of', '-rel-act', 'in.txt', '-transformed-by'] + \
                       T.render_tokens(it['ast'], T.TEXT_TRANSFORMER, env, style, simple=True)
            else:
                toks = T.text_source_tokens({'text': text, 'kind': src, 'tr': it['ast']}, env, style)
            ins = T.join_tokens(['file', name, '='] + toks)
            setup.append((i, ins))
            b.out_file[i] = name
            b.dsl[i] = ins
            b.predicted[i] = T.apply_transformer(it['ast'], text)
        else:
            pred = T.eval_matcher(it['ast'], text)
            b.predicted[i] = pred
            emit_negated = (not pred) != (i == wrong_idx)
            b.emitted_true[i] = (i != wrong_idx)
            mt = T.render_tokens(it['ast'], T.TEXT_MATCHER, env, style)
            if emit_negated:
                if style == 'min' and not T.has_infix_at_depth0(mt):
                    mt = ['!'] + mt
                else:
                    mt = ['!', '('] + mt + [')']
            src = it['src']
            pre = []
            if src == 'file':
                uses_file = True
                head = ['contents', 'in.txt', ':']
            elif src == 'act':
                head = ['stdout']
            elif src == 'acterr':
                head = ['stderr']
            elif src == 'prog':
                # "TEXT-MATCHER must appear on a separate line."
                head = ['stdout', '-from'] + _probe_tokens(text) + [T.NL]
                if mt[0] == '-transformed-by':
                    # a `-transformed-by` on the line after a PROGRAM is the program's TRANSFORMATION-OF-OUTPUT
                    # (syntax PROGRAM) and would swallow a following `|| M`: make it unambiguous
                    mt = ['('] + mt + [')']
            elif src == 'lit':
                lit = 'lit%d.txt' % i
                kind = 'str' if T.str_ok(text) and (i % 2 == 0 or not T.heredoc_ok(text)) else 'heredoc'
                pre.append(T.join_tokens(['file', lit, '='] +
                                         T.text_source_tokens({'text': text, 'kind': kind}, env, style)))
                head = ['contents', lit, ':']
            else:
                raise ValueError(src)
            ins = T.join_tokens(head + mt)
            for p in pre:
                setup.append((None, p))
            asserts.append((i, ins))
            b.dsl[i] = '\n'.join(pre + [ins])
    lines = ['[setup]']
    if uses_file:
        lines.append('copy in.txt')
    for _, ins in setup:
        lines.extend(ins.split('\n'))
    lines.append('[act]')
    lines.append(' '.join([probe.PROBE, '-', probe.ctrl(out=text, err=text)]))
    lines.append('[assert]')
    for i, ins in asserts:
        first = len(lines) + 1
        lines.extend(ins.split('\n'))
        b.line_range[i] = (first, len(lines))
    b.text = '\n'.join(lines) + '\n'
    b.files.update(env.files)
    b.files['t.case'] = b.text
    return b


# ---------------------------------------------------------------------------------------------
# execution and decision
# ---------------------------------------------------------------------------------------------
_SAMPLE_TAGS = ('core-m-5-7', 'core-t-6-3', 'core-t-43-2', 'core-m-61-1')
_LINE_RE = re.compile(r't\.case, line (\d+)')


class Obs:
    pass


def execute(ses, b):
    d = ses.new_case_dir(b.files)
    r = ses.run(['--keep', os.path.join(d, 't.case')], cwd=d, mode='keep')
    o = Obs()
    o.r = r
    o.timed_out = r.timed_out
    o.exc = r.exc
    o.ident = r.err.split('\n', 1)[0] if r.err else ''
    o.rc = r.rc
    m = _LINE_RE.search(r.err)
    o.fail_line = int(m.group(1)) if m else None
    o.outputs = {}
    sds = r.out[:-1] if r.out.endswith('\n') else r.out
    if sds and os.path.isdir(os.path.join(sds, 'act')):
        for i, name in b.out_file.items():
            p = os.path.join(sds, 'act', name)
            if os.path.isfile(p):
                with open(p, 'rb') as f:
                    raw = f.read()
                try:
                    o.outputs[i] = raw.decode('utf-8')
                except UnicodeDecodeError:
                    o.outputs[i] = 'hex:' + raw.hex()
    ses.clean_tmp()
    ses.drop(d)
    return o


def _err_excerpt(o):
    return o.r.err[:700]


def run_case(case, ctx):
    if case.get('part') in ('multi-t', 'multi-m'):
        return run_multi(case, ctx)
    if case.get('part') == 'samestat':
        return run_samestat(case, ctx)
    ses = ctx.get_session()
    text = case['text']
    items = case['items']
    tc = text_class(text)
    viol, inconc, classes = [], [], []
    evaluations = 0
    b = build(case)
    o = execute(ses, b)
    ctx.count('c05.cases_run')
    wrong_idx = len(items) - 1 if case.get('wrong_last') and items and items[-1]['k'] == 'm' else None

    def vio(i, what, expected, observed, single_text=None):
        it = items[i] if i is not None else None
        viol.append({'what': 'C05 %s' % what,
                     'detail': {'item': i, 'kind': it and it['k'], 'src': it and it['src'],
                                'ast': it and it['ast'], 'dsl': b.dsl.get(i) if i is not None else None,
                                'text': text, 'expected': expected, 'observed': observed,
                                'case_text': single_text if single_text is not None else b.text}})

    def count_m(i):
        it = items[i]
        ctx.count('c05.matcher_verdicts')
        ctx.count('c05.src.m.' + it['src'])
        for src in T.equals_sources(it['ast']):
            ctx.count('c05.equals.' + src['kind'])
        for n in T.heads(it['ast']):
            ctx.count('c05.form.' + n)
        classes.append(('m', form_of(it['ast']), it['src'], bool(b.predicted[i]), tc))

    def count_t(i, observed):
        it = items[i]
        ctx.count('c05.transformer_outputs')
        ctx.count('c05.src.t.' + it['src'])
        for n in T.heads(it['ast']):
            ctx.count('c05.form.' + n)
        classes.append(('t', form_of(it['ast']), it['src'], 'changed' if observed != text else 'same', tc))

    def judge_t(i, oo, single_text=None):
        """compare the output file of transformer item i; returns True when an observation was made"""
        if i not in oo.outputs:
            return False
        exp, got = b.predicted[i], oo.outputs[i]
        count_t(i, got)
        if got != exp:
            vio(i, 'transformer output differs from the manual: %s  on %r (source kind %s): expected %r, got %r'
                % (T.render(items[i]['ast'], T.TEXT_TRANSFORMER, T.RenderEnv(_probe_tokens)).replace('\n', ' '),
                   text, items[i]['src'], exp, got), exp, got, single_text)
        return True

    if o.timed_out:
        return {'classes': [], 'viol': [], 'inconclusive': ['watchdog'], 'evaluations': 0}

    t_idxs = [i for i in range(len(items)) if items[i]['k'] == 't']
    m_idxs = [i for i in range(len(items)) if items[i]['k'] == 'm']
    expected_ident = 'FAIL' if wrong_idx is not None else 'PASS'
    ok_whole = (o.exc is None and o.ident == expected_ident and o.rc == (32 if wrong_idx is not None else 0))
    if ok_whole and wrong_idx is not None:
        lo, hi = b.line_range[wrong_idx]
        ok_whole = o.fail_line is not None and lo <= o.fail_line <= hi
    judged_t = set()
    if o.exc is None and o.ident in ('PASS', 'FAIL'):
        for i in t_idxs:
            if judge_t(i, o):
                judged_t.add(i)
                evaluations += 1
    if ok_whole:
        for i in m_idxs:
            count_m(i)
            evaluations += 1
        if wrong_idx is not None:
            ctx.count('c05.wrong_polarity_FAIL_observed')
        missing = [i for i in t_idxs if i not in judged_t]
        for i in missing:
            vio(i, 'output file of `file oK = ...` is missing in the kept sandbox', b.predicted[i], None)
    else:
        # bisect: every not yet judged item in a case of its own
        ctx.count('c05.bisections')
        n_found = len(viol)
        for i in m_idxs + [i for i in t_idxs if i not in judged_t]:
            sub = dict(case)
            b1 = build(sub, only={i})
            o1 = execute(ses, b1)
            ctx.count('c05.cases_run')
            if o1.timed_out:
                inconc.append('watchdog (single item)')
                continue
            it = items[i]
            if it['k'] == 't':
                if o1.exc is None and o1.ident == 'PASS' and i in o1.outputs:
                    # judge against b1's own prediction (same value)
                    judge_t(i, o1, b1.text)
                    evaluations += 1
                else:
                    vio(i, 'transformation did not produce a file: %s ended in %s (exit %r)'
                        % (b1.dsl[i].replace('\n', ' '), o1.ident or 'exception', o1.rc),
                        b.predicted[i], {'ident': o1.ident, 'rc': o1.rc, 'exc': o1.exc, 'stderr': _err_excerpt(o1)},
                        b1.text)
                continue
            exp_ident = 'FAIL' if i == wrong_idx else 'PASS'
            if o1.exc is None and o1.ident == exp_ident:
                count_m(i)
                evaluations += 1
                if i == wrong_idx:
                    ctx.count('c05.wrong_polarity_FAIL_observed')
                continue
            count_m(i)
            evaluations += 1
            pred = b.predicted[i]
            if o1.exc is None and o1.ident in ('PASS', 'FAIL'):
                what = ('verdict differs from the manual: text %r (as %s), matcher %s : reference says %s, so `%s` '
                        'must %s, but the program says %s'
                        % (text, it['src'],
                           T.render(it['ast'], T.TEXT_MATCHER, T.RenderEnv(_probe_tokens)).replace('\n', ' '),
                           pred, b1.dsl[i].replace('\n', ' '), exp_ident, o1.ident))
            else:
                what = ('no verdict: `%s` on text %r ended in %s (exit %r), never a HARD_ERROR counted as FAIL'
                        % (b1.dsl[i].replace('\n', ' '), text, o1.ident or 'exception', o1.rc))
            vio(i, what, {'reference_value_of_matcher': pred, 'outcome': exp_ident},
                {'ident': o1.ident, 'rc': o1.rc, 'exc': o1.exc, 'stderr': _err_excerpt(o1)}, b1.text)
        if len(viol) == n_found and not inconc:
            vio(None, 'every item behaves as documented alone, but the case as a whole ended in %s (exit %r, '
                      'line %r), expected %s' % (o.ident or 'exception', o.rc, o.fail_line, expected_ident),
                expected_ident, {'ident': o.ident, 'rc': o.rc, 'exc': o.exc, 'fail_line': o.fail_line,
                                 'stderr': _err_excerpt(o)})
    res = {'classes': classes, 'viol': viol, 'inconclusive': inconc, 'evaluations': evaluations}
    tag = case.get('tag', '')
    if tag in _SAMPLE_TAGS or (tag.startswith('seeded-') and tag.rsplit('-', 1)[1] in ('3', '250')) or viol:
        res['sample'] = {'tag': case.get('tag'), 'tested_text': text, 'case_text': b.text,
                         'reference': {str(i): b.predicted[i] for i in sorted(b.predicted)},
                         'expected_outcome': expected_ident + (' at the last [assert] instruction'
                                                               if wrong_idx is not None else ''),
                         'observed': {'ident': o.ident, 'rc': o.rc, 'fail_line': o.fail_line,
                                      'output_files': {str(i): o.outputs[i] for i in sorted(o.outputs)}}}
    return res


def setup_worker(ctx):
    """Coverage counters only (no verdict depends on them): which of the four comparison strategies of `equals`
    (external dependencies on neither / only the tested / only the expected / both texts) the cases drove."""
    ctx.get_session()  # imports vf.driver, which puts ${VERIF_REPO:-/repo}/src first on sys.path
    common.put_repo_first_on_path()
    import exactly_lib
    if not os.path.realpath(exactly_lib.__file__).startswith(os.path.realpath(common.REPO_SRC) + os.sep):
        raise RuntimeError('exactly_lib imported from %s, not from %s' % (exactly_lib.__file__, common.REPO_SRC))
    ctx.count('c05.exactly_lib_is_from_VERIF_REPO')
    try:
        from exactly_lib.impls.types.string_matcher.impl import equality
        targets = [(equality._ApplierWExtDepsCases, '_ext_deps__none', 'neither'),
                   (equality._ApplierWExtDepsCases, '_ext_deps__only_actual', 'only_tested_text'),
                   (equality._ApplierWExtDepsCases, '_ext_deps__only_expected', 'only_expected_text'),
                   (equality._ExtDepsOfBothHandler, 'match', 'both')]
        for cls, meth, label in targets:
            orig = getattr(cls, meth)

            def wrapper(self, *a, __orig=orig, __label=label, **kw):
                ctx.count('c05.equals_strategy.' + __label)
                return __orig(self, *a, **kw)

            setattr(cls, meth, wrapper)
    except Exception:
        ctx.count('c05.equals_strategy.counters_unavailable')


KNOWN = {}
