"""C03 Validation precedes execution: an invalid test case has no effects (D1, M1, M7, M8).

A valid, effectful base case (marker-writing instructions at every position of every phase, the probe as
the action) gets exactly ONE defective instruction inserted at a (phase, position).  The real CLI is run
on it under the effect monitors; then `exactly symbol FILE` is run on it; then the same case WITHOUT the
defect is run as a positive control (it must show every marker, a Popen event and a sandbox, otherwise
the case is inconclusive).  Separately `exactly symbol ...` is run on valid effectful cases.

The expected exit identifier per defect class is the hard-coded table EXPECTED (from `help case spec`,
"Processing steps" 2 and 3) - nothing is read from the implementation.
"""
import os
import re

from vf import common, probe

ID = 'C03'
LEVEL = 'exploration'
RULE = ('case = valid effectful base case (k marker-writing instructions per phase, kinds $ / % / run / run probe / '
        'file / file -stdout-from, probe as action) + ONE defective instruction of class c, spelling s, inserted at '
        '(phase, position), optionally through an included file / beside a suite / other phase layout / --keep / --act; '
        'class key = (defect class[/tag], phase, position kind, via, mode, layout, identifier observed); '
        'a case is non-trivial when the positive control (same case without the defect) produced every marker, a '
        'Popen event and a sandbox, so that silence of the monitors on the defective case means something. '
        '"symbol" keys = (symbol, form, layout, rc) for `exactly symbol` on valid effectful cases')
ASSUMPTIONS = [
    'expected identifier per defect class is the hard-coded table EXPECTED (help case spec, processing steps 2-3)',
    'os.chdir(<the directory that was current when execute() was entered>) is not counted as an effect (Exactly '
    'restores the cwd on return; the process cwd is compared before/after as well)',
    'syntax defects are spellings that are errors on their own line; an instruction whose mandatory LAST argument is '
    'missing legitimately continues on the next line (DESIGN App. A hazard 1) and is not used',
    'non-integer texts come from the closed vocabulary abc / 1.5 / "1 2" (expressions that raise while being '
    'evaluated are C18/S1)',
    'a missing file in the SANDBOX is legitimately detected after setup and is not used; only home-relative '
    'copy / -contents-of / -existing-* / program paths are',
    '`exactly symbol FILE` on a defective case: no effects are tolerated; exit 65 + the class identifier is demanded '
    'for syntax- and symbol-level classes; for pre-sds validation classes (missing file, integer, regex) exit 0 is '
    'accepted as well, since `help symbol` promises only that nothing is executed',
    'absolute path symbols as creation targets are left to C12 (S9)',
    'the positive control is always run in normal mode; spellings tried by one case descriptor share the control run '
    'when the text of the control is identical (counter c03.control_runs = real runs, c03.control_ok = uses)',
    'under --keep / --act an invalid case must leave stdout empty and print the identifier on stderr (`help case`: '
    '"If execution of the test case cannot be started ... nothing is output on stdout"; "error information is emitted '
    'to stderr")',
    'a `def` whose value is invalid counts as a defective instruction also when the symbol is never referenced '
    '(tag unref_def) - the property quantifies over instructions, not over references',
    'regex / integer texts that depend on a sandbox path symbol are validated after sandbox creation by design and '
    'are not generated',
]
EXHAUSTIVE_NOTE = ('every (instruction phase, position 0..k) x every spelling of every defect class for k = 2 (+ every '
                   '[conf] position and every act-phase defect), layout canonical, normal mode, is enumerated completely '
                   'in both tiers; for k = 1 every spelling is placed at the first or at the last position (alternating);'
                   ' plus a fixed table via {include, include with phase header, beside a '
                   'suite, inside the suite} x phase x class and mode {--keep, --act} x phase x class; thorough adds '
                   'k = 3')
MIN_OBS = {'quick': {'evaluations': 5000, 'classes': 400, 'c03.defect_runs_judged': 2400, 'c03.control_ok': 2400,
                     'c03.control_runs': 700, 'c03.control_popen_events': 4000, 'c03.control_sandboxes': 700,
                     'c03.audit_logs_inspected': 4800, 'c03.symbol_on_defective_judged': 2400,
                     'c03.symbol_on_valid_judged': 300},
           'thorough': {'evaluations': 16000, 'classes': 800, 'c03.defect_runs_judged': 8000, 'c03.control_ok': 8000,
                        'c03.control_runs': 2500, 'c03.control_popen_events': 15000, 'c03.control_sandboxes': 2500,
                        'c03.audit_logs_inspected': 16000, 'c03.symbol_on_defective_judged': 8000,
                        'c03.symbol_on_valid_judged': 800}}

PHASES = ['conf', 'setup', 'act', 'before-assert', 'assert', 'cleanup']
IP = ('setup', 'before-assert', 'assert', 'cleanup')  # instruction phases that carry effect instructions
LETTER = {'setup': 's', 'before-assert': 'b', 'assert': 'a', 'cleanup': 'c'}
KINDS = ['shell', 'run_sh', 'pct', 'run_probe', 'file', 'file_from']
CONF_FILL = ['status = PASS', 'actor = command', 'home = .', 'act-home = .']
LAYOUTS = ['canon', 'reversed', 'split', 'shuffle']

# ---------------------------------------------------------------------------------------------
# The oracle table (hard-coded; `help case spec` / Processing steps):
#   step 2 "Syntax checking and directives processing": syntax error -> SYNTAX_ERROR, inclusion -> FILE_ACCESS_ERROR
#   step 3 "Validation and syntax checking of [act]": invalid [act] -> SYNTAX_ERROR; invalid reference to symbol or
#           external resource -> VALIDATION_ERROR ; all with exit code 65
# ---------------------------------------------------------------------------------------------
EXPECTED = {
    'syntax': 'SYNTAX_ERROR',
    'unknown': 'SYNTAX_ERROR',
    'actsyntax': 'SYNTAX_ERROR',
    'include': 'FILE_ACCESS_ERROR',
    'undef': 'VALIDATION_ERROR',
    'later': 'VALIDATION_ERROR',
    'wrongtype': 'VALIDATION_ERROR',
    'illrel': 'VALIDATION_ERROR',
    'missing': 'VALIDATION_ERROR',
    'badint': 'VALIDATION_ERROR',
    'badregex': 'VALIDATION_ERROR',
}
EXIT_CODE = 65
ALL_IDENTS = ('PASS', 'SKIPPED', 'FAIL', 'XFAIL', 'XPASS', 'SYNTAX_ERROR', 'FILE_ACCESS_ERROR', 'PRE_PROCESS_ERROR',
              'VALIDATION_ERROR', 'HARD_ERROR', 'INTERNAL_ERROR')
# classes for which `exactly symbol FILE` must itself end in 65 + identifier (it cannot build its report otherwise)
SYMBOL_CMD_STRICT = {'syntax', 'unknown', 'actsyntax', 'include', 'undef', 'later', 'wrongtype', 'illrel'}

A = '@A@'  # the standard action line


def _sp(lines, phases=IP, support=(), conf_support=(), later_def=None, tag='', act_ok=None):
    return {'lines': list(lines), 'phases': tuple(phases), 'support': list(support),
            'conf_support': list(conf_support), 'later_def': later_def, 'tag': tag, 'act_ok': act_ok}


_WT = {'S': 'def string WT_S = x', 'P': 'def path WT_P = -rel-act x', 'L': 'def list WT_L = a b',
       'IM': 'def integer-matcher WT_IM = == 1', 'LM': 'def line-matcher WT_LM = contents matches a',
       'TT': 'def text-transformer WT_TT = identity'}
_IR = {'H': 'def path IR_H = -rel-home d', 'R': 'def path IR_R = -rel-result d',
       'AH': 'def path IR_AH = -rel-act-home .', 'HERE': 'def path IR_HERE = -rel-here d'}

DEFECTS = {
    # -- 1. syntax error in the arguments of a known instruction ---------------------------------------
    'syntax': [
        _sp(['file -rel-home sx.txt']),
        _sp(['def string = x']),
        _sp(['timeout 3']),
        _sp(['def nosuchtype SX = y']),
        _sp(['file sx.txt = "unterminated']),
        _sp(['copy a b c']),
        _sp(['cd a b']),
        _sp(['run -nosuchoption % true']),
        _sp(['timeout = 1 2']),
        _sp(['file sx.txt = -no-such-option x']),
        _sp(['def path SX = -rel-nosuch x']),
        _sp(['dir sx = { file }'], tag='nested'),
        _sp(['file sx.txt = <<EOF', 'here document that is never terminated'], tag='multiline'),
        _sp(['exit-code == == 1'], phases=('assert',)),
        _sp(['stdout is-empty extra'], phases=('assert',)),
        _sp(['contents sx.txt is-empty'], phases=('assert',)),
        _sp(['stdin "x"'], phases=('setup',)),
        _sp(['status = NOPE'], phases=('conf',)),
        _sp(['status PASS'], phases=('conf',)),
        _sp(['actor = nonsense'], phases=('conf',)),
        _sp(['home missing-eq'], phases=('conf',)),
    ],
    # -- 2. unknown instruction (also: instruction that exists only in another phase) -----------------
    'unknown': [
        _sp(['no-such-instruction arg'], phases=IP + ('conf',)),
        _sp(['exit-code == 0'], phases=('setup', 'before-assert', 'cleanup', 'conf')),
        _sp(['stdout is-empty'], phases=('setup', 'before-assert', 'cleanup')),
        _sp(['stdin = "x"'], phases=('before-assert', 'assert', 'cleanup')),
        _sp(['status = PASS']),
        _sp(['actor = command']),
        _sp(['timeout = 1'], phases=('conf',)),
        _sp(['def string C = x'], phases=('conf',)),
    ],
    # -- 3. undefined symbol --------------------------------------------------------------------------------
    'undef': [
        _sp(['file u.txt = "@[UNDEF_S]@"']),
        _sp(['copy -rel UNDEF_P x']),
        _sp(['run @ UNDEF_PGM']),
        _sp(['$ echo @[UNDEF_S]@']),
        _sp(['def string D1 = @[UNDEF_S]@']),
        _sp(['file u.txt = "a" -transformed-by UNDEF_TT']),
        _sp(['run % echo @[UNDEF_L]@']),
        _sp(['env U = "@[UNDEF_S]@"']),
        _sp(['cd @[UNDEF_P]@/sub']),
        _sp(['dir ud = { file a.txt = "@[UNDEF_S]@" }'], tag='nested'),
        # the defective reference is NOT the first symbol usage of its instruction
        _sp(['file u.txt = "@[OK_S]@ @[UNDEF_S]@"'], support=['def string OK_S = ok'], tag='second_usage'),
        _sp(['run % echo @[OK_S]@ @[OK_S]@ @[UNDEF_L]@'], support=['def string OK_S = ok'], tag='second_usage'),
        _sp(['copy -rel OK_P ex.txt @[UNDEF_P]@/dst'], support=['def path OK_P = -rel-home .'], tag='second_usage'),
        _sp(['file u.txt = "@[OK_S]@" -transformed-by ( OK_TT | UNDEF_TT )'],
            support=['def string OK_S = ok', 'def text-transformer OK_TT = identity'], tag='second_usage'),
        _sp(['file u.txt = "a" -transformed-by ( identity | UNDEF_TT )'], tag='nested'),
        _sp(['def text-matcher D2 = ( is-empty || ! UNDEF_TM )'], tag='nested'),
        _sp(['exit-code UNDEF_IM'], phases=('assert',)),
        _sp(['stdout UNDEF_TM'], phases=('assert',)),
        _sp(['exists f : UNDEF_FM'], phases=('assert',)),
        _sp(['stdout -transformed-by ( strip | UNDEF_TT ) is-empty'], phases=('assert',), tag='nested'),
        # a definition that refers to the symbol it defines: the symbol is not defined at that point
        _sp(['def string SELF_S = x@[SELF_S]@'], tag='self_reference'),
        _sp(['def list SELF_L = a @[SELF_L]@ b'], tag='self_reference'),
        _sp(['def path SELF_P = -rel SELF_P sub'], tag='self_reference'),
        _sp(['def path SELF_P2 = @[SELF_P2]@/sub'], tag='self_reference'),
        _sp(['def line-matcher SELF_LM = ! SELF_LM'], tag='self_reference'),
        _sp(['def text-matcher SELF_TM = ( is-empty || SELF_TM )'], tag='self_reference'),
        _sp(['def text-transformer SELF_TT = ( strip | SELF_TT )'], tag='self_reference'),
        _sp(['def program SELF_PGM = @ SELF_PGM arg'], tag='self_reference'),
        _sp(['def file-matcher SELF_FM = ( type file && SELF_FM )'], tag='self_reference'),
        _sp(['def integer-matcher SELF_IM = ( == 1 || SELF_IM )'], tag='self_reference'),
        _sp(['def string SELF_S3 = x@[SELF_S3]@', 'file self.txt = "@[SELF_S3]@"'], tag='self_reference'),
        _sp([A + ' @[UNDEF_S]@'], phases=('act',)),
        _sp(['@ UNDEF_PGM'], phases=('act',)),
        _sp(['$ echo @[UNDEF_S]@'], phases=('act',)),
    ],
    # -- 4. symbol defined later (placement of the def is the case's `where`) ---------------------------
    'later': [
        _sp(['file l.txt = "@[LATER_S]@"'], later_def='def string LATER_S = x'),
        _sp(['copy -rel LATER_P ex.txt'], later_def='def path LATER_P = -rel-home .'),
        _sp(['run @ LATER_PGM'], later_def='def program LATER_PGM = % true'),
        _sp(['file l.txt = "@[OK_S]@ @[LATER_S]@"'], support=['def string OK_S = ok'], later_def='def string LATER_S = x',
            tag='second_usage'),
        _sp([A + ' @[LATER_S]@'], phases=('act',), later_def='def string LATER_S = x'),
    ],
    # -- 5. wrong symbol type ---------------------------------------------------------------------------------
    'wrongtype': [
        _sp(['copy -rel WT_S x'], support=[_WT['S']]),
        _sp(['file w.txt = "a" -transformed-by WT_P'], support=[_WT['P']]),
        _sp(['run @ WT_L'], support=[_WT['L']]),
        _sp(['file w.txt = "@[WT_IM]@"'], support=[_WT['IM']]),
        _sp(['def text-matcher WD = WT_S'], support=[_WT['S']]),
        _sp(['run % echo @[WT_TT]@'], support=[_WT['TT']]),
        _sp(['file w.txt = "a" -transformed-by ( identity | WT_P )'], support=[_WT['P']], tag='nested'),
        _sp(['file w.txt = "@[OK_S]@" -transformed-by WT_P'], support=['def string OK_S = ok', _WT['P']],
            tag='second_usage'),
        _sp(['run % echo @[OK_S]@ @[WT_TT]@'], support=['def string OK_S = ok', _WT['TT']], tag='second_usage'),
        # a string symbol with several references of which a LATER one leads to a path / list symbol, used where only
        # strings are admitted all the way down
        _sp(['env unset @[FAN_C]@'], support=['def string OK_S = ok', _WT['P'], 'def string FAN_B = @[WT_P]@',
                                              'def string FAN_C = @[OK_S]@@[FAN_B]@'], tag='indirect_sibling'),
        _sp(['dir -rel-act @[FAN_C]@'], support=['def string OK_S = ok', _WT['L'], 'def string FAN_B = @[WT_L]@',
                                                 'def string FAN_C = @[OK_S]@@[OK_S]@@[FAN_B]@'], tag='indirect_sibling'),
        _sp(['def path FAN_Q = -rel-act @[FAN_C]@'], support=['def string OK_S = ok', _WT['L'],
                                                             'def string FAN_C = @[OK_S]@@[WT_L]@'],
            tag='indirect_sibling'),
        # a list / path symbol, or a string built from one, as a COMPONENT of a file name ("Every symbol used as a path
        # component of a path must be defined as a string"): embedded in a name without relativity, after a leading
        # path reference, after an explicit relativity, in a files-source
        _sp(['dir out-@[WT_L]@'], support=[_WT['L']], tag='path_component'),
        _sp(['dir @[EXACTLY_ACT]@/@[WT_L]@'], support=[_WT['L']], tag='path_component'),
        _sp(['file -rel-tmp n-@[WT_L]@.txt'], support=[_WT['L']], tag='path_component'),
        _sp(['file pre/@[WT_P]@'], support=[_WT['P']], tag='path_component'),
        _sp(['dir out-@[FAN_B]@'], support=[_WT['L'], 'def string FAN_B = @[WT_L]@'], tag='path_component'),
        _sp(['file x-@[OK_S]@-@[FAN_B]@.txt = "t"'], support=['def string OK_S = ok', _WT['P'],
                                                             'def string FAN_B = @[WT_P]@'], tag='path_component'),
        _sp(['def path PC_Q = c-@[WT_L]@'], support=[_WT['L']], tag='path_component'),
        _sp(['dir pd = { file f-@[WT_L]@ }'], support=[_WT['L']], tag='path_component'),
        _sp(['exit-code WT_LM'], phases=('assert',), support=[_WT['LM']]),
        _sp(['stdout WT_S'], phases=('assert',), support=[_WT['S']]),
        _sp(['@ WT_S'], phases=('act',), support=[_WT['S']]),
        _sp([A + ' @[WT_IM]@'], phases=('act',), support=[_WT['IM']]),
    ],
    # -- 6. illegal relativity reached through a symbol -----------------------------------------------------
    'illrel': [
        _sp(['file -rel IR_H f.txt'], support=[_IR['H']]),
        _sp(['dir -rel IR_R sub'], support=[_IR['R']]),
        _sp(['cd -rel IR_AH sub'], support=[_IR['AH']]),
        _sp(['file @[IR_H]@/f.txt'], support=[_IR['H']]),
        _sp(['copy ex.txt -rel IR_H y'], support=[_IR['H']]),
        _sp(['file -rel IR_H2 f.txt'], support=[_IR['H'], 'def path IR_H2 = -rel IR_H e'], tag='two_step'),
        _sp(['file -rel IR_HERE f.txt'], support=[_IR['HERE']]),
        _sp(['copy -rel OK_P ex.txt -rel IR_H y'], support=['def path OK_P = -rel-home .', _IR['H']], tag='second_usage'),
        _sp(['file @[IR_H]@/f.txt = "@[OK_S]@"'], support=['def string OK_S = ok', _IR['H']]),
        # the same path symbol used twice in one instruction: legal as source, illegal as destination
        _sp(['copy @[IR_H]@/ex.txt @[IR_H]@/generated.txt'], support=['def path IR_H = -rel-home .'],
            tag='same_symbol_twice'),
        _sp(['dir @[IR_R]@/sub'], support=[_IR['R']]),
        _sp(['-rel IR_R x'], phases=('act',), support=[_IR['R']]),
    ],
    # -- 7. missing file in a home directory ----------------------------------------------------------------
    'missing': [
        _sp(['copy missing.txt']),
        _sp(['copy -rel-home missing.txt dst']),
        _sp(['copy -rel-act-home missing.txt']),
        _sp(['file m.txt = -contents-of missing.txt']),
        _sp(['file m.txt = -contents-of -rel-home missing.txt']),
        _sp(['run % echo -existing-file missing.txt']),
        _sp(['run % echo -existing-dir ex.txt']),
        _sp(['run % echo -existing-path -rel-home missing']),
        _sp(['run missing-program']),
        _sp(['run -python -existing-file missing.py']),
        _sp(['env MV = -contents-of missing.txt']),
        _sp(['file m.txt = -contents-of adir']),
        _sp(['copy -rel MH missing.txt'], support=['def path MH = -rel-home .']),
        # the name exists, but only as a dangling symbolic link: there is no such file
        _sp(['copy dangling.txt'], tag='dangling_link'),
        _sp(['copy -rel-home adir/dangling-dir dst'], tag='dangling_link'),
        _sp(['file m.txt = -contents-of dangling.txt'], tag='dangling_link'),
        _sp(['run % echo -existing-file dangling.txt'], tag='dangling_link'),
        _sp(['run % echo -existing-path -rel-home dangling.txt'], tag='dangling_link'),
        _sp(['run dangling.txt'], tag='dangling_link'),
        # the missing file as a text source WITH a transformation (each part of a text source has its own validator)
        _sp(['file m.txt = -contents-of missing.txt -transformed-by char-case -to-upper'], tag='transformed'),
        _sp(['file m.txt = -contents-of -rel-home missing.txt -transformed-by ( identity | strip )'], tag='transformed'),
        _sp(['env MV = -contents-of missing.txt -transformed-by identity'], tag='transformed'),
        _sp(['stdin = -contents-of missing.txt -transformed-by strip'], phases=('setup',), tag='transformed'),
        _sp(['stdout equals -contents-of missing.txt -transformed-by char-case -to-lower'], phases=('assert',),
            tag='transformed'),
        _sp(['file m.txt = "x" -transformed-by replace -at contents equals -contents-of missing.txt a b'],
            tag='transformed'),
        # a missing file named by an ABSOLUTE path (literal, -rel-here symbol, string symbol holding an absolute path)
        _sp(['copy /nonexistent-c03-dir/missing.txt'], tag='absolute'),
        _sp(['file m.txt = -contents-of /nonexistent-c03-dir/missing.txt'], tag='absolute'),
        _sp(['run /nonexistent-c03-dir/missing-program'], tag='absolute'),
        _sp(['run % echo -existing-file /nonexistent-c03-dir/missing.txt'], tag='absolute'),
        _sp(['copy -rel MHERE missing.txt'], support=['def path MHERE = -rel-here .'], tag='absolute'),
        _sp(['copy @[MABS]@/missing.txt'], support=['def string MABS = /nonexistent-c03-dir'], tag='absolute'),
        _sp(['/nonexistent-c03-dir/missing-program a b'], phases=('act',), tag='absolute'),
        _sp(['dir md = { file a.txt = -contents-of missing.txt }'], tag='nested'),
        _sp(['def text-source MTS = -contents-of missing.txt', 'file m.txt = @[MTS]@'], tag='def_ref'),
        _sp(['def program MPG = missing-program', 'run @ MPG'], tag='def_ref'),
        # the file-checking argument is given where a program SYMBOL is referenced (arguments accumulated by a reference
        # keep their validators), at one and at two levels of symbols
        _sp(['run @ MPG_OK -existing-file missing.txt'], support=['def program MPG_OK = % echo'], tag='ref_args'),
        _sp(['run @ MPG_OK a -existing-dir ex.txt'], support=['def program MPG_OK = % echo x'], tag='ref_args'),
        _sp(['run @ MPG_2 -existing-path -rel-home missing'], support=['def program MPG_OK = % echo',
                                                                      'def program MPG_2 = @ MPG_OK y'], tag='ref_args'),
        _sp(['def program MPG_2 = @ MPG_OK -existing-file missing.txt', 'run @ MPG_2'],
            support=['def program MPG_OK = % echo'], tag='ref_args'),
        _sp(['file m.txt = -stdout-from @ MPG_OK -existing-file missing.txt'], support=['def program MPG_OK = % echo'],
            tag='ref_args'),
        _sp(['@ MPG_OK -existing-file missing.txt'], phases=('act',), support=['def program MPG_OK = % echo'],
            tag='ref_args'),
        _sp(['def text-source MTS = -contents-of missing.txt'], tag='unref_def'),
        _sp(['def program MPG = % echo -existing-file missing.txt'], tag='unref_def'),
        _sp(['stdout equals -contents-of missing.txt'], phases=('assert',)),
        _sp(['exit-code -from missing-program', '    == 0'], phases=('assert',), tag='multiline'),
        _sp(['stdin = -contents-of missing.txt'], phases=('setup',)),
        _sp(['home = missing-dir'], phases=('conf',)),
        _sp(['act-home = missing-dir'], phases=('conf',)),
        _sp(['home = t.case'], phases=('conf',)),
        _sp(['missing-program a b'], phases=('act',)),
        _sp(['-rel-home missing-program'], phases=('act',)),
        _sp([A + ' -existing-file missing.txt'], phases=('act',)),
        _sp([A, '-stdin -contents-of missing.txt'], phases=('act',), tag='multiline'),
    ],
    # -- 8. non-integer where an integer is required ------------------------------------------------------
    'badint': [
        _sp(['timeout = abc']),
        _sp(['timeout = 1.5']),
        _sp(['timeout = "1 2"']),
        _sp(['file i.txt = "a" -transformed-by filter line-num == abc']),
        _sp(['file i.txt = "a" -transformed-by filter -line-nums 1.5']),
        _sp(['file i.txt = "a" -transformed-by ( identity | filter ( ! line-num == abc ) )'], tag='nested'),
        _sp(['def integer-matcher BI = == abc', 'file i.txt = "a" -transformed-by filter line-num BI'], tag='def_ref'),
        _sp(['def integer-matcher BI = == abc'], tag='unref_def'),
        _sp(['def line-matcher BL = line-num == 1.5'], tag='unref_def'),
        _sp(['exit-code == abc'], phases=('assert',)),
        _sp(['exit-code > 1.5'], phases=('assert',)),
        _sp(['stdout num-lines == "1 2"'], phases=('assert',)),
        _sp(['exit-code -from % true', '    == abc'], phases=('assert',), tag='multiline'),
        _sp(['exit-code ( ! == 0 || == abc )'], phases=('assert',), tag='nested'),
        _sp([A, '-transformed-by filter line-num == abc'], phases=('act',), tag='multiline'),
    ],
    # -- 9. regex that does not compile --------------------------------------------------------------------
    'badregex': [
        _sp(['file r.txt = "a" -transformed-by replace "a(" b']),
        _sp(['file r.txt = "a" -transformed-by grep "[a"']),
        _sp(['file r.txt = "a" -transformed-by filter contents matches "*a"']),
        _sp(['env RV = "a" -transformed-by replace "(?P<x" b']),
        _sp(['file r.txt = "a" -transformed-by ( strip | replace "a(" b )'], tag='nested'),
        _sp(['def text-transformer BR = replace "a(" b', 'file r.txt = "a" -transformed-by BR'], tag='def_ref'),
        _sp(['def text-matcher BM = matches "a("'], tag='unref_def'),
        _sp(['def text-transformer BTT = replace "[z-a]" x'], tag='unref_def'),
        _sp(['def file-matcher BF = name ~ "a("'], tag='unref_def'),
        _sp(['stdout matches "a("'], phases=('assert',)),
        _sp(['stdout matches -full "[a"'], phases=('assert',)),
        _sp(['exists -rel-act f : name ~ "(("'], phases=('assert',)),
        _sp(['contents -rel-act f : any line : contents matches "+"'], phases=('assert',), tag='nested'),
        _sp(['stdout ( is-empty || ! matches "a{2,1}" )'], phases=('assert',), tag='nested'),
        _sp([A, '-transformed-by replace "a(" b'], phases=('act',), tag='multiline'),
    ],
    # -- 10. act-phase contents rejected by the actor ------------------------------------------------------
    'actsyntax': [
        _sp([A, 'second-line arg'], phases=('act',)),
        _sp(['%'], phases=('act',)),
        _sp([A + ' "unterminated'], phases=('act',)),
        _sp(['-rel-result x'], phases=('act',)),
        _sp(['$'], phases=('act',)),
        _sp(['( ' + A + ' ) extra'], phases=('act',)),
        _sp([A, '-stdin <<EOF', 'never terminated'], phases=('act',)),
        _sp(['ex.py @M@', 'ex.py @M@'], phases=('act',), conf_support=['actor = file -python'], act_ok=['ex.py @M@']),
        _sp(['ex.py "unterminated'], phases=('act',), conf_support=['actor = file -python'], act_ok=['ex.py @M@']),
    ],
    # -- (11) missing included file (directive failure, step 2) -------------------------------------------
    'include': [
        _sp(['including missing.xly'], phases=IP + ('conf',)),
        _sp(['including nodir/missing.xly'], phases=IP + ('conf',)),
    ],
}
CLASSES = list(DEFECTS)

EX_PY = 'import sys\nwith open(sys.argv[1], "a") as f:\n    f.write("act\\n")\n'
HOME_FILES = {'ex.txt': 'x\n', 'adir/x': 'x\n', 'ex.py': EX_PY,
              # names that exist in the home directory only as symbolic links that lead nowhere
              'dangling.txt': ('symlink', 'no-such-target.txt'), 'adir/dangling-dir': ('symlink', '../no-such-dir')}
SUITE_MARK = {'setup': 'Ss', 'before-assert': 'Sb', 'assert': 'Sa', 'cleanup': 'Sc'}


# ---------------------------------------------------------------------------------------------
# generation
# ---------------------------------------------------------------------------------------------
def _kinds_for(k, variant):
    return {ph: [KINDS[(variant + 2 * pi + i) % len(KINDS)] for i in range(k if isinstance(k, int) else k[ph])]
            for pi, ph in enumerate(IP)}


def _mk(kinds, nconf, cls, sps, phase, pos, **kw):
    """One case descriptor = one base case + one (phase, position) + one defect class; `sps` lists the spellings of
    that class that are tried there one after the other (they share the positive control when its text is equal)."""
    c = {'kind': 'defect', 'kinds': kinds, 'nconf': nconf, 'cls': cls, 'sps': list(sps), 'phase': phase, 'pos': pos,
         'where': 'same', 'via': 'direct', 'mode': 'normal', 'layout': 'canon', 'lseed': 0, 'nonl': False,
         'also_nonl': False}
    c.update(kw)
    return c


def _wheres(cls):
    return ('same', 'next', 'end') if cls == 'later' else ('same',)


def _spellings(cls, phase):
    return [si for si, sp in enumerate(DEFECTS[cls]) if phase in sp['phases']]


def _control_groups(cls, phase, chunk=10):
    """Spellings applicable in `phase`, grouped so that all members of a group have the same positive control
    (same supporting definitions, same valid [act])."""
    groups = {}
    for si in _spellings(cls, phase):
        sp = DEFECTS[cls][si]
        key = (tuple(sp['support']), tuple(sp['conf_support']), sp['later_def'], tuple(sp['act_ok'] or ()))
        groups.setdefault(key, []).append(si)
    for g in groups.values():
        for i in range(0, len(g), chunk):
            yield g[i:i + chunk]


def _core(ks):
    n = 0
    for k in ks:
        for phase in PHASES:
            # act-phase defects replace the contents of [act]; they are repeated for every k (other surroundings)
            positions = [0] if phase == 'act' else list(range(k + 1))
            for pos in positions:
                for cls in CLASSES:
                    for where in _wheres(cls):
                        if phase == 'act' and where == 'same':
                            continue
                        # the defect is the very last line of the file: also tried without final newline
                        last_line = phase == 'cleanup' and pos == k and where == 'same'
                        for sps in _control_groups(cls, phase):
                            n += 1
                            if k == 1 and phase != 'act':
                                # k = 1 has only the positions first / last, which k = 2 covers with every spelling;
                                # here the spellings alternate between the two positions
                                sps = [si for si in sps if si % 2 == pos % 2]
                                if not sps:
                                    continue
                            yield _mk(_kinds_for(k, n), k, cls, sps, phase, pos, where=where, also_nonl=last_line)


def _via_mode_core():
    """Deterministic small core over the other ways a defect can reach the case (included file, included file with
    its own phase header, beside a suite, inside the suite's phase contents) and the other output modes."""
    n = 0
    k = 1
    for via in ('include', 'include_hdr', 'suite', 'suite_defect'):
        for phase in IP:
            for cls in CLASSES:
                if (cls == 'later' and via in ('include_hdr', 'suite_defect')) or \
                        (cls == 'include' and via in ('include', 'include_hdr')):
                    continue
                groups = list(_control_groups(cls, phase, chunk=2))
                if not groups:
                    continue
                n += 1
                pos = 0 if (via == 'include_hdr' and phase != 'setup') else k
                yield _mk(_kinds_for(k, n), k, cls, groups[n % len(groups)], phase, pos, via=via)
    for mode in ('keep', 'act'):
        for phase in ('setup', 'act', 'cleanup', 'conf'):
            for cls in CLASSES:
                groups = list(_control_groups(cls, phase, chunk=2))
                if not groups:
                    continue
                n += 1
                where = 'end' if cls == 'later' else 'same'
                yield _mk(_kinds_for(k, n), k, cls, groups[n % len(groups)], phase, 0 if phase == 'act' else k,
                          mode=mode, where=where)
        for cls in ('syntax', 'unknown', 'include', 'undef', 'missing'):
            n += 1
            yield _mk(_kinds_for(k, n), k, cls, list(_control_groups(cls, 'setup', chunk=2))[0], 'setup', 0,
                      mode=mode, via='suite_defect')


def _symbol_core():
    n = 0
    for k in (1, 2, 3):
        for layout in ('canon', 'reversed', 'split'):
            for variant in range(6):
                n += 1
                yield {'kind': 'symbol', 'kinds': _kinds_for(k, variant), 'nconf': k % 3, 'layout': layout,
                       'lseed': n}


def _seeded(tier, seed):
    rng = common.rng_for(seed, ID, 'ext')
    n = 200 if tier == 'quick' else 2000
    kmax = 3 if tier == 'quick' else 4
    for _ in range(n):
        ks = {ph: rng.randint(1, kmax) for ph in IP}
        kinds = {ph: [rng.choice(KINDS) for _ in range(ks[ph])] for ph in IP}
        nconf = rng.randint(0, 3)
        cls = rng.choice(CLASSES)
        phase = rng.choice(sorted(set(p for sp in DEFECTS[cls] for p in sp['phases'])))
        cand = rng.choice(list(_control_groups(cls, phase, chunk=99)))
        sps = sorted(rng.sample(cand, min(len(cand), 4)))
        if phase == 'act':
            pos = 0
        elif phase == 'conf':
            pos = rng.randint(0, nconf)
        else:
            pos = rng.randint(0, ks[phase])
        where = rng.choice(_wheres(cls))
        if phase == 'act' and where == 'same':
            where = 'next'
        via = 'direct'
        if phase in IP:
            via = rng.choice(['direct', 'direct', 'include', 'include_hdr', 'suite', 'suite_defect'])
        elif phase == 'conf':
            via = rng.choice(['direct', 'include', 'suite'])
        else:
            via = rng.choice(['direct', 'suite'])
        if cls == 'later' and via in ('include_hdr', 'suite_defect'):
            via = 'include'
        if cls == 'include' and via in ('include', 'include_hdr'):
            via = 'direct'
        layout = rng.choice(LAYOUTS)
        if via == 'include_hdr':
            layout = 'canon'
            if phase != 'setup':
                pos = 0
        mode = rng.choice(['normal', 'normal', 'keep', 'act'])
        yield _mk(kinds, nconf, cls, sps, phase, pos, where=where, via=via, mode=mode, layout=layout,
                  lseed=rng.randrange(1 << 30), nonl=rng.random() < 0.15)
    for _ in range(20 if tier == 'quick' else 150):
        ks = {ph: rng.randint(1, kmax) for ph in IP}
        yield {'kind': 'symbol', 'kinds': {ph: [rng.choice(KINDS) for _ in range(ks[ph])] for ph in IP},
               'nconf': rng.randint(0, 3), 'layout': rng.choice(LAYOUTS), 'lseed': rng.randrange(1 << 30)}


def cases(tier, seed):
    yield from _core((1, 2) if tier == 'quick' else (1, 2, 3))
    yield from _via_mode_core()
    yield from _symbol_core()
    yield from _seeded(tier, seed)


# ---------------------------------------------------------------------------------------------
# building the texts
# ---------------------------------------------------------------------------------------------
def _effect_line(kind, m):
    if kind == 'shell':
        return '$ echo %s >> @M@' % m
    if kind == 'run_sh':
        return 'run % sh -c "echo ' + m + ' >> @M@"'
    if kind == 'pct':
        return '% sh -c "echo ' + m + ' >> @M@"'
    if kind == 'run_probe':
        return 'run @P@ @R@ id=%s,mark=@M@:%s' % (m, m)
    if kind == 'file':
        return 'file %s.txt = "%s"' % (m, m)
    if kind == 'file_from':
        return 'file ' + m + '.txt = -stdout-from % sh -c "echo ' + m + ' >> @M@"'
    raise ValueError(kind)


def _next_iphase(phase):
    order = ['setup', 'before-assert', 'assert', 'cleanup']
    if phase in ('conf',):
        return 'setup'
    if phase == 'act':
        return 'before-assert'
    i = order.index(phase)
    return order[i + 1] if i + 1 < len(order) else None


def _render(blocks, layout, lseed, nonl):
    """blocks: phase -> list of entries (each a list of lines). -> text"""
    seq = []
    if layout == 'split':
        second = []
        for ph in PHASES:
            ents = blocks.get(ph, [])
            if not ents:
                continue
            if ph in IP and len(ents) >= 2:
                h = len(ents) // 2
                seq.append((ph, ents[:h]))
                second.append((ph, ents[h:]))
            else:
                seq.append((ph, ents))
        seq += second
    else:
        seq = [(ph, blocks[ph]) for ph in PHASES if blocks.get(ph)]
        if layout == 'reversed':
            seq.reverse()
        elif layout == 'shuffle':
            common.rng_for(lseed, ID, 'layout').shuffle(seq)
    lines = []
    for ph, ents in seq:
        lines.append('[%s]' % ph)
        for e in ents:
            lines.extend(e)
    text = '\n'.join(lines)
    return text if nonl else text + '\n'


def compose(case, with_defect):
    """-> (files relative to the case root with placeholders, info dict)"""
    sp = DEFECTS[case['cls']][case['sp']]
    phase, pos, via = case['phase'], case['pos'], case['via']
    kinds = case['kinds']
    in_suite = via == 'suite_defect'
    # entries: (role, lines)
    ph = {p: [] for p in PHASES}
    suite = {p: [] for p in IP}
    for l in sp['conf_support']:
        ph['conf'].append(('sup', [l]))
    fill = [l for l in CONF_FILL if not (sp['conf_support'] and l.startswith('actor'))]
    for l in fill[:case['nconf']]:
        ph['conf'].append(('eff', [l]))
    for l in sp['support']:
        (suite if in_suite else ph)['setup'].append(('sup', [l]))
    own_markers, audit_files, probe_ids = [], [], []
    for p in IP:
        for i, kind in enumerate(kinds[p]):
            m = '%s%d' % (LETTER[p], i + 1)
            ph[p].append(('eff', [_effect_line(kind, m)]))
    if via in ('suite', 'suite_defect'):
        for p in IP:
            suite[p].append(('eff', ['$ echo %s >> @M@' % SUITE_MARK[p]]))
    ph['act'] = [('eff', list(sp['act_ok'] or [A]))]
    files = {}
    dlines = list(sp['lines'])
    # --- the defect --------------------------------------------------------------------------------
    if phase == 'act':
        if with_defect:
            ph['act'] = [('defect', dlines)]
    else:
        target = suite if in_suite else ph
        if via == 'include':
            entry = ('defect', ['including inc.xly'])
            if with_defect:
                files['home/inc.xly'] = '\n'.join(dlines) + '\n'
        elif via == 'include_hdr' and phase != 'setup':
            entry = None
            if with_defect:
                files['home/inc.xly'] = '[%s]\n' % phase + '\n'.join(dlines) + '\n'
                ents = ph['setup']
                nsup = sum(1 for e in ents if e[0] == 'sup')
                ents.insert(nsup, ('defect', ['including inc.xly']))
        else:
            if via == 'include_hdr':
                entry = ('defect', ['including inc.xly'])
                if with_defect:
                    files['home/inc.xly'] = '\n'.join(dlines) + '\n'
            else:
                entry = ('defect', dlines)
        if entry is not None:
            ents = target[phase]
            eff_idx = [i for i, e in enumerate(ents) if e[0] == 'eff']
            at = eff_idx[pos] if pos < len(eff_idx) else len(ents)
            ents.insert(at, entry)
    # --- the later definition ---------------------------------------------------------------------
    if sp['later_def'] is not None:
        ldef = ('ldef', [sp['later_def']])
        where = case['where']
        nxt = _next_iphase(phase)
        if where == 'same' and phase in IP:
            ents = ph[phase]
            at = [i for i, e in enumerate(ents) if e[0] == 'defect'][0] + 1
            ents.insert(at, ldef)
        elif where == 'next' and nxt is not None:
            ents = ph[nxt]
            nsup = sum(1 for e in ents if e[0] == 'sup')
            ents.insert(nsup, ldef)
        else:
            ph['cleanup'].append(ldef)
    # --- expected observations of the control -----------------------------------------------------
    for p in IP:
        for i, kind in enumerate(kinds[p]):
            m = '%s%d' % (LETTER[p], i + 1)
            if kind != 'file':
                own_markers.append(m)
            if kind in ('file', 'file_from'):
                audit_files.append(m + '.txt')
            if kind == 'run_probe':
                probe_ids.append(m)
        if p == 'setup':
            own_markers.append('act')
            if not sp['act_ok']:
                probe_ids.append('act')

    def blocks_of(d):
        return {p: [lines for role, lines in d[p] if with_defect or role != 'defect'] for p in d}

    text = _render(blocks_of(ph), case['layout'], case['lseed'], case['nonl'])
    files['home/t.case'] = text
    if via in ('suite', 'suite_defect'):
        files['home/exactly.suite'] = _render(blocks_of(suite), 'canon', 0, False)
    for n, c in HOME_FILES.items():
        files['home/' + n] = c
    files['obs'] = ('dir',)
    files['cwd'] = ('dir',)
    info = {'own_markers': own_markers, 'audit_files': audit_files, 'probe_ids': probe_ids,
            'suite_markers': sorted(SUITE_MARK.values()) if via in ('suite', 'suite_defect') else [],
            'defect_lines': dlines, 'tag': sp['tag']}
    return files, info


def _subst(files, d):
    m = os.path.join(d, 'obs', 'markers')
    r = os.path.join(d, 'obs', 'probe.out')
    act = '%s %s id=act,mark=%s:act' % (probe.PROBE, r, m)

    def s(t):
        return t.replace('@A@', act).replace('@M@', m).replace('@R@', r).replace('@P@', probe.PROBE).replace('@D@', d)

    return {k: (s(v) if isinstance(v, str) else v) for k, v in files.items()}


# ---------------------------------------------------------------------------------------------
# observation
# ---------------------------------------------------------------------------------------------
def _read_markers(d):
    p = os.path.join(d, 'obs', 'markers')
    if not os.path.exists(p):
        return None
    with open(p) as f:
        return f.read().split()


def _probe_ids(d):
    return [r['id'] for r in probe.read_records(os.path.join(d, 'obs', 'probe.out'))]


def _snap_diff(a, b):
    out = []
    for k in sorted(set(a) | set(b)):
        if a.get(k) != b.get(k):
            out.append('%s: %s -> %s' % (k, 'absent' if k not in a else a[k][0], 'absent' if k not in b else b[k][0]))
    return out


def _ident_lines(s):
    return [l for l in s.split('\n') if l in ALL_IDENTS]


def observe(ses, d, argv, mode):
    """One monitored run; -> (RunResult, observation dict, effects list)"""
    from vf import driver
    snap0 = driver.snapshot_tree(d)
    r = ses.run(argv, cwd=os.path.join(d, 'cwd'), mode=mode)
    snap1 = driver.snapshot_tree(d)
    effects = []  # (code, message)
    cwd0 = os.path.realpath(r.cwd_before)
    evs = [e for e in r.audit if not (e[0] == 'os.chdir' and isinstance(e[1], str) and os.path.realpath(e[1]) == cwd0)]
    if evs:
        names = sorted(set(e[0] for e in evs))
        effects.append(('audit', 'audit events inside execute(): %d (%s), first: %r' % (len(evs), ', '.join(names), evs[0])))
    if r.calls:
        effects.append(('calls', 'subprocess.call invoked %d times, first args: %r' % (len(r.calls), r.calls[0]['args'])))
    markers = _read_markers(d)
    if markers is not None:
        effects.append(('markers', 'marker file written: %r' % markers))
    pids = _probe_ids(d)
    if pids:
        effects.append(('probe', 'probe processes started: %r' % pids))
    diff = _snap_diff(snap0, snap1)
    if diff:
        effects.append(('tree', 'file tree of the case changed: %r' % diff[:6]))
    if r.new_tmp_entries:
        effects.append(('tmp', 'entries left in the private TMPDIR: %r' % r.new_tmp_entries))
    if r.cwd_after != r.cwd_before:
        effects.append(('cwd', 'process cwd changed: %r -> %r' % (r.cwd_before, r.cwd_after)))
    if r.env_after != r.env_before:
        effects.append(('env', 'process environment changed'))
    obs = {'rc': r.rc, 'stdout': r.out[:300], 'stderr': r.err[:700], 'exc': r.exc,
           'audit_event_names': sorted(set(e[0] for e in r.audit)), 'n_audit_events': len(r.audit),
           'markers': markers, 'probe_ids': pids, 'new_tmp_entries': r.new_tmp_entries, 'tree_diff': diff[:10]}
    return r, obs, effects


def _reset_obs(ses, d):
    from vf import driver
    ses.clean_tmp()
    for n in ('obs', 'cwd'):
        driver.force_rmtree(os.path.join(d, n))
        os.makedirs(os.path.join(d, n))


def _judge_control(r, obs, info, ses):
    """-> list of reasons why the control is NOT a valid positive control (empty = fine)"""
    why = []
    if r.timed_out:
        return ['control: watchdog']
    if r.exc is not None or r.rc != 0 or r.out != 'PASS\n':
        why.append('control did not PASS: rc=%r out=%r err=%r' % (r.rc, r.out[:80], r.err[:300]))
    markers = obs['markers'] or []
    own = [m for m in markers if m not in SUITE_MARK.values()]
    if own != info['own_markers']:
        why.append('control markers %r, expected %r' % (own, info['own_markers']))
    if sorted(m for m in markers if m in SUITE_MARK.values()) != info['suite_markers']:
        why.append('control suite markers %r, expected %r' % (markers, info['suite_markers']))
    if obs['probe_ids'] != info['probe_ids']:
        why.append('control probe records %r, expected %r' % (obs['probe_ids'], info['probe_ids']))
    opened = [os.path.basename(e[1]) for e in r.audit if e[0] == 'open-w' and isinstance(e[1], str)]
    for f in info['audit_files']:
        if f not in opened:
            why.append('control: no open-for-write audit event for %s' % f)
    if not any(e[0] == 'subprocess.Popen' for e in r.audit):
        why.append('control: no Popen audit event')
    if not any(e[0] == 'tempfile.mkdtemp' and isinstance(e[1], str) and e[1].startswith(ses.tmpdir) for e in r.audit):
        why.append('control: no sandbox (mkdtemp under the private TMPDIR) seen')
    return why


def _pos_kind(case):
    if case['phase'] == 'act':
        return 'act'
    n = case['nconf'] if case['phase'] == 'conf' else len(case['kinds'][case['phase']])
    pos = case['pos']
    return 'first' if pos == 0 else 'last' if pos >= n else 'mid'


# written-out samples for the evidence file: the first of each of these situations met by a worker (+ one symbol case)
_SAMPLE_WANTED = {('missing', 'cleanup', 'last'), ('later', 'setup', 'first'), ('actsyntax', 'act', 'act')}
_sampled = set()


# ---------------------------------------------------------------------------------------------
def _skipped_under_act(m):
    """markers / probe ids of [before-assert] and [assert] (documented to be skipped under --act)"""
    return re.fullmatch(r'[ba]\d+', m) is not None or m in (SUITE_MARK['before-assert'], SUITE_MARK['assert'])


def run_case(case, ctx):
    if case['kind'] == 'symbol':
        return _run_symbol_case(case, ctx)
    ses = ctx.get_session()
    res = {'classes': [], 'viol': [], 'inconclusive': [], 'evaluations': 0}
    if not os.path.isfile(probe.PROBE):
        res['inconclusive'].append('probe executable missing')
        return res
    control_cache = {}
    for si in case['sps']:
        for nonl in ([case['nonl']] + ([True] if case.get('also_nonl') and not case['nonl'] else [])):
            _run_one(dict(case, sp=si, nonl=nonl), ctx, ses, control_cache, res)
    if not res['evaluations']:
        res['evaluations'] = 1
    return res


def _control(case, ctx, ses, d, cache):
    """Positive control: the same case without the defect (always normal mode, with final newline).  Its result is
    shared by the spellings of one case descriptor whose control TEXT is identical.  -> (why, summary)"""
    from vf import driver
    cfiles_t, cinfo = compose(dict(case, nonl=False), False)
    key = (cfiles_t['home/t.case'], cfiles_t.get('home/exactly.suite'))
    if key in cache:
        return cache[key]
    cfiles = _subst(cfiles_t, d)
    for rel in ('home/inc.xly', 'home/exactly.suite'):
        p = os.path.join(d, rel)
        if os.path.exists(p):
            os.remove(p)
    driver.write_files(d, {k: v for k, v in cfiles.items() if k in ('home/t.case', 'home/exactly.suite')})
    r, cobs, _ = observe(ses, d, [os.path.join(d, 'home', 't.case')], 'normal')
    why = _judge_control(r, cobs, cinfo, ses)
    ctx.count('c03.control_runs')
    if not why:
        ctx.count('c03.control_popen_events', sum(1 for e in r.audit if e[0] == 'subprocess.Popen'))
        ctx.count('c03.control_sandboxes', sum(1 for e in r.audit if e[0] == 'tempfile.mkdtemp'))
        ctx.count('c03.control_markers', len(cobs['markers'] or []))
    summary = {'rc': r.rc, 'stdout': r.out[:40], 'markers': cobs['markers'], 'probe_ids': cobs['probe_ids'],
               'n_popen': sum(1 for e in r.audit if e[0] == 'subprocess.Popen'),
               'sandbox_created': any(e[0] == 'tempfile.mkdtemp' for e in r.audit)}
    cache[key] = (why, summary)
    ses.clean_tmp()
    return cache[key]


def _run_one(case, ctx, ses, control_cache, res):
    from vf import driver
    d = ses.new_case_dir({})
    cls, mode = case['cls'], case['mode']
    exp_ident = EXPECTED[cls]
    files_t, info = compose(case, True)
    files = _subst(files_t, d)
    driver.write_files(d, files)
    case_path = os.path.join(d, 'home', 't.case')
    margv = {'normal': [], 'keep': ['--keep'], 'act': ['--act']}[mode]
    viol, inconc = res['viol'], res['inconclusive']
    tagged = cls + ('/' + info['tag'] if info['tag'] else '')
    where = '%s #%d at [%s] pos %s (%s, via %s, %s, %s%s)' % (tagged, case['sp'], case['phase'], case['pos'],
                                                              _pos_kind(case), case['via'], mode, case['layout'],
                                                              ', no final newline' if case['nonl'] else '')
    witness = {'sp': case['sp'], 'nonl': case['nonl'], 'case_text': files['home/t.case'],
               'defect_lines': info['defect_lines'], 'tag': info['tag'],
               'other_files': {k: v for k, v in files.items() if k in ('home/inc.xly', 'home/exactly.suite')},
               'expected': {'exit_code': EXIT_CODE, 'identifier': exp_ident, 'effects': 'none'}}

    # ---- 1. the defective case through `exactly [mode] FILE` -------------------------------------
    r, main_obs, effects = observe(ses, d, margv + [case_path], mode)
    problems = []
    judged = 0
    if r.timed_out:
        inconc.append('watchdog (defective run)')
    else:
        judged += 1
        if r.exc is not None:
            problems.append(('exception', 'exception escaped MainProgram.execute'))
        if r.rc != EXIT_CODE:
            problems.append(('exit_code', 'exit code %r, expected %d' % (r.rc, EXIT_CODE)))
        if mode == 'normal':
            if r.out != exp_ident + '\n':
                problems.append(('ident_stdout', 'stdout %r, expected exactly %r' % (r.out[:80], exp_ident + '\n')))
        else:
            if r.out != '':
                problems.append(('keep_act_stdout_not_empty',
                                 '%s: stdout %r, expected empty (nothing executed, no sandbox)' % (mode, r.out[:80])))
            if _ident_lines(r.err) != [exp_ident]:
                problems.append(('keep_act_ident_stderr', '%s: identifier lines on stderr %r, expected [%r]'
                                 % (mode, _ident_lines(r.err), exp_ident)))
        problems.extend(effects)
    _reset_obs(ses, d)

    # ---- 2. `exactly symbol FILE` on the defective case ------------------------------------------------
    r2, obs2, effects2 = observe(ses, d, ['symbol', case_path], None)
    problems2 = []
    judged2 = 0
    if r2.timed_out:
        inconc.append('watchdog (symbol run)')
    else:
        judged2 += 1
        if r2.exc is not None:
            problems2.append(('exception', 'symbol: exception escaped MainProgram.execute'))
        idl = _ident_lines(r2.out) + _ident_lines(r2.err)
        if r2.rc == EXIT_CODE:
            if idl != [exp_ident]:
                problems2.append(('symbol_ident', 'symbol: exit 65 with identifier lines %r, expected [%r]'
                                  % (idl, exp_ident)))
        elif r2.rc == 0:
            if cls in SYMBOL_CMD_STRICT:
                problems2.append(('symbol_exit_0', 'symbol: exit 0 on a case with a %s defect, expected 65 %s'
                                  % (cls, exp_ident)))
            if idl:
                problems2.append(('symbol_ident', 'symbol: exit 0 but identifier lines %r' % idl))
        else:
            problems2.append(('exit_code', 'symbol: exit code %r, expected 65 (or 0)' % r2.rc))
        problems2.extend((c, 'symbol: ' + e) for c, e in effects2)
    _reset_obs(ses, d)

    # ---- 3. positive control: the same case without the defect ---------------------------------------
    why, control = _control(case, ctx, ses, d, control_cache)
    ses.clean_tmp()
    ses.drop(d)
    if why:
        inconc.append('positive control shows too little, case not judged: ' + '; '.join(why)[:600])
        return
    ctx.count('c03.control_ok')
    ctx.count('c03.defect_runs_judged', judged)
    ctx.count('c03.audit_logs_inspected', judged + judged2)
    ctx.count('c03.symbol_on_defective_judged', judged2)
    res['evaluations'] += judged + judged2

    if problems:
        cm, cp = control['markers'] or [], control['probe_ids'] or []
        if mode == 'act':
            cm = [m for m in cm if not _skipped_under_act(m)]
            cp = [m for m in cp if not _skipped_under_act(m)]
        same_as_control = (main_obs['rc'] == control['rc'] and (main_obs['markers'] or []) == cm
                           and main_obs['probe_ids'] == cp
                           and (mode != 'normal' or main_obs['stdout'] == control['stdout']))
        viol.append({'what': 'C03 %s: %s' % (where, '; '.join(m for _, m in problems)[:400]),
                     'detail': dict(witness, cmd='exactly %s FILE' % ' '.join(margv),
                                    problems=[m for _, m in problems],
                                    problem_codes=sorted(set(c for c, _ in problems)),
                                    observed=main_obs, control=control, executed_like_control=same_as_control)})
    if problems2:
        viol.append({'what': 'C03 %s: %s' % (where, '; '.join(m for _, m in problems2)[:400]),
                     'detail': dict(witness, cmd='exactly symbol FILE', problems=[m for _, m in problems2],
                                    problem_codes=sorted(set(c for c, _ in problems2)), observed=obs2,
                                    control=control, executed_like_control=False)})
    seen = (_ident_lines(main_obs['stdout']) + _ident_lines(main_obs['stderr']) + ['-'])[0]
    key = (tagged, case['phase'], _pos_kind(case), case['via'], mode, case['layout'], seen)
    if key not in res['classes']:
        res['classes'].append(key)
    skey = (cls, case['phase'], _pos_kind(case))
    if 'sample' not in res and skey in _SAMPLE_WANTED and skey not in _sampled:
        _sampled.add(skey)
        res['sample'] = {'case': {k: case[k] for k in ('cls', 'sp', 'phase', 'pos', 'via', 'mode', 'layout')},
                         'case_text': files['home/t.case'], 'expected': witness['expected'],
                         'observed': {'rc': main_obs['rc'], 'stdout': main_obs['stdout'],
                                      'stderr': main_obs['stderr'][:200],
                                      'audit_event_names': main_obs['audit_event_names'],
                                      'markers': main_obs['markers'], 'new_tmp_entries': main_obs['new_tmp_entries']},
                         'symbol_cmd': {'rc': obs2['rc'], 'audit_event_names': obs2['audit_event_names']},
                         'control_without_defect': control}


# ---------------------------------------------------------------------------------------------
# `exactly symbol` on valid effectful cases
# ---------------------------------------------------------------------------------------------
def _compose_symbol_case(case):
    kinds = case['kinds']
    ph = {p: [] for p in PHASES}
    for l in CONF_FILL[:case['nconf']]:
        ph['conf'].append([l])
    ph['setup'] += [['def string SY_S = x'], ['def list SY_L = a b']]
    own, audit_files, pids = [], [], []
    for p in IP:
        if p == 'cleanup':
            ph[p].append(['def path SY_P = -rel-act f'])
        for i, kind in enumerate(kinds[p]):
            m = '%s%d' % (LETTER[p], i + 1)
            ph[p].append([_effect_line(kind, m)])
            if kind != 'file':
                own.append(m)
            if kind in ('file', 'file_from'):
                audit_files.append(m + '.txt')
            if kind == 'run_probe':
                pids.append(m)
        if p == 'setup':
            ph[p].append(['file sy.txt = "@[SY_S]@"'])
            audit_files.append('sy.txt')
            own.append('act')
            pids.append('act')
    ph['act'] = [[A + ' @[SY_S]@']]
    text = _render(ph, case['layout'], case['lseed'], False)
    suite = ('[cases]\nt.case\n[setup]\ndef string SUITE_S = y\n$ echo Ss >> @M@\n[cleanup]\n$ echo Sc >> @M@\n')
    files = {'home/t.case': text, 'suitedir/other.suite': suite.replace('t.case', '../home/t.case'),
             'obs': ('dir',), 'cwd': ('dir',)}
    for n, c in HOME_FILES.items():
        files['home/' + n] = c
    return files, {'own_markers': own, 'audit_files': audit_files, 'probe_ids': pids, 'suite_markers': []}


def _has_report_line(out, type_name, name, nrefs):
    for line in out.split('\n'):
        toks = re.findall(r'[A-Za-z_][A-Za-z0-9_-]*|\d+', line)
        if name in toks and type_name in toks and str(nrefs) in toks:
            return True
    return False


def _run_symbol_case(case, ctx):
    ses = ctx.get_session()
    from vf import driver
    d = ses.new_case_dir({})
    files_t, info = _compose_symbol_case(case)
    files = _subst(files_t, d)
    driver.write_files(d, files)
    case_path = os.path.join(d, 'home', 't.case')
    suite_path = os.path.join(d, 'suitedir', 'other.suite')
    forms = [
        ('list', ['symbol', case_path],
         lambda o: all(_has_report_line(o, t, n, k) for t, n, k in (('string', 'SY_S', 2), ('list', 'SY_L', 0),
                                                                     ('path', 'SY_P', 0)))),
        ('def', ['symbol', case_path, 'SY_S'], lambda o: 'def string SY_S = x' in o),
        ('ref', ['symbol', case_path, 'SY_S', '--ref'], lambda o: 'file sy.txt = "@[SY_S]@"' in o),
        ('suite_opt', ['symbol', '--suite', suite_path, case_path],
         lambda o: _has_report_line(o, 'string', 'SUITE_S', 0) and _has_report_line(o, 'string', 'SY_S', 2)),
        ('suite_cmd', ['symbol', 'suite', suite_path], lambda o: _has_report_line(o, 'string', 'SUITE_S', 0)),
    ]
    viol, inconc, classes = [], [], []
    n_eval = 0
    observed_forms = {}
    for form, argv, report_ok in forms:
        r, obs, effects = observe(ses, d, argv, None)
        if r.timed_out:
            inconc.append('watchdog (symbol %s)' % form)
            _reset_obs(ses, d)
            continue
        n_eval += 1
        ctx.count('c03.symbol_on_valid_judged')
        problems = []
        if r.exc is not None:
            problems.append('exception escaped MainProgram.execute')
        if r.rc != 0:
            problems.append('exit code %r, expected 0 (valid case)' % r.rc)
        elif not report_ok(r.out):
            problems.append('the report on stdout does not mention the defined symbols as documented: %r' % r.out[:300])
        problems.extend(m for _, m in effects)
        if problems:
            viol.append({'what': 'C03 symbol command (%s form, layout %s) on a valid effectful case: %s'
                                 % (form, case['layout'], '; '.join(problems)[:400]),
                         'detail': {'cmd': 'exactly ' + ' '.join(a.replace(d, '<D>') for a in argv),
                                    'case_text': files['home/t.case'], 'problems': problems, 'observed': obs,
                                    'expected': {'exit_code': 0, 'effects': 'none'}, 'tag': 'symbol_cmd',
                                    'executed_like_control': False}})
        classes.append(('symbol', form, case['layout'], 'rc=%s' % r.rc))
        observed_forms[form] = {'rc': r.rc, 'stdout': r.out[:200], 'audit_event_names': obs['audit_event_names'],
                                'markers': obs['markers'], 'new_tmp_entries': obs['new_tmp_entries']}
        _reset_obs(ses, d)
    # positive control: the very same file does have effects when run
    rc_, cobs, _ = observe(ses, d, [case_path], 'normal')
    why = _judge_control(rc_, cobs, info, ses)
    if why:
        inconc.append('positive control shows too little, case not judged: ' + '; '.join(why)[:600])
        classes = []
    else:
        ctx.count('c03.control_ok')
        ctx.count('c03.control_runs')
        ctx.count('c03.control_popen_events', sum(1 for e in rc_.audit if e[0] == 'subprocess.Popen'))
        ctx.count('c03.control_sandboxes', sum(1 for e in rc_.audit if e[0] == 'tempfile.mkdtemp'))
    ses.clean_tmp()
    ses.drop(d)
    res = {'classes': classes, 'viol': viol, 'inconclusive': inconc, 'evaluations': max(n_eval, 1)}
    if 'symbol' not in _sampled and not viol and not why:
        _sampled.add('symbol')
        res['sample'] = {'cmd': 'exactly symbol FILE [SY_S [--ref]] | symbol --suite S FILE | symbol suite S',
                         'case_text': files['home/t.case'], 'expected': {'exit_code': 0, 'effects': 'none'},
                         'observed': {f: observed_forms.get(f) for f in ('list', 'suite_cmd')},
                         'control_run_of_same_file': {'rc': rc_.rc, 'markers': cobs['markers'],
                                                      'n_popen': sum(1 for e in rc_.audit
                                                                     if e[0] == 'subprocess.Popen')}}
    return res


# ---------------------------------------------------------------------------------------------
# known findings (keyed by mechanism: input class AND the specific defective observation)
# ---------------------------------------------------------------------------------------------
_EXECUTION_CODES = {'exit_code', 'ident_stdout', 'keep_act_stdout_not_empty', 'keep_act_ident_stderr', 'audit', 'calls',
                    'markers', 'probe', 'tree', 'tmp'}


def _known_unreferenced_def(v):
    """Mechanism: a `def` whose VALUE is invalid (missing home file / non-integer / regex that does not compile) but
    whose symbol is never referenced is not validated at all, so the case is executed exactly like the control
    (exit 0, every marker, every probe record).  Any other observation on the same input (another identifier, partial
    execution, an escaped exception, a changed cwd/environment, effects of `symbol`) is NOT this finding."""
    det = v.get('detail') or {}
    if det.get('tag') != 'unref_def' or 'symbol' in str(det.get('cmd', '')):
        return False
    lines = det.get('defect_lines') or []
    if len(lines) != 1 or not lines[0].startswith('def '):
        return False
    codes = set(det.get('problem_codes') or [])
    if 'exit_code' not in codes or not codes <= _EXECUTION_CODES:
        return False
    obs = det.get('observed') or {}
    ctl = det.get('control') or {}
    if not det.get('executed_like_control') or ctl.get('rc') != 0 or not ctl.get('markers'):
        return False
    # (executed_like_control is mode aware: under --act the [before-assert]/[assert] markers are absent by design)
    return obs.get('rc') == 0 and obs.get('exc') is None and bool(obs.get('markers'))


def _known_suite_error_on_stdout(v):
    """Mechanism: a parse-time error (syntax error, unknown instruction, missing included file) located in the SUITE
    file that the case is run as part of (exactly.suite beside it) is reported with the identifier line on stdout even
    under --keep / --act, where the manual promises an empty stdout / error information on stderr.  Exit code and
    identifier are right and nothing is executed; anything else observed on these inputs is NOT this finding."""
    case = v.get('case') or {}
    det = v.get('detail') or {}
    if case.get('via') != 'suite_defect' or case.get('mode') not in ('keep', 'act'):
        return False
    if case.get('cls') not in ('syntax', 'unknown', 'include') or 'symbol' in str(det.get('cmd', '')):
        return False
    if set(det.get('problem_codes') or []) != {'keep_act_stdout_not_empty', 'keep_act_ident_stderr'}:
        return False
    obs = det.get('observed') or {}
    ident = (det.get('expected') or {}).get('identifier')
    return (obs.get('rc') == EXIT_CODE and obs.get('stdout') == '%s\n' % ident and obs.get('n_audit_events') == 0
            and ident not in (obs.get('stderr') or '').split('\n') and obs.get('markers') is None)


KNOWN = {'unreferenced_def_value_not_validated': _known_unreferenced_def,
         'suite_file_error_identifier_on_stdout_under_keep_or_act': _known_suite_error_on_stdout}
