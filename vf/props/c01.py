"""C01 Phased execution protocol: fault enumeration over a recorded call trace (D2 stubs through
full_execution.execute), decided by independent trace predicates P1-P6."""
import itertools

from vf import common

ID = 'C01'
LEVEL = 'fault_enumeration'
RULE = ('one case = one execution of a stub test case through full_execution.execute under a fault plan '
        '(failing step x instruction position x failure kind, optionally + a failing cleanup instruction, or a second '
        'non-cleanup fault that must never be reached) x configured status x {normal, act-only}; single and '
        'step+cleanup faults for n<=2 instructions per phase are enumerated exhaustively; class key = (phase, step, '
        'kind, position class, cleanup fault, status, mode, n); non-trivial = the recorded trace had >=1 event and all '
        'six trace predicates were evaluated on it')
ASSUMPTIONS = ['stub instructions/actor are subclasses of the public phase-instruction classes; the executor is the '
               'real one',
               'when a phase has no instruction, "which phase ran last" is ambiguous: the phases following the last '
               'phase with an observed main step that are empty are accepted too',
               'XFAIL under status FAIL is the documented reading of a failing assertion, not "a success"',
               'act-only mode (exe_atc_and_skip_assertions): before-assert and assert are documented to be skipped']
EXHAUSTIVE_NOTE = ('all single faults and all (step fault + cleanup fault) pairs for n in {1,2} instructions per phase, '
                   'x 3 statuses x 2 modes')
MIN_OBS = {'quick': {'evaluations': 5000, 'c01.traces_checked': 5000, 'c01.predicate_evaluations': 30000},
           'thorough': {'evaluations': 20000, 'c01.traces_checked': 20000, 'c01.predicate_evaluations': 120000}}

INSTR_PHASES = ('setup', 'before-assert', 'assert', 'cleanup')
MAIN_ORDER = ('setup', 'act', 'before-assert', 'assert')


def sites(counts):
    """All (phase, step, index) at which a fault can be planted, in documented execution order."""
    s = []
    for i in range(counts['conf']):
        s.append(('conf', 'main', i))
    s.append(('act', 'parse', 0))
    for step in ('symbols', 'pre_sds'):
        for ph in ('setup', 'act', 'before-assert', 'assert', 'cleanup'):
            n = 1 if ph == 'act' else counts[ph]
            for i in range(n):
                s.append((ph, step, i))
    for i in range(counts['setup']):
        s.append(('setup', 'main', i))
    for ph in ('setup', 'act', 'before-assert', 'assert'):
        n = 1 if ph == 'act' else counts[ph]
        for i in range(n):
            s.append((ph, 'post_setup', i))
    if counts['setup'] > 0:
        s.append(('act', 'exe_input', 0))  # needs a setup instruction to install the stdin stub
    s.append(('act', 'prepare', 0))
    s.append(('act', 'execute', 0))
    for i in range(counts['before-assert']):
        s.append(('before-assert', 'main', i))
    for i in range(counts['assert']):
        s.append(('assert', 'main', i))
    for i in range(counts['cleanup']):
        s.append(('cleanup', 'main', i))
    return s


def _kinds(phase, step):
    from vf import stubs_kinds
    return stubs_kinds.kinds_for(phase, step)


def cases(tier, seed):
    from vf import stubs_kinds as K
    # ---- deterministic exhaustive core ----------------------------------------------------
    for n in (1, 2):
        counts = {'conf': n, 'setup': n, 'before-assert': n, 'assert': n, 'cleanup': n}
        all_sites = sites(counts)
        # the no-fault executions
        for status in ('PASS', 'FAIL', 'SKIP'):
            for mode in ('normal', 'act'):
                yield {'counts': counts, 'plan': [], 'status': status, 'mode': mode, 'comments': False}
        cleanup_faults = [None] + [(('cleanup', 'main', j), k) for j in range(n) for k in K.kinds_for('cleanup', 'main')]
        for site in all_sites:
            for kind in K.kinds_for(site[0], site[1]):
                for cf in cleanup_faults:
                    if cf is not None and site[0] == 'cleanup' and site[1] == 'main':
                        continue  # single cleanup faults are covered by cf=None
                    plan = [[list(site), kind]]
                    if cf is not None:
                        plan.append([list(cf[0]), cf[1]])
                    for status in ('PASS', 'FAIL', 'SKIP'):
                        for mode in ('normal', 'act'):
                            yield {'counts': counts, 'plan': plan, 'status': status, 'mode': mode, 'comments': False}
    # ---- seeded part ----------------------------------------------------------------------
    rng = common.rng_for(seed, ID)
    n_rand = 8000 if tier == 'quick' else 40000
    if tier == 'thorough':
        # n = 3 single faults + cleanup pairs, exhaustively
        counts = {'conf': 3, 'setup': 3, 'before-assert': 3, 'assert': 3, 'cleanup': 3}
        cleanup_faults = [None] + [(('cleanup', 'main', j), k) for j in range(3) for k in K.kinds_for('cleanup', 'main')]
        for site in sites(counts):
            for kind in K.kinds_for(site[0], site[1]):
                for cf in cleanup_faults:
                    if cf is not None and site[0] == 'cleanup' and site[1] == 'main':
                        continue
                    plan = [[list(site), kind]]
                    if cf is not None:
                        plan.append([list(cf[0]), cf[1]])
                    yield {'counts': counts, 'plan': plan, 'status': rng.choice(('PASS', 'FAIL', 'SKIP')),
                           'mode': rng.choice(('normal', 'act')), 'comments': False}
    for _ in range(n_rand):
        counts = {'conf': rng.randrange(0, 3)}
        for ph in INSTR_PHASES:
            counts[ph] = rng.randrange(0, 5)
        ss = sites(counts)
        nf = rng.choice((1, 2, 2, 2, 3))
        chosen = rng.sample(ss, min(nf, len(ss)))
        plan = [[list(s), rng.choice(K.kinds_for(s[0], s[1]))] for s in chosen]
        yield {'counts': counts, 'plan': plan, 'status': rng.choice(('PASS', 'PASS', 'FAIL', 'SKIP')),
               'mode': rng.choice(('normal', 'normal', 'act')), 'comments': rng.random() < 0.3,
               'initial_status': rng.choice(('PASS', 'PASS', 'FAIL'))}


# ------------------------------------------------------------------------------------------------
_PS_MAP = None


def _phase_step_map():
    """str(PhaseStep) -> (phase, step) of the trace vocabulary; built from the repository's named constants."""
    global _PS_MAP
    if _PS_MAP is None:
        from exactly_lib.execution import phase_step as ps
        m = {}
        names = {
            'CONFIGURATION__MAIN': ('conf', 'main'),
            'ACT__PARSE': ('act', 'parse'), 'ACT__VALIDATE_SYMBOLS': ('act', 'symbols'),
            'ACT__VALIDATE_PRE_SDS': ('act', 'pre_sds'), 'ACT__VALIDATE_POST_SETUP': ('act', 'post_setup'),
            'ACT__VALIDATE_EXE_INPUT': ('act', 'exe_input'), 'ACT__PREPARE': ('act', 'prepare'),
            'ACT__EXECUTE': ('act', 'execute'),
        }
        for P, p in (('SETUP', 'setup'), ('BEFORE_ASSERT', 'before-assert'), ('ASSERT', 'assert'), ('CLEANUP', 'cleanup')):
            names[P + '__VALIDATE_SYMBOLS'] = (p, 'symbols')
            names[P + '__VALIDATE_PRE_SDS'] = (p, 'pre_sds')
            names[P + '__MAIN'] = (p, 'main')
            if p != 'cleanup':
                names[P + '__VALIDATE_POST_SETUP'] = (p, 'post_setup')
        for const, val in names.items():
            m[str(getattr(ps, const))] = val
        _PS_MAP = m
    return _PS_MAP


VALIDATION_STEPS = ('symbols', 'pre_sds')
POST_SDS_STEPS = ('main', 'post_setup', 'exe_input', 'prepare', 'execute')


def check_trace(case, events, summary, exc, n_sandboxes):
    """The trace predicates.  Returns (list of violation strings, number of predicate evaluations)."""
    from vf import stubs_kinds as K
    v = []
    counts = case['counts']
    plan = {tuple(s): k for s, k in case['plan']}
    status = case['status'] if counts['conf'] > 0 else case.get('initial_status', 'PASS')
    act_only = case['mode'] == 'act'
    npred = 0

    if exc is not None:
        return ['exception escaped full_execution.execute: %r' % (exc,)], 1
    if summary is None:
        return ['no result'], 1

    def is_post(e):
        return e['phase'] != 'conf' and e['step'] in POST_SDS_STEPS

    failing = [e for e in events if (e['phase'], e['step'], e['index']) in plan]
    first_fail = failing[0] if failing else None
    conf_failed = first_fail is not None and first_fail['phase'] == 'conf'
    skipped = status == 'SKIP' and not conf_failed

    # -- P1 validation before any main step; symbols before pre-sds; nothing post-sandbox before validation done
    npred += 1
    val = [e['seq'] for e in events if e['step'] in VALIDATION_STEPS]
    post = [e['seq'] for e in events if is_post(e)]
    if val and post and max(val) > min(post):
        v.append('P1: a validation step ran after a main/post-setup/act step (validation seq %d > %d)' %
                 (max(val), min(post)))
    sym = [e['seq'] for e in events if e['step'] == 'symbols']
    pre = [e['seq'] for e in events if e['step'] == 'pre_sds']
    if sym and pre and max(sym) > min(pre):
        v.append('P1: a symbol-validation step ran after a pre-sandbox validation step')
    for e in events:
        if e['step'] in VALIDATION_STEPS + ('parse',) or e['phase'] == 'conf':
            if e['n_sandboxes'] != 0:
                v.append('P1: sandbox exists at %s/%s/%d (before validation finished)' % (e['phase'], e['step'],
                                                                                        e['index']))
                break
    parse = [e['seq'] for e in events if e['step'] == 'parse']
    confs = [e['seq'] for e in events if e['phase'] == 'conf']
    rest = [e['seq'] for e in events if e['phase'] != 'conf']
    if confs and rest and max(confs) > min(rest):
        v.append('P1: a configuration-phase step ran after a step of another phase')
    if len(parse) > 1:
        v.append('P1: act parse ran %d times' % len(parse))

    # -- P2 fixed phase order of main steps, file order within each (phase, step), at most once each
    npred += 1
    groups = {}
    for e in events:
        groups.setdefault((e['phase'], e['step']), []).append(e['index'])
    for (ph, st), idx in groups.items():
        if idx != list(range(len(idx))):
            v.append('P2: %s/%s executed for instruction indices %r (must be 0,1,2,.. each once, in file order)' %
                     (ph, st, idx))
    mains = [e for e in events if (e['step'] == 'main' and e['phase'] in MAIN_ORDER) or
             (e['phase'] == 'act' and e['step'] in ('exe_input', 'prepare', 'execute'))]
    ranks = [MAIN_ORDER.index(e['phase']) for e in mains]
    if ranks != sorted(ranks):
        v.append('P2: main steps not in the order setup, act, before-assert, assert: %r' %
                 [(e['phase'], e['step'], e['index']) for e in mains])
    act_steps = [e['step'] for e in events if e['phase'] == 'act' and e['step'] in ('exe_input', 'prepare', 'execute')]
    if act_steps != [s for s in ('exe_input', 'prepare', 'execute') if s in act_steps]:
        v.append('P2: act steps out of order: %r' % act_steps)
    # post-setup validation comes after setup main and before act execution
    ps = [e['seq'] for e in events if e['step'] == 'post_setup']
    sm = [e['seq'] for e in events if e['phase'] == 'setup' and e['step'] == 'main']
    later = [e['seq'] for e in events if (e['phase'] == 'act' and e['step'] in ('exe_input', 'prepare', 'execute')) or
             (e['phase'] in ('before-assert', 'assert') and e['step'] == 'main')]
    if ps and sm and min(ps) < max(sm):
        v.append('P2: post-setup validation ran before setup main finished')
    if ps and later and max(ps) > min(later):
        v.append('P2: post-setup validation ran after the act phase started')
    if act_only:
        if any(e['phase'] in ('before-assert', 'assert') and e['step'] == 'main' for e in events):
            v.append('P2: act-only mode executed before-assert/assert main')

    # -- P3 halt: after the first failing step nothing but cleanup main; a failing cleanup stops cleanup
    npred += 1
    if first_fail is not None:
        for e in events:
            if e['seq'] > first_fail['seq'] and not (e['phase'] == 'cleanup' and e['step'] == 'main'):
                v.append('P3: %s/%s/%d executed after the failing step %s/%s/%d' %
                         (e['phase'], e['step'], e['index'], first_fail['phase'], first_fail['step'],
                          first_fail['index']))
                break
        for f in failing:
            for e in events:
                if e['seq'] > f['seq'] and (e['phase'], e['step']) == (f['phase'], f['step']):
                    v.append('P3: %s/%s continued with instruction %d after instruction %d failed' %
                             (e['phase'], e['step'], e['index'], f['index']))
                    break

    # -- P4 cleanup exactly once iff the sandbox exists; told the phase that ran last
    npred += 1
    cl = [e for e in events if e['phase'] == 'cleanup' and e['step'] == 'main']
    sandbox_created = n_sandboxes > 0
    if n_sandboxes > 1:
        v.append('P4: %d sandboxes created in one execution' % n_sandboxes)
    if not sandbox_created:
        if cl:
            v.append('P4: cleanup main ran although no sandbox was created')
        if post:
            v.append('P4: a post-sandbox step ran although no sandbox was created')
    else:
        planned_cl_fail = sorted(i for (ph, st, i) in plan if ph == 'cleanup' and st == 'main')
        upto = planned_cl_fail[0] if planned_cl_fail else counts['cleanup'] - 1
        expected_idx = list(range(upto + 1)) if counts['cleanup'] else []
        got_idx = [e['index'] for e in cl]
        if got_idx != expected_idx:
            v.append('P4: cleanup main ran for instruction indices %r, expected %r (exactly once, whatever happened '
                     'before)' % (got_idx, expected_idx))
        non_cl = [e['seq'] for e in events if not (e['phase'] == 'cleanup' and e['step'] == 'main')]
        if cl and non_cl and min(e['seq'] for e in cl) < max(non_cl):
            v.append('P4: cleanup main ran before another step')
        # previous phase
        non_cleanup_fail = next((f for f in failing if not (f['phase'] == 'cleanup' and f['step'] == 'main')), None)
        if any(e['phase'] == 'assert' and e['step'] == 'main' for e in events):
            base = 'ASSERT'
        elif any(e['phase'] == 'before-assert' and e['step'] == 'main' for e in events):
            base = 'BEFORE_ASSERT'
        elif any(e['phase'] == 'act' and e['step'] == 'execute' for e in events):
            base = 'ACT'
        else:
            base = 'SETUP'
        allowed = {base}
        if non_cleanup_fail is None and not act_only:
            order = ['SETUP', 'ACT', 'BEFORE_ASSERT', 'ASSERT']
            key = {'BEFORE_ASSERT': 'before-assert', 'ASSERT': 'assert'}
            i = order.index(base) + 1
            while i < len(order) and order[i] in key and counts[key[order[i]]] == 0:
                allowed.add(order[i])
                i += 1
        for e in cl:
            if e.get('previous_phase') not in allowed:
                v.append('P4: cleanup instruction %d was told previous phase %s, expected %s' %
                         (e['index'], e.get('previous_phase'), '|'.join(sorted(allowed))))
                break
        for e in events:
            if is_post(e) and e['sds_root'] is not None and not e['sandbox_exists']:
                v.append('P4: sandbox does not exist at %s/%s/%d' % (e['phase'], e['step'], e['index']))
                break

    # -- P5 outcome
    npred += 1
    st = summary['status']
    if not failing:
        exp = 'SKIPPED' if skipped else ('XPASS' if status == 'FAIL' else 'PASS')
        if st != exp:
            v.append('P5: no step failed, status %s, expected %s' % (st, exp))
        if summary['failure_phase_step'] is not None:
            v.append('P5: no step failed but failure_info names %s' % summary['failure_phase_step'])
    else:
        if st in ('PASS', 'XPASS', 'SKIPPED'):
            v.append('P5: outcome %s although step %s/%s/%d failed (%s)' %
                     (st, first_fail['phase'], first_fail['step'], first_fail['index'],
                      plan[(first_fail['phase'], first_fail['step'], first_fail['index'])]))
        else:
            candidates = [first_fail] + [f for f in failing if f['phase'] == 'cleanup' and f['step'] == 'main'][:1]
            named = _phase_step_map().get(summary['failure_phase_step'])
            ok = False
            for c in candidates:
                kind = plan[(c['phase'], c['step'], c['index'])]
                exp_status = K.EXPECTED_STATUS[kind]
                if exp_status == 'FAIL' and status == 'FAIL':
                    exp_status = 'XFAIL'
                if named != (c['phase'], c['step']):
                    continue
                if st != exp_status:
                    continue
                if summary['failure_line'] is not None:
                    from vf import stubs
                    exp_line = 10 * stubs.PHASES.index(c['phase']) + c['index'] + 1
                    if summary['failure_line'] != exp_line:
                        continue
                elif c['phase'] != 'act':
                    continue
                ok = True
                break
            if not ok:
                v.append('P5: outcome %s at %s (line %s) is neither the earliest failing step %s/%s/%d (%s) nor a '
                         'failing cleanup step with its kind of failure' %
                         (st, summary['failure_phase_step'], summary['failure_line'], first_fail['phase'],
                          first_fail['step'], first_fail['index'],
                          plan[(first_fail['phase'], first_fail['step'], first_fail['index'])]))

    # -- P6 SKIP short-circuit
    npred += 1
    if skipped:
        if any(e['phase'] != 'conf' for e in events):
            v.append('P6: status SKIP but steps of other phases ran')
        if sandbox_created:
            v.append('P6: status SKIP but a sandbox was created')
    elif not conf_failed:
        # a complete run must have passed through every validation step of every instruction (unless it failed)
        if first_fail is None:
            expected_events = len(sites(counts)) - (1 if counts['setup'] == 0 else 0) * 0
            if act_only:
                expected_events -= counts['before-assert'] + counts['assert']
            if len(events) != expected_events:
                v.append('P6: a fault-free execution recorded %d step events, the documented protocol has %d' %
                         (len(events), expected_events))
    return v, npred


def run_case(case, ctx):
    from vf import stubs
    import os
    import tempfile
    plan = {tuple(s): k for s, k in case['plan']}
    rec = stubs.Recorder(plan, ctx.scratch)
    tc = stubs.build_test_case(rec, case['counts'], case['status'] if case['counts']['conf'] else None,
                               with_comments=case.get('comments', False))
    cwd0 = os.getcwd()
    out_files = None
    f1 = f2 = None
    if case['mode'] == 'act':
        f1 = tempfile.TemporaryFile('w+', dir=ctx.scratch)
        f2 = tempfile.TemporaryFile('w+', dir=ctx.scratch)
        from exactly_lib.util.file_utils.std import StdOutputFiles
        out_files = StdOutputFiles(f1, f2)
    try:
        res, exc = stubs.execute(rec, tc, is_keep_sandbox=False, act_only=(case['mode'] == 'act'),
                                 initial_status=case.get('initial_status', 'PASS'), out_files=out_files)
    finally:
        if f1:
            f1.close()
            f2.close()
    summary = stubs.result_summary(res)
    viols, npred = check_trace(case, rec.events, summary, exc, len(rec.sandbox_roots))
    ctx.count('c01.traces_checked')
    ctx.count('c01.predicate_evaluations', npred)
    ctx.count('c01.events_observed', len(rec.events))
    if os.getcwd() != cwd0:
        viols.append('cwd of the calling process changed by execute()')
        os.chdir(cwd0)
    from vf import driver
    for d in rec.sandbox_roots:
        driver.force_rmtree(d)
    # class key
    if case['plan']:
        (ph, st, ix), kind = tuple(case['plan'][0][0]), case['plan'][0][1]
        n_here = 1 if ph == 'act' else case['counts'][ph]
        pos = 'only' if n_here == 1 else 'first' if ix == 0 else 'last' if ix == n_here - 1 else 'mid'
        second = 'none'
        if len(case['plan']) > 1:
            (ph2, st2, ix2), k2 = tuple(case['plan'][1][0]), case['plan'][1][1]
            second = '%s/%s:%s' % (ph2, st2, k2)
        key = (ph, st, kind, pos, second, case['status'], case['mode'], min(case['counts']['setup'], 3))
    else:
        key = ('no-fault', case['status'], case['mode'], case['counts']['setup'])
    r = {'classes': [key] if rec.events else [],
         'viol': [{'what': 'C01 ' + m, 'detail': {'events': [(e['phase'], e['step'], e['index'],
                                                            e.get('previous_phase')) for e in rec.events],
                                                  'result': summary}} for m in viols]}
    if len(case['plan']) == 2 and case['plan'][0][0][0] == 'assert' and case['mode'] == 'normal' \
            and case['status'] == 'FAIL' and case['counts']['setup'] == 2:
        r['sample'] = {'case': case, 'trace': ['%s/%s/%d%s' % (e['phase'], e['step'], e['index'],
                                                              ('(prev=%s)' % e['previous_phase'])
                                                              if 'previous_phase' in e else '')
                                               for e in rec.events], 'result': summary}
    return r
